---------------------------- MODULE TablesMedia ----------------------------
(***************************************************************************)
(* History part of C17: which member can decrypt which announced file, at  *)
(* which later epoch, depending on when the announcing message and the     *)
(* intervening commits were processed.                                     *)
(*                                                                         *)
(* One group.  The main chain is the sequence of winning commits K_k       *)
(* (epoch k-1 -> k); an epoch may also have one losing sibling L_k (later  *)
(* wrapper timestamp) that some clients apply first and roll back from.    *)
(* Exporter secrets are symbolic key ids: the epoch number on the main     *)
(* chain, LostKey(k) on the losing branch.  A file is encrypted under the  *)
(* key id of its sender's epoch; the announcing kind-445 message carries   *)
(* the imeta tag; a receiver stores that message together with the epoch   *)
(* it was sent in.  decrypt_from_download (encrypted_media/manager.rs) is  *)
(* the operator Tables!MediaDecrypts applied to what the client has stored.*)
(***************************************************************************)
EXTENDS Tables, FiniteSetsExt

CONSTANTS Clients,    \* client names
          Files,      \* file names
          Content,    \* Content[f]: content id of file f (two files may have identical bytes)
          Lookback,   \* epochs of stored exporter secrets tried for the outer layer (5 in the code)
          MaxPast     \* max_past_epochs of the MLS group

VARIABLES base,    \* epoch at which the group starts
          head,    \* epoch of the head of the main chain
          roster,  \* roster[e]: members at epoch e of the main chain (e in base..head)
          forks,   \* epochs k that have a losing sibling commit L_k besides K_k
          st,      \* st[c]: what client c holds
          file,    \* file[f]: NoFile or [epoch, sender]
          last     \* observation of the last step

mvars == <<base, head, roster, forks, st, file, last>>

NoFile == [epoch |-> -1, sender |-> ""]
LostKey(k) == 0 - k - 10
NoClient == [ep |-> -1, lost |-> FALSE, active |-> FALSE, sec |-> {}, ann |-> {}]

Announced(f) == file[f].epoch # -1
InGroup(c) == st[c].ep # -1
\* key id of c's current epoch (what mdk.exporter_secret() derives), NoKeyId when it cannot export
CurKey(c) == IF ~InGroup(c) \/ ~st[c].active THEN NoKeyId
             ELSE IF st[c].lost THEN LostKey(st[c].ep) ELSE st[c].ep
Member(c, e) == e \in DOMAIN roster /\ c \in roster[e]

\* epochs the lookup find_message_epoch_by_tag_content("x <hash>") may return at c for file f.
\* As built the search key is the content hash alone: any stored message announcing the same bytes matches.
LookupD(c, f, dev) ==
    IF "HintByHashOnly" \in dev
    THEN {a.epoch : a \in {b \in st[c].ann : Content[b.f] = Content[f]}}
    ELSE {a.epoch : a \in {b \in st[c].ann : b.f = f}}
Lookup(c, f) == LookupD(c, f, Dev)
Hints(c, f) == IF Lookup(c, f) = {} THEN {NoHint} ELSE Lookup(c, f)

DecryptsWith(c, f, h, t) == MediaDecrypts(file[f].epoch, h, st[c].sec, CurKey(c), t)

-----------------------------------------------------------------------------
Init ==
    /\ base = -1 /\ head = -1 /\ roster = <<>> /\ forks = {}
    /\ st = [c \in Clients |-> NoClient]
    /\ file = [f \in Files |-> NoFile]
    /\ last = [op |-> "init"]

Fresh(e) == [ep |-> e, lost |-> FALSE, active |-> TRUE, sec |-> {}, ann |-> {}]

Create(a, members, b) ==
    /\ base = -1
    /\ a \notin members
    /\ base' = b /\ head' = b
    /\ roster' = (b :> ({a} \cup members))
    /\ st' = [c \in Clients |-> IF c \in {a} \cup members THEN Fresh(b) ELSE st[c]]
    /\ last' = [op |-> "create"]
    /\ UNCHANGED <<forks, file>>

\* effect of moving client state s from epoch k-1 to k along the main chain
Advance(s, c, k) ==
    IF c \in roster[k]
    THEN [s EXCEPT !.ep = k, !.lost = FALSE, !.sec = (s.sec \ {LostKey(k)}) \cup {k - 1, k}]
    ELSE [s EXCEPT !.ep = k, !.lost = FALSE, !.active = FALSE, !.sec = (s.sec \ {LostKey(k)}) \cup {k - 1}]

\* c (at the head, on the main chain) creates the winning commit for the next epoch and applies it at once;
\* kind "add" brings x in (welcome accepted at once), "remove" takes x out.  With fork = c2 # "" a second
\* member creates a competing commit for the same epoch that loses the MIP-03 race (it keeps it pending).
Commit(c, kind, x, c2) ==
    LET k == head + 1
        r == roster[head]
        r2 == CASE kind = "add" -> r \cup {x} [] kind = "remove" -> r \ {x} [] OTHER -> r IN
    /\ base # -1
    /\ InGroup(c) /\ st[c].active /\ ~st[c].lost /\ st[c].ep = head /\ c \in r
    /\ kind \in {"update", "add", "remove"}
    /\ kind = "add" => x \in Clients \ r /\ ~InGroup(x)
    /\ kind = "remove" => x \in r \ {c}
    /\ kind = "update" => x = ""
    /\ c2 # "" => /\ c2 \in r \ {c} /\ kind = "update"
                  /\ InGroup(c2) /\ st[c2].active /\ ~st[c2].lost /\ st[c2].ep = head
    /\ head' = k
    /\ roster' = roster @@ (k :> r2)
    /\ forks' = IF c2 # "" THEN forks \cup {k} ELSE forks
    /\ st' = [d \in Clients |->
                IF d = c THEN [st[c] EXCEPT !.ep = k, !.sec = @ \cup {head}]
                ELSE IF kind = "add" /\ d = x THEN Fresh(k)
                ELSE IF d = c2 THEN [st[d] EXCEPT !.sec = @ \cup {head}]
                ELSE st[d]]
    /\ last' = [op |-> "commit"]
    /\ UNCHANGED <<base, file>>

\* Handling any group event first derives (and stores) the exporter secret of the client's current epoch
\* (messages/decryption.rs:161) unless the dedup record short-cuts the call.  Whether the secret of the CURRENT
\* epoch is already stored is immaterial (it can always be derived while the client is a member), so the model
\* simply records it; trace validation compares stored secrets of past epochs only.
Touched(c) == IF CurKey(c) = NoKeyId THEN st ELSE [st EXCEPT ![c] = [@ EXCEPT !.sec = @ \cup {CurKey(c)}]]
NoChangeAt(c) == st' = Touched(c)

\* client c is handed the winning commit K_k
CanApplyK(c, k) == InGroup(c) /\ st[c].active /\ ~st[c].lost /\ st[c].ep = k - 1 /\ Member(c, k - 1)
CanRollbackK(c, k) == InGroup(c) /\ st[c].active /\ st[c].lost /\ st[c].ep = k
DeliverK(c, k) ==
    /\ k \in (base + 1)..head
    /\ IF CanApplyK(c, k) \/ CanRollbackK(c, k)
       THEN /\ st' = [st EXCEPT ![c] = Advance(st[c], c, k)]
            /\ last' = [op |-> "deliverK", res |-> "Commit"]
       ELSE /\ NoChangeAt(c)
            /\ last' = [op |-> "deliverK", res |-> "Other"]
    /\ UNCHANGED <<base, head, roster, forks, file>>

\* client c is handed the losing commit L_k before the winner
CanApplyL(c, k) == k \in forks /\ InGroup(c) /\ st[c].active /\ ~st[c].lost /\ st[c].ep = k - 1 /\ Member(c, k - 1)
DeliverL(c, k) ==
    /\ k \in forks
    /\ IF CanApplyL(c, k)
       THEN /\ st' = [st EXCEPT ![c] = [@ EXCEPT !.ep = k, !.lost = TRUE, !.sec = @ \cup {k - 1, LostKey(k)}]]
            /\ last' = [op |-> "deliverL", res |-> "Commit"]
       ELSE /\ NoChangeAt(c)
            /\ last' = [op |-> "deliverL", res |-> "Other"]
    /\ UNCHANGED <<base, head, roster, forks, file>>

\* s encrypts file f under its current epoch key and announces it (create_message stores it with that epoch)
Announce(s, f) ==
    /\ InGroup(s) /\ st[s].active /\ ~st[s].lost /\ ~Announced(f)
    /\ file' = [file EXCEPT ![f] = [epoch |-> st[s].ep, sender |-> s]]
    /\ st' = [st EXCEPT ![s] = [@ EXCEPT !.ann = @ \cup {[f |-> f, epoch |-> st[s].ep]}, !.sec = @ \cup {st[s].ep}]]
    /\ last' = [op |-> "announce"]
    /\ UNCHANGED <<base, head, roster, forks>>

\* can client c open the announcing message of f (outer NIP-44 layer with a stored secret, MLS past-epoch window)?
CanRead(c, f) ==
    LET e == file[f].epoch IN
    /\ InGroup(c) /\ st[c].active /\ Member(c, e)
    /\ st[c].ep >= e /\ st[c].ep - e <= Lookback /\ st[c].ep - e <= MaxPast
    /\ (e \in st[c].sec \/ CurKey(c) = e)
    /\ ~(st[c].lost /\ st[c].ep = e)
Holds(c, f) == \E a \in st[c].ann : a.f = f

\* client c is handed the announcing message of f (its own echo when c is the sender)
DeliverA(c, f) ==
    /\ Announced(f)
    /\ IF c = file[f].sender
       THEN /\ NoChangeAt(c)                                \* echo: Created -> Processed, the stored epoch is kept
            /\ last' = [op |-> "deliverA", res |-> "Other"]    \* first echo: ApplicationMessage, later ones: refused; no change either way
       ELSE IF CanRead(c, f) /\ ~Holds(c, f)
       THEN /\ st' = [st EXCEPT ![c] = [@ EXCEPT !.ann = @ \cup {[f |-> f, epoch |-> file[f].epoch]},
                                                    !.sec = @ \cup (IF CurKey(c) = NoKeyId THEN {} ELSE {CurKey(c)})]]
            /\ last' = [op |-> "deliverA", res |-> "App"]
       ELSE /\ NoChangeAt(c)
            /\ last' = [op |-> "deliverA", res |-> "Other"]
    /\ UNCHANGED <<base, head, roster, forks, file>>

\* decrypt_from_download at client c with lookup result h and tamper class t.  When the hinted epoch does not
\* give the plaintext the current epoch's key is derived - which also stores that epoch's exporter secret.
BadVersion(t) == t \in {"ver_v1", "ver_unknown"}
HintPathOK(c, f, h, t) == t = "none" /\ h # NoHint /\ h \in st[c].sec /\ h = file[f].epoch
FallbackTried(c, f, h, t) == ~HintPathOK(c, f, h, t) /\ ~(h # NoHint /\ h \in st[c].sec /\ BadVersion(t))
Decrypt(c, f, h, t) ==
    /\ Announced(f)
    /\ h \in Hints(c, f)
    /\ last' = [op |-> "decrypt", c |-> c, f |-> f, hint |-> h, tamper |-> t, ok |-> DecryptsWith(c, f, h, t)]
    /\ st' = IF FallbackTried(c, f, h, t) /\ CurKey(c) # NoKeyId
             THEN [st EXCEPT ![c] = [@ EXCEPT !.sec = @ \cup {CurKey(c)}]] ELSE st
    /\ UNCHANGED <<base, head, roster, forks, file>>

-----------------------------------------------------------------------------
(* C17, history part.                                                       *)

\* a second stored message announcing the same bytes (another name, another epoch): the lookup may pick it
ExcusedHint(c, f) == "HintByHashOnly" \in Dev /\ \E a \in st[c].ann : a.f # f /\ Content[a.f] = Content[f]

\* every member of the file's epoch that holds the announcement decrypts it, whatever it processed since
MembersDecrypt ==
    \A c \in Clients, f \in Files :
        (Announced(f) /\ Member(c, file[f].epoch) /\ Holds(c, f)) =>
            \/ \A h \in Hints(c, f) : DecryptsWith(c, f, h, "none")
            \/ ExcusedHint(c, f)
MembersDecryptPlain ==
    \A c \in Clients, f \in Files :
        (Announced(f) /\ Member(c, file[f].epoch) /\ Holds(c, f)) => \A h \in Hints(c, f) : DecryptsWith(c, f, h, "none")
\* nobody else does, whatever the lookup returns
OthersDoNot ==
    \A c \in Clients, f \in Files :
        (Announced(f) /\ ~Member(c, file[f].epoch)) => \A h \in Hints(c, f) \cup {NoHint} : ~DecryptsWith(c, f, h, "none")
\* any damage makes every attempt fail
TamperFails ==
    \A c \in Clients, f \in Files : Announced(f) =>
        \A h \in Hints(c, f), t \in TamperCls \ {"none"} : ~DecryptsWith(c, f, h, t)
\* distinct (group, epoch, content, mime, name) never share a key (symbolic keys: the tuple is the key)
KeysDistinct ==
    \A f \in Files, g \in Files : (Announced(f) /\ Announced(g) /\ f # g) =>
        FileKey("g", file[f].epoch, Content[f], "m", f, "v2") # FileKey("g", file[g].epoch, Content[g], "m", g, "v2")
\* a client never holds a secret of an epoch it was not a member of
SecretsOnlyOfOwnEpochs ==
    \A c \in Clients : \A k \in st[c].sec : k >= 0 => Member(c, k)

InvC17 == MembersDecrypt /\ OthersDoNot /\ TamperFails /\ KeysDistinct /\ SecretsOnlyOfOwnEpochs

=============================================================================
