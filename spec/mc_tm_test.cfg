SPECIFICATION MCSpec
CONSTANTS
  Dev = {"HintByHashOnly"}
  Clients = {"a","b","c","o"}
  Files = {"f1","f2"}
  MCFiles = {"f1","f2"}
  Content <- MCContent
  Lookback = 2
  MaxPast = 2
  MaxEpoch = 4
  Creator = "a"
  Founders = {"b"}
  SameContent = TRUE
VIEW MCView
INVARIANT InvC17
INVARIANT LastOK
CHECK_DEADLOCK FALSE
