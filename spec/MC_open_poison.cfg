SPECIFICATION MCSpec
CONSTANTS
  Threads = {"t1","t2","t3"}
  Paths = {"p1","p2","p3"}
  Keys = {"k1","k2","k3","k4"}
  Dev = {"PrecreateNotAtomic"}
  MaxCalls = 1
  MaxFaults = 1
  InitKr = {""}
  ArgKeys = {}
  FreshKeys = {"k2","k3","k4"}
  InitSts = {"missing"}
  InitModes = {"secure","loose"}
  CtorSet = {"new"}
  DirSet = {"none"}
INVARIANT TypeOK
INVARIANT KeyCreatedOnce
INVARIANT OpensUseKeyringKey
INVARIANT WrongKeyNeverOpens
INVARIANT ExistingFileNeverGeneratesKey
INVARIANT PermsOwnerOnly
INVARIANT MatrixAgrees
INVARIANT PermsNeverLoose
PROPERTY FileMonotone
CHECK_DEADLOCK TRUE
