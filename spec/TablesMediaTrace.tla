------------------------- MODULE TablesMediaTrace -------------------------
(* Trace validation of the media histories recorded by /verif/htables hist  *)
(* against TablesMedia.tla: every real call must be a step of the spec with *)
(* the projected client state bound, and InvC17 is evaluated by TLC in      *)
(* every observed state.                                                    *)
EXTENDS TablesMedia, Json, IOUtils, TLCExt, SequencesExt

Rec == ndJsonDeserialize(IOEnv.TRACE)
Meta == Rec[1]
Rng(s) == {s[i] : i \in DOMAIN s}
TraceClients == Rng(Meta.clients)
TraceFiles == Rng(Meta.files)
TraceContent == [f \in TraceFiles |-> (CHOOSE x \in Rng(Meta.content) : x.f = f).c]
TraceDev == Rng(Meta.dev)
TraceLookback == Meta.lookback
TraceMaxPast == Meta.maxpast

VARIABLE l
tvars == <<mvars, l>>
R == Rec[l]

Chk(name, c, cond, modelval) ==
    IF cond THEN TRUE
    ELSE PrintT("MISMATCH " \o ToString(<<"line", l, "client", c, "field", name, "model", modelval>>)) /\ FALSE

FileEpochsX(filex) == {filex[f].epoch : f \in {g \in Files : filex[g].epoch # -1}}

\* logged projection p of client c against the model's next state
PostOK(stx, filex, c, p) ==
    LET s == stx[c] IN
    /\ Chk("ingroup", c, p.ingroup = (s.ep # -1), s.ep)
    /\ p.ingroup =>
         /\ Chk("ep", c, p.ep = s.ep, s.ep)
         /\ Chk("lost", c, p.lost = s.lost, s.lost)
         /\ Chk("active", c, p.active = s.active, s.active)
         \* secrets that matter: those of PAST epochs in which a file was announced (the current epoch's secret is
         \* derived on demand; whether it already sits in storage is not observable behaviour)
         /\ Chk("sec", c, Rng(p.sec) \ {p.ep} = (s.sec \cap FileEpochsX(filex)) \ {p.ep},
                (s.sec \cap FileEpochsX(filex)) \ {p.ep})
         /\ Chk("ann", c, {[f |-> x.f, epoch |-> x.epoch] : x \in Rng(p.ann)} = s.ann, s.ann)

Post1 == PostOK(st', file', R.c, R.post)

TReset == R.op = "Reset" /\ base' = -1 /\ head' = -1 /\ roster' = <<>> /\ forks' = {}
          /\ st' = [c \in Clients |-> NoClient] /\ file' = [f \in Files |-> NoFile] /\ last' = [op |-> "init"]

TCreate == /\ R.op = "Create"
           /\ Create(R.a, Rng(R.members), R.base)
           /\ \A i \in DOMAIN R.posts : PostOK(st', file', R.posts[i].c, R.posts[i].post)

TCommit == /\ R.op = "Commit"
           /\ Commit(R.c, R.kind, R.x, R.c2)
           /\ head' = R.k
           /\ \A i \in DOMAIN R.posts : PostOK(st', file', R.posts[i].c, R.posts[i].post)

\* a step that changes the client must be answered Commit / ApplicationMessage; the answer to an event that changes
\* nothing (stale, repeated, unreadable) is not this property's business - the bound post state is
ResOK == Chk("res", R.c, (last'.res # "Other") => (last'.res = R.res), last'.res)

TDeliverK == R.op = "DeliverK" /\ DeliverK(R.c, R.k) /\ ResOK /\ Post1
TDeliverL == R.op = "DeliverL" /\ DeliverL(R.c, R.k) /\ ResOK /\ Post1
TAnnounce == R.op = "Announce" /\ Announce(R.c, R.f) /\ file'[R.f].epoch = R.epoch /\ Post1
TDeliverA == R.op = "DeliverA" /\ DeliverA(R.c, R.f) /\ ResOK /\ Post1

\* a reference whose hash was changed is looked up under that other hash: no announcing message can match
HintFor(c, f, t) == IF t = "hash" THEN {NoHint} ELSE Hints(c, f)
TDecrypt ==
    /\ R.op = "Decrypt"
    /\ Chk("hint", R.c, R.hint \in HintFor(R.c, R.f, R.tamper), HintFor(R.c, R.f, R.tamper))
    /\ Announced(R.f)
    /\ last' = [op |-> "decrypt", c |-> R.c, f |-> R.f, hint |-> R.hint, tamper |-> R.tamper,
                ok |-> DecryptsWith(R.c, R.f, R.hint, R.tamper)]
    /\ st' = IF FallbackTried(R.c, R.f, R.hint, R.tamper) /\ CurKey(R.c) # NoKeyId
             THEN [st EXCEPT ![R.c] = [@ EXCEPT !.sec = @ \cup {CurKey(R.c)}]] ELSE st
    /\ UNCHANGED <<base, head, roster, forks, file>>
    /\ Chk("decrypt", R.c, R.ok = last'.ok /\ R.res \in {"equal", "error"}, last'.ok)
    /\ Post1

TraceInit == Init /\ l = 2

TraceNext ==
    /\ l <= Len(Rec)
    /\ l' = l + 1
    /\ \/ TReset \/ TCreate \/ TCommit \/ TDeliverK \/ TDeliverL \/ TAnnounce \/ TDeliverA \/ TDecrypt

TraceSpec == TraceInit /\ [][TraceNext]_tvars

\* the property on the observation itself: a member of the file's epoch that holds the announcement got the bytes
\* back (unless excused), and nobody outside that epoch, nor anybody with a damaged input, got anything
ObsC17 ==
    last.op = "decrypt" =>
        /\ (last.tamper # "none" \/ ~Member(last.c, file[last.f].epoch)) => ~last.ok
        /\ (last.tamper = "none" /\ Member(last.c, file[last.f].epoch) /\ Holds(last.c, last.f)) =>
              \/ last.ok
              \/ ExcusedHint(last.c, last.f) /\ PrintT(<<"KNOWN-FINDING", "C17", "HintByHashOnly", last.c, last.f>>)

TraceAccepted ==
    \/ TLCGet("stats").diameter - 1 = Len(Rec) - 1
    \/ PrintT(<<"TRACE-REJECTED at line", TLCGet("stats").diameter + 1>>) /\ FALSE
=============================================================================
