SPECIFICATION FullSpec
CONSTANTS
  Clients = {"c1","c2","c3","c4"}
  Groups = {"g1"}
  Sql = {"c2","c4"}
  Retention = 2
  Lookback = 3
  MaxPast = 2
  Dev = {"MergeNoSnapshot","FailedNeverRetried","RotationDropsInFlight","EvictedNeverRecovers","OwnCommitNotValidated","HydratedNoTimestamp","WelcomeOverwritesActiveGroup","RollbackStalePointer","RefusedLeaveStaysQueued","RollbackBeforeValidation","AdminCommitSweepsProposals"}
  MaxEvents = 9
  MaxCommits = 6
  TsSet = {1,2,3}
  Kinds = {"rename","self_update"}
  Admins = {"c1","c2"}
  Members = {"c2","c3"}
  Regime = "causal"
  Immediate = TRUE
INVARIANT MC_C03
INVARIANT MC_C05
INVARIANT MC_C08
INVARIANT MC_C16
INVARIANT MC_C20
INVARIANT MC_Secrets
CHECK_DEADLOCK FALSE
