-------------------------------- MODULE Open --------------------------------
(* Constructors of MdkSqliteStorage (new / new_with_key / new_unencrypted) as the  *)
(* REAL sequence of steps the code takes, run by several threads against one file  *)
(* system and one keyring entry (service,id).   Properties C13 (open matrix, key   *)
(* created once, owner-only permissions) and the first-open part of C19.            *)
(*                                                                                  *)
(* Code read: mdk-sqlite-storage/src/lib.rs:182-354,399-425  keyring.rs:84-173      *)
(*            encryption.rs:133-215  permissions.rs:118-152                         *)
(*                                                                                  *)
(*  new(p):  precreate O_EXCL ─ Created ─> get_or_create: Get ─ hit ─────────────┐  *)
(*              │                             miss: lock; Get ─ hit ─────────────┤  *)
(*              │                                      miss: generate; Set ──────┤  *)
(*              └ AlreadyExisted ─> Get ─ hit ───────────────────────────────────┤  *)
(*                                   miss: is_database_encrypted ─> error        │  *)
(*  new_with_key(p,k): exists && !encrypted ─> error ; precreate ────────────────┤  *)
(*  new_unencrypted(p): precreate ─────────────────────────────────────────(o2)  │  *)
(*      o1: open + PRAGMA key + validation read   o2: migrations + chmod 0600 <──┘  *)
EXTENDS Naturals, FiniteSets, Sequences, TLC

CONSTANTS Threads,     \* thread names (strings)
          Paths,       \* database paths (strings)
          Keys,        \* key names (strings); "" is "no key"
          Dev          \* deviation flags / spec mutants (strings)

NoKey == ""
NoPath == ""

VARIABLES file,   \* path -> [st, key, mode, dmode, data]
          kr,     \* the keyring entry: NoKey or a key
          lock,   \* process-wide key-generation lock: "free" | "poisoned" | a thread
          th,     \* thread -> [pc, ctor, p, key, out, cfg, res, h, exp]
          hist    \* history variables: gen (keys generated), handles (successful opens), faults

vars == <<file, kr, lock, th, hist>>

Ctors == {"new", "with_key", "unenc"}
Results == {"Ok", "WrongKey", "UnencNeedsEnc", "KeyMissing", "Keyring", "Other", "Panic"}

IdleThread == [pc |-> "idle", ctor |-> "", p |-> NoPath, key |-> NoKey, out |-> "", cfg |-> NoKey, res |-> "", h |-> NoPath, exp |-> ""]

MissingFile(dm) == [st |-> "missing", key |-> NoKey, mode |-> "none", dmode |-> dm, data |-> {}]

Exists(f) == f.st # "missing"
\* encryption::is_database_encrypted: first 16 bytes differ from the SQLite magic (short file => FALSE)
LooksEncrypted(f) == f.st = "enc"

-----------------------------------------------------------------------------
(* The decision table of a constructor call that runs alone (C13 "open matrix").   *)
(* TLC checks that the step machine below agrees with it (MatrixAgrees).           *)
SeqResult(ctor, f, k, argkey, lk) ==
    CASE ctor = "new" ->
           (CASE f.st = "missing" -> IF k # NoKey THEN "Ok" ELSE IF lk = "poisoned" THEN "Keyring" ELSE "Ok"
              [] f.st = "empty"   -> IF k # NoKey THEN "Ok" ELSE "UnencNeedsEnc"
              [] f.st = "plain"   -> IF k # NoKey THEN "WrongKey" ELSE "UnencNeedsEnc"
              [] f.st = "enc"     -> IF k = NoKey THEN "KeyMissing" ELSE IF k = f.key THEN "Ok" ELSE "WrongKey")
      [] ctor = "with_key" ->
           (CASE f.st = "missing" -> "Ok"
              [] f.st \in {"empty", "plain"} -> "UnencNeedsEnc"
              [] f.st = "enc" -> IF argkey = f.key THEN "Ok" ELSE "WrongKey")
      [] ctor = "unenc" -> IF f.st = "enc" THEN "Other" ELSE "Ok"

-----------------------------------------------------------------------------
Quiet(t) == \A u \in Threads \ {t} : th[u].pc = "idle"

\* another thread's call makes every running call "not alone"
Disturb(t, tt) == [u \in Threads |-> IF u # t /\ tt[u].pc # "idle" THEN [tt[u] EXCEPT !.exp = ""] ELSE tt[u]]

Begin(t, ctor, p, key) ==
    /\ th[t].pc = "idle" /\ th[t].h = NoPath
    /\ ctor \in Ctors /\ p \in Paths
    /\ (ctor = "with_key") => key \in Keys
    /\ (ctor # "with_key") => key = NoKey
    /\ LET e == IF Quiet(t) THEN SeqResult(ctor, file[p], kr, key, lock) ELSE ""
           me == [IdleThread EXCEPT !.pc = IF ctor = "with_key" THEN "chk" ELSE "pre",
                                    !.ctor = ctor, !.p = p, !.key = key, !.exp = e,
                                    !.cfg = IF ctor = "with_key" THEN key ELSE NoKey]
       IN th' = Disturb(t, [th EXCEPT ![t] = me])
    /\ UNCHANGED <<file, kr, lock, hist>>

Fail(t, r) == th' = [th EXCEPT ![t].pc = "ret", ![t].res = r]

\* new_with_key: `file_path.exists() && !is_database_encrypted(file_path)`
Check(t) ==
    /\ th[t].pc = "chk"
    /\ LET f == file[th[t].p] IN
       IF Exists(f) /\ ~LooksEncrypted(f) THEN Fail(t, "UnencNeedsEnc")
       ELSE th' = [th EXCEPT ![t].pc = "pre"]
    /\ UNCHANGED <<file, kr, lock, hist>>

\* precreate_secure_database_file: parent directory 0700 if it has to be created, O_CREAT|O_EXCL, chmod 0600.
\* As built (Dev flag PrecreateNotAtomic) the file is created with the process umask (OpenOptions::create_new, no mode)
\* and chmod'ed in a second system call (permissions.rs:140-146): between the two it is group/world accessible.
AfterPre(ctor, created) ==
    CASE ctor = "new" -> IF created THEN "g1" ELSE "e1"
      [] ctor = "with_key" -> "o1"
      [] OTHER -> "o2"

Precreate(t) ==
    /\ th[t].pc = "pre"
    /\ LET p == th[t].p
           f == file[p]
           created == ~Exists(f)
           twostep == created /\ "PrecreateNotAtomic" \in Dev
       IN /\ file' = IF created
                     THEN [file EXCEPT ![p] = [f EXCEPT !.st = "empty", !.mode = IF twostep THEN "loose" ELSE "secure",
                                                        !.dmode = IF f.dmode = "none" THEN "secure" ELSE f.dmode]]
                     ELSE file
          /\ th' = [th EXCEPT ![t].pc = IF twostep THEN "prm" ELSE AfterPre(th[t].ctor, created),
                               ![t].out = IF created THEN "created" ELSE "existed"]
          /\ hist' = IF created THEN [hist EXCEPT !.created = @ \cup {p}] ELSE hist
    /\ UNCHANGED <<kr, lock>>

\* set_secure_file_permissions right after the creation
PrecreateChmod(t) ==
    /\ th[t].pc = "prm"
    /\ file' = [file EXCEPT ![th[t].p].mode = "secure"]
    /\ th' = [th EXCEPT ![t].pc = AfterPre(th[t].ctor, TRUE)]
    /\ UNCHANGED <<kr, lock, hist>>

\* keyring::get_db_key — the three places it is called from; g = the value read
GetFast(t) ==     \* get_or_create_db_key fast path (no lock)
    /\ th[t].pc = "g1"
    /\ th' = IF kr # NoKey THEN [th EXCEPT ![t].pc = "o1", ![t].cfg = kr] ELSE [th EXCEPT ![t].pc = "lk"]
    /\ UNCHANGED <<file, kr, lock, hist>>

\* KEY_GENERATION_LOCK.lock(): a poisoned mutex is an error (Error::Keyring) in the code as written
LockPoisoned(t) ==
    /\ th[t].pc = "lk" /\ lock = "poisoned"
    /\ IF "PoisonIgnored" \in Dev THEN th' = [th EXCEPT ![t].pc = "g3"] ELSE Fail(t, "Keyring")
    /\ UNCHANGED <<file, kr, lock, hist>>

LockAcquire(t) ==
    /\ th[t].pc = "lk" /\ lock = "free"
    /\ lock' = t
    /\ th' = [th EXCEPT ![t].pc = IF "NoDoubleCheck" \in Dev THEN "gen" ELSE "g3"]
    /\ UNCHANGED <<file, kr, hist>>

Release(t) == IF lock = t THEN "free" ELSE lock

GetLocked(t) ==   \* double check after acquiring the lock
    /\ th[t].pc = "g3"
    /\ IF kr # NoKey
       THEN th' = [th EXCEPT ![t].pc = "o1", ![t].cfg = kr] /\ lock' = Release(t)
       ELSE th' = [th EXCEPT ![t].pc = "gen"] /\ UNCHANGED lock
    /\ UNCHANGED <<file, kr, hist>>

\* EncryptionConfig::generate + Entry::set_secret (the guard is dropped on return)
GenSet(t, k) ==
    /\ th[t].pc = "gen"
    /\ k \in Keys /\ k # NoKey
    /\ kr' = k
    /\ lock' = Release(t)
    /\ th' = [th EXCEPT ![t].pc = "o1", ![t].cfg = k]
    /\ hist' = [hist EXCEPT !.gen = @ \cup {[k |-> k, t |-> t, out |-> th[t].out]}]
    /\ UNCHANGED file

\* the host's keystore panics inside set_secret: the unwinding thread poisons the mutex it holds
GenPanic(t) ==
    /\ th[t].pc = "gen"
    /\ lock' = IF lock = t THEN "poisoned" ELSE lock
    /\ th' = [th EXCEPT ![t].pc = "ret", ![t].res = "Panic", ![t].exp = ""]
    /\ hist' = [hist EXCEPT !.faults = @ + 1]
    /\ UNCHANGED <<file, kr>>

GetExisting(t) == \* AlreadyExisted branch: get_db_key only, never generate
    /\ th[t].pc = "e1"
    /\ th' = IF "ExistedGenerates" \in Dev THEN [th EXCEPT ![t].pc = "g1"]
             ELSE IF kr # NoKey THEN [th EXCEPT ![t].pc = "o1", ![t].cfg = kr] ELSE [th EXCEPT ![t].pc = "e2"]
    /\ UNCHANGED <<file, kr, lock, hist>>

HeaderCheck(t) ==
    /\ th[t].pc = "e2"
    /\ Fail(t, IF LooksEncrypted(file[th[t].p]) THEN "KeyMissing" ELSE "UnencNeedsEnc")
    /\ UNCHANGED <<file, kr, lock, hist>>

\* another connection is inside its open phase on the same file: SQLite answers SQLITE_BUSY at once
\* (no busy_timeout is set), which surfaces as Error::Rusqlite / Error::Refinery = class "Other"
Contended(t) == \E u \in Threads \ {t} : th[u].p = th[t].p /\ th[u].pc \in {"o1", "o2"}

Busy(t) ==
    /\ th[t].pc \in {"o1", "o2"} /\ Contended(t)
    /\ Fail(t, "Other")
    /\ UNCHANGED <<file, kr, lock, hist>>

\* Connection::open + PRAGMA key + cipher_compatibility + temp_store + `SELECT count(*) FROM sqlite_master`
Validate(t) ==
    /\ th[t].pc = "o1"
    /\ LET f == file[th[t].p] IN
       CASE f.st \in {"missing", "empty"} -> th' = [th EXCEPT ![t].pc = "o2"]
         [] f.st = "plain" -> Fail(t, "WrongKey")
         [] f.st = "enc" -> IF f.key = th[t].cfg \/ "AnyKeyOpens" \in Dev THEN th' = [th EXCEPT ![t].pc = "o2"] ELSE Fail(t, "WrongKey")
    /\ UNCHANGED <<file, kr, lock, hist>>

\* run_migrations (first write creates the header under the connection's key) + apply_secure_permissions
Migrate(t) ==
    /\ th[t].pc = "o2"
    /\ LET p == th[t].p
           f == file[p]
           k == th[t].cfg
           fits == CASE f.st \in {"missing", "empty"} -> TRUE
                     [] f.st = "plain" -> k = NoKey
                     [] f.st = "enc" -> k = f.key \/ "AnyKeyOpens" \in Dev
           chmod == IF "NoChmodOnExisting" \in Dev /\ th[t].out = "existed" THEN f.mode ELSE "secure"
       IN IF fits
          THEN /\ file' = [file EXCEPT ![p] = IF f.st \in {"missing", "empty"}
                                               THEN [f EXCEPT !.st = IF k = NoKey THEN "plain" ELSE "enc", !.key = k, !.mode = chmod, !.data = {}]
                                               ELSE [f EXCEPT !.mode = chmod]]
               /\ th' = [th EXCEPT ![t].pc = "ret", ![t].res = "Ok", ![t].h = p]
               /\ hist' = [hist EXCEPT !.handles = @ \cup {[t |-> t, p |-> p, key |-> k, ctor |-> th[t].ctor]}]
          ELSE /\ Fail(t, "Other")
               /\ UNCHANGED <<file, hist>>
    /\ UNCHANGED <<kr, lock>>

End(t) ==
    /\ th[t].pc = "ret"
    /\ th' = [th EXCEPT ![t].pc = "idle"]
    /\ UNCHANGED <<file, kr, lock, hist>>

\* use of a handle
Write(t, tok) ==
    /\ th[t].pc = "idle" /\ th[t].h # NoPath
    /\ file' = [file EXCEPT ![th[t].h].data = @ \cup {tok}]
    /\ UNCHANGED <<kr, lock, th, hist>>

Close(t) ==
    /\ th[t].pc = "idle" /\ th[t].h # NoPath
    /\ th' = [th EXCEPT ![t].h = NoPath]
    /\ hist' = [hist EXCEPT !.handles = {x \in @ : x.t # t}]
    /\ UNCHANGED <<file, kr, lock>>

Silent(t) == Check(t) \/ Precreate(t) \/ PrecreateChmod(t) \/ LockPoisoned(t) \/ LockAcquire(t) \/ HeaderCheck(t) \/ Validate(t) \/ Migrate(t) \/ Busy(t)

-----------------------------------------------------------------------------
(* Properties *)

\* at most one key is ever generated for the (service, id)
KeyCreatedOnce == Cardinality(hist.gen) <= 1

\* every handle obtained through the keyring-managed constructor was opened with THE keyring key
OpensUseKeyringKey == \A x \in hist.handles : x.ctor = "new" => x.key = kr

\* a wrong / absent key or the unencrypted constructor never yields a handle on an encrypted file
WrongKeyNeverOpens ==
    \A x \in hist.handles :
       LET f == file[x.p] IN
       /\ f.st \in {"plain", "enc"}
       /\ f.st = "enc" => x.key = f.key
       /\ f.st = "plain" => x.key = NoKey

\* the existing-file branch never generates a key
ExistingFileNeverGeneratesKey == \A g \in hist.gen : g.out = "created"

\* database file (and sidecars) 0600, a directory the code created 0700 — at every successful return
PermsOwnerOnly ==
    \A t \in Threads : (th[t].pc = "ret" /\ th[t].res = "Ok") =>
        /\ file[th[t].p].mode = "secure"
        /\ file[th[t].p].dmode \in {"secure", "pre"}

\* a file the code created is owner-only at EVERY instant, not only when the constructor returns
\* finding C13/PrecreateNotAtomic: the instant between O_EXCL creation and the chmod of the same call
ExcusedLoose(p) == "PrecreateNotAtomic" \in Dev /\ \E t \in Threads : th[t].pc = "prm" /\ th[t].p = p
Once(tag) == IF TLCGet(2) = 0 THEN PrintT(<<"KNOWN-FINDING", "C13", tag>>) /\ TLCSet(2, 1) ELSE TRUE
PermsNeverLoosePlain == \A p \in Paths : (p \in hist.created) => file[p].mode # "loose"
PermsNeverLoose == \A p \in Paths : (p \in hist.created /\ file[p].mode = "loose") => (ExcusedLoose(p) /\ Once("PrecreateNotAtomic"))

\* a call that ran alone answered what the open matrix says (in particular: reopening with the right key works)
MatrixAgrees == \A t \in Threads : (th[t].pc = "ret" /\ th[t].exp # "") => th[t].res = th[t].exp

\* nothing a constructor does destroys or re-keys an existing database
FileMonotone ==
    [][\A p \in Paths :
         /\ file[p].data \subseteq file'[p].data \/ file[p].st \in {"missing", "empty"}
         /\ file[p].st = "enc" => (file'[p].st = "enc" /\ file'[p].key = file[p].key)
         /\ file[p].st = "plain" => file'[p].st = "plain"]_vars

TypeOK ==
    /\ kr \in Keys \cup {NoKey}
    /\ lock \in {"free", "poisoned"} \cup Threads
    /\ \A p \in Paths : file[p].st \in {"missing", "empty", "plain", "enc"}
    /\ \A t \in Threads : th[t].res \in Results \cup {""}
=============================================================================
