SPECIFICATION TraceSpec
CONSTANTS
  Clients <- TraceClients
  Groups <- TraceGroups
  Sql <- TraceSql
  Retention <- TraceRetention
  Lookback <- TraceLookback
  MaxPast <- TraceMaxPast
  U <- TraceU
  EverTooDeep <- TraceEverTooDeep
  OOT <- TraceOOT
  MFD <- TraceMFD
  Dev <- TraceDev
POSTCONDITION TraceAccepted
CHECK_DEADLOCK FALSE
PROPERTY ActC02
PROPERTY ActC06
INVARIANT DebugStop
INVARIANT InvC04
PROPERTY ActC04
INVARIANT InvC05
