----------------------------- MODULE MCStorage -----------------------------
(* Bounded instances of Storage.tla for exhaustive checking with TLC.       *)
(* All key / value pools are small finite sets, so the whole reachable      *)
(* state space is explored (any order and nesting of the enabled calls);    *)
(* Acts selects the families of calls of one focused configuration.         *)
EXTENDS Storage

CONSTANTS Acts,       \* families of calls enabled: subset of {"groups","relays","secrets","msgs","proc","welcomes","gd","props","ekp","leaves","glob","snaps","reads"}
          Nids, Epochs, Ptrs,      \* group record: nostr ids, epochs, last-message pointers (message ids, -1 = none)
          Relays, SecEpochs, SecVals,      \* relay urls (every subset is tried)
          MsgIds, CAs, PAs, MsgEpochs, MsgStates, Tags,
          Wrappers, ProcStates, ProcEpochs,
          WelcomeIds, WelcomeStates,
          GdTypes, GdVals, LeafVals, LeafStart, MaxLeaf, PropRefs,
          GlobKeys,
          Ats, Mins,
          Lims, Offs, Subs

GRec(g, nid, ep, p) == [g |-> g, nid |-> nid, name |-> "a", desc |-> "d", epoch |-> ep, st |-> "active", admins |-> "p1",
                        lmid |-> p, lmat |-> IF p = -1 THEN -1 ELSE 10, lmpat |-> IF p = -1 THEN -1 ELSE 20, img |-> 0, su |-> 0]
MRec(g, id, ca, pa, ep, st, t) == [g |-> g, id |-> id, pk |-> "p1", k |-> 9, ca |-> ca, pa |-> pa, c |-> "hi", t |-> t, ev |-> "e", w |-> 1, ep |-> ep, st |-> st]
PRec(w, g, ep, st) == [w |-> w, mid |-> -1, pa |-> 20, ep |-> ep, g |-> g, st |-> st, fr |-> ""]
WRec(id, st) == [id |-> id, ev |-> "e", g |-> "g1", nid |-> "n1", name |-> "a", desc |-> "d", img |-> 0, admins |-> "p1", relays |-> "r1",
                 by |-> "p2", mc |-> 2, st |-> st, w |-> 1]
PWRec(w, st) == [w |-> w, wid |-> -1, pa |-> 20, st |-> st, fr |-> ""]

\* pools given in the cfg hold the non-negative values; -1 ("none" / "not given") and the huge-offset codes are added here
NegOffs == {-1, -2, -3, -4}

\* Nids = {}: every group keeps one nostr id of its own
NidChoices(g) == IF Nids = {} THEN {"n" \o g} ELSE Nids

MCInit == InitWith(LeafStart)

Call ==
    \/ "groups" \in Acts /\ \E g \in Groups : \E nid \in NidChoices(g), ep \in Epochs, p \in Ptrs \cup {-1} : SaveGroup(g, GRec(g, nid, ep, p))
    \/ "relays" \in Acts /\ \E g \in Groups, u \in SUBSET Relays : ReplaceRelays(g, u)
    \/ "secrets" \in Acts /\ \E g \in Groups, e \in SecEpochs, v \in SecVals : SaveSecret(g, e, v)
    \/ "msgs" \in Acts /\
          \/ \E g \in Groups, id \in MsgIds, ca \in CAs, pa \in PAs, ep \in MsgEpochs \cup {-1}, st \in MsgStates, t \in Tags :
                 SaveMessage(g, id, MRec(g, id, ca, pa, ep, st, t))
          \/ \E g \in Groups, e \in MsgEpochs : InvalidateMsgs(g, e)
    \/ "proc" \in Acts /\
          \/ \E w \in Wrappers, g \in Groups \cup {""}, ep \in ProcEpochs \cup {-1}, st \in ProcStates : SaveProcessed(w, PRec(w, g, ep, st))
          \/ \E g \in Groups, e \in ProcEpochs : InvalidateProc(g, e)
          \/ \E w \in Wrappers : MarkRetryable(w)
    \/ "welcomes" \in Acts /\
          \/ \E id \in WelcomeIds, st \in WelcomeStates : SaveWelcome(id, WRec(id, st))
          \/ \E w \in Wrappers, st \in {"processed", "failed"} : SaveProcessedWelcome(w, PWRec(w, st))
          \/ \E lim \in Lims \cup {-1}, off \in Offs \cup NegOffs : ListPending(lim, off)
    \/ "gd" \in Acts /\
          \/ \E g \in Groups, t \in GdTypes, v \in GdVals : MlsWrite(g, t, v)
          \/ \E g \in Groups, t \in GdTypes : MlsDelete(g, t)
    \/ "props" \in Acts /\
          \/ \E g \in Groups, r \in PropRefs, v \in GdVals : PropQueue(g, r, v)
          \/ \E g \in Groups, r \in PropRefs : PropRemove(g, r)
          \/ \E g \in Groups : PropClear(g)
    \/ "ekp" \in Acts /\
          \/ \E g \in Groups, v \in GdVals : EkpWrite(g, 0, 0, v)
          \/ \E g \in Groups : EkpDelete(g, 0, 0)
    \/ "leaves" \in Acts /\
          \/ \E g \in Groups, v \in LeafVals : leafSeq < MaxLeaf /\ LeafAppend(g, v)
          \/ \E g \in Groups : LeafDelete(g)
    \/ "glob" \in Acts /\
          \/ \E k \in GlobKeys, v \in GdVals : GWrite("kp", k, v)
          \/ \E k \in GlobKeys : GDelete("kp", k)
    \/ "snaps" \in Acts /\
          \/ \E g \in Groups, n \in Names, at \in Ats : CreateSnapshot(g, n, at)
          \/ \E g \in Groups, n \in Names : Rollback(g, n) /\ (leafSeq' <= MaxLeaf)
          \/ \E g \in Groups, n \in Names : Release(g, n)
          \/ \E m \in Mins : Prune(m)
    \/ "reads" \in Acts /\
          \/ \E g \in Groups, lim \in Lims \cup {-1}, off \in Offs \cup NegOffs, sort \in {"", "c", "p"} : ListMessages(g, lim, off, sort)
          \/ \E g \in Groups, sub \in Subs, e \in MsgEpochs \cup {-1} : FindEpochByTag(g, sub, e)

MCNext == Call /\ Track
MCSpec == MCInit /\ [][MCNext]_vars

\* ret / dv are observations of the last call, not part of the store's identity
MCView == <<groups, byNostr, relays, secrets, mls, leafSeq, glob, messages, processed, welcomes, pwelcomes, snaps, seen>>

Silent(prop, tag) == TRUE

\* witnesses: each is expected to be VIOLATED in the as-built configuration that can reach the finding
W_SqlRetakeFails == "SqlRetakeFails" \notin seen
W_SqlSnapshotNeedsGroupRow == "SqlSnapshotNeedsGroupRow" \notin seen
W_SqlPruneCountsRows == "SqlPruneCountsRows" \notin seen
W_SqlRestoreReordersLeaves == "SqlRestoreReordersLeaves" \notin seen
W_SqlOffsetWraps == "SqlOffsetWraps" \notin seen
W_SqlLikeIgnoresCase == "SqlLikeIgnoresCase" \notin seen
W_MemRollbackStealsNostrId == "MemRollbackStealsNostrId" \notin seen
W_MemOffsetOverflows == "MemOffsetOverflows" \notin seen

TypeInv == IndexOKOrStolen /\ ChildrenOK /\ KeysOK
PropC09 == [][C09_Step]_vars
PropC09Plain == [][C09_StepPlain]_vars
InvC10Plain == C10_NoDeviationPlain
InvC10 == C10_NoDeviation
InvC18 == C18_Listing
=============================================================================
