SPECIFICATION MCSpec
CONSTANTS
  Groups = {"g1","g2"}
  Names = {"s1"}
  Dev = {"SqlSnapshotNeedsGroupRow"}
  KnownFinding <- Silent
  Cap = 0
  MaxLimit = 10000
  DefLimit = 1000
  Acts = {"groups","msgs"}
  Nids = {}
  Epochs = {1}
  Ptrs = {}
  Relays = {"r1"}
  SecEpochs = {0}
  SecVals = {1}
  MsgIds = {1,2}
  CAs = {10,11}
  PAs = {20,21}
  MsgEpochs = {1,2}
  MsgStates = {"processed"}
  Tags = {""}
  Wrappers = {1}
  ProcStates = {"failed"}
  ProcEpochs = {}
  WelcomeIds = {1}
  WelcomeStates = {"pending"}
  GdTypes = {"tree"}
  GdVals = {"t1"}
  LeafVals = {"a"}
  LeafStart = 0
  MaxLeaf = 0
  PropRefs = {"r"}
  GlobKeys = {"k1"}
  Ats = {1}
  Mins = {2}
  Lims = {1}
  Offs = {0}
  Subs = {"abc"}
VIEW MCView
INVARIANT TypeInv
INVARIANT InvC10
INVARIANT InvC18
PROPERTY PropC09
CHECK_DEADLOCK FALSE
