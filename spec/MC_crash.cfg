SPECIFICATION Spec
CONSTANTS
  Dev = {"NoTransactionAroundCall"}
  MaxLen = 6
INVARIANT EndsSafe
INVARIANT IdemSafe
INVARIANT MergeTornOnly
CHECK_DEADLOCK FALSE
