--------------------------- MODULE MCTablesMedia ---------------------------
(* Bounded instance of TablesMedia.tla for exhaustive checking with TLC.    *)
EXTENDS TablesMedia

CONSTANTS MaxEpoch,    \* the main chain is explored up to this epoch
          Creator,     \* creates the group
          Founders,    \* members from the start (creator excluded)
          MCFiles,     \* files as a set
          SameContent  \* TRUE: all files have identical bytes (same content hash)

MCContent == [f \in MCFiles |-> IF SameContent THEN "same bytes" ELSE f]

MCInit == Init

MCNext ==
    \/ Create(Creator, Founders, 1)
    \/ \E c \in Clients, k \in {"update", "add", "remove"}, x \in Clients \cup {""}, c2 \in Clients \cup {""} :
          head < MaxEpoch /\ Commit(c, k, x, c2)
    \/ \E c \in Clients, k \in 2..MaxEpoch : DeliverK(c, k)
    \/ \E c \in Clients, k \in 2..MaxEpoch : DeliverL(c, k)
    \/ \E s \in Clients, f \in Files : Announce(s, f)
    \/ \E c \in Clients, f \in Files : DeliverA(c, f)
    \/ \E c \in Clients, f \in Files, t \in {"none", "nonce"} : \E h \in Hints(c, f) : Decrypt(c, f, h, t)

MCSpec == MCInit /\ [][MCNext]_mvars

\* observation variable `last` is not part of the state identity
MCView == <<base, head, roster, forks, st, file>>

\* the last decryption attempt answered what the invariants promise (ties the action to the invariant)
LastOK == last.op = "decrypt" =>
            /\ (last.tamper # "none") => ~last.ok
            /\ (~Member(last.c, file[last.f].epoch)) => ~last.ok
=============================================================================
