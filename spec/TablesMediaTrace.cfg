SPECIFICATION TraceSpec
CONSTANTS
  Clients <- TraceClients
  Files <- TraceFiles
  Content <- TraceContent
  Lookback <- TraceLookback
  MaxPast <- TraceMaxPast
  Dev <- TraceDev
INVARIANT InvC17
INVARIANT ObsC17
POSTCONDITION TraceAccepted
CHECK_DEADLOCK FALSE
