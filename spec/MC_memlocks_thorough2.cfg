SPECIFICATION Spec
CONSTANTS
  Threads = {1,2}
  Groups = {"g1"}
  Nids = {"n1"}
  OpKinds = {"save","snap","list"}
  MaxOps = 3
  Dev = {"MemSnapshotTwoSections"}
INVARIANT InvLinearisable
INVARIANT SnapshotsConsistent
PROPERTY Isolation
CHECK_DEADLOCK TRUE
