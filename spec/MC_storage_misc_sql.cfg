SPECIFICATION MCSpec
CONSTANTS
  Groups = {"g1"}
  Names = {"s1"}
  Dev = {"SqlSnapshotNeedsGroupRow"}
  KnownFinding <- Silent
  Cap = 0
  MaxLimit = 10000
  DefLimit = 1000
  Acts = {"groups","proc","welcomes","glob","snaps"}
  Nids = {}
  Epochs = {1}
  Ptrs = {}
  Relays = {"r1"}
  SecEpochs = {0}
  SecVals = {1}
  MsgIds = {1}
  CAs = {10}
  PAs = {20}
  MsgEpochs = {}
  MsgStates = {"processed"}
  Tags = {""}
  Wrappers = {1,2}
  ProcStates = {"failed","processed"}
  ProcEpochs = {1}
  WelcomeIds = {1}
  WelcomeStates = {"pending","accepted"}
  GdTypes = {"tree"}
  GdVals = {"t1"}
  LeafVals = {"a"}
  LeafStart = 0
  MaxLeaf = 0
  PropRefs = {"r"}
  GlobKeys = {"k1"}
  Ats = {1}
  Mins = {2}
  Lims = {1,2}
  Offs = {0,1}
  Subs = {"abc"}
VIEW MCView
INVARIANT TypeInv
INVARIANT InvC10
INVARIANT InvC18
PROPERTY PropC09
CHECK_DEADLOCK FALSE
