------------------------------- MODULE MCOpen -------------------------------
(* Bounded instance of Open.tla: every constructor x file state x keyring cell, *)
(* every interleaving of the threads' steps, optional keystore crash.           *)
EXTENDS Open

CONSTANTS MaxCalls,    \* constructor calls per thread
          MaxFaults,   \* keystore crashes (panic inside set_secret)
          InitKr,      \* initial keyring contents explored
          ArgKeys,     \* keys a caller may pass to new_with_key
          FreshKeys,   \* what key generation can return
          InitSts,     \* initial file states explored
          InitModes,   \* initial modes of an existing file
          CtorSet,     \* constructors explored
          DirSet       \* "none" (parent directory absent) / "pre" (present) for a missing file

VARIABLE calls

mcvars == <<vars, calls>>

InitFiles ==
    (IF "missing" \in InitSts THEN {MissingFile(d) : d \in DirSet} ELSE {}) \cup
    {[st |-> s, key |-> IF s = "enc" THEN "k1" ELSE NoKey, mode |-> m, dmode |-> "pre",
      data |-> IF s \in {"plain", "enc"} THEN {"d0"} ELSE {}] : s \in InitSts \ {"missing"}, m \in InitModes}

MCInit ==
    /\ file \in [Paths -> InitFiles]
    /\ kr \in InitKr
    /\ lock = "free"
    /\ th = [t \in Threads |-> IdleThread]
    /\ hist = [gen |-> {}, handles |-> {}, faults |-> 0, created |-> {}]
    /\ calls = [t \in Threads |-> 0]
    /\ TLCSet(2, 0)

AllDone == \A t \in Threads : th[t].pc = "idle" /\ th[t].h = NoPath /\ calls[t] = MaxCalls

MCNext ==
    \/ \E t \in Threads :
         \/ /\ calls[t] < MaxCalls
            /\ \E c \in CtorSet, p \in Paths, k \in ArgKeys \cup {NoKey} : Begin(t, c, p, k)
            /\ calls' = [calls EXCEPT ![t] = @ + 1]
         \/ /\ \/ Silent(t) \/ GetFast(t) \/ GetLocked(t) \/ GetExisting(t)
               \/ \E k \in FreshKeys \ {g.k : g \in hist.gen} : GenSet(t, k)
               \/ (hist.faults < MaxFaults /\ GenPanic(t))
               \/ End(t) \/ Close(t)
            /\ UNCHANGED calls
    \/ (AllDone /\ UNCHANGED mcvars)

MCSpec == MCInit /\ [][MCNext]_mcvars

\* a thread never waits for ever: whenever some thread is inside a call, some step is possible (TLC: no deadlock)
=============================================================================
