------------------------------- MODULE Storage -------------------------------
(***************************************************************************)
(* The storage contract of mdk: the plain reference model behind           *)
(* GroupStorage, MessageStorage, WelcomeStorage, the snapshot methods of   *)
(* MdkStorageProvider and the OpenMLS StorageProvider rows (C09, C10, the  *)
(* listing half of C18).  One public trait call = one atomic action; every *)
(* action also defines its RETURN VALUE (variable ret).                    *)
(*                                                                         *)
(* Values are small abstract tokens (strings / small integers); "no value" *)
(* is -1 for integers and "" for strings.  Records carry their own key     *)
(* fields (g, id, w) so that a stored record is literally what the read    *)
(* methods return.                                                         *)
(*                                                                         *)
(* Dev = {}       the intended contract                                    *)
(* Dev = as-built the flags listed in known_findings.json for the backend  *)
(*                under test; a step that needed a deviation leaves its    *)
(*                tag in dv (so "which finding was exercised" is a state   *)
(*                predicate).                                              *)
(***************************************************************************)
EXTENDS Naturals, Integers, Sequences, FiniteSets, TLC, SequencesExt, FiniteSetsExt

CONSTANTS
    Groups,     \* pool of MLS group ids (strings)
    Names,      \* pool of snapshot names (strings)
    Dev,        \* deviation flags switched on
    Cap,        \* per-group message cap of the store (0 = unlimited; memory backend knob)
    MaxLimit,   \* MAX_MESSAGE_LIMIT = MAX_PENDING_WELCOMES_LIMIT = 10000
    DefLimit    \* DEFAULT_MESSAGE_LIMIT = DEFAULT_PENDING_WELCOMES_LIMIT = 1000

VARIABLES
    groups,     \* g -> group record            (domain = the groups that exist)
    byNostr,    \* nostr id -> g                (the by-nostr-id index; derived from groups, see IndexOK)
    relays,     \* g -> set of relay urls       (total over Groups)
    secrets,    \* g -> (epoch -> secret)       (total over Groups)
    mls,        \* g -> [gd, lv, pr, ekp]       (group-scoped OpenMLS rows, total over Groups)
    leafSeq,    \* number of own-leaf-node rows ever inserted (row ids; bookkeeping only)
    glob,       \* <<table, key>> -> value      (global OpenMLS rows: key packages, signature keys, encryption keys, psks)
    messages,   \* g -> (id -> message)         (total over Groups)
    processed,  \* wrapper id -> processed-message record
    welcomes,   \* id -> welcome
    pwelcomes,  \* wrapper id -> processed-welcome record
    snaps,      \* <<g, name>> -> [t: copy of the group-scoped tables, at: created_at]
    ret,        \* what the last call was and what it returned
    dv,         \* deviation tags the last step needed (always {} when Dev = {})
    seen        \* deviation tags needed so far in this history (maintained by Track; never read by an action)

live  == <<groups, byNostr, relays, secrets, mls, leafSeq, glob, messages, processed, welcomes, pwelcomes>>
store == <<groups, byNostr, relays, secrets, mls, leafSeq, glob, messages, processed, welcomes, pwelcomes, snaps>>
vars  == <<groups, byNostr, relays, secrets, mls, leafSeq, glob, messages, processed, welcomes, pwelcomes, snaps, ret, dv, seen>>
Track == seen' = seen \cup dv'

-----------------------------------------------------------------------------
(* Small helpers                                                            *)

EmptyFn == [x \in {} |-> 0]
Put(f, k, v) == [x \in DOMAIN f \cup {k} |-> IF x = k THEN v ELSE f[x]]
Del(f, k) == [x \in DOMAIN f \ {k} |-> f[x]]
Img(f) == {f[x] : x \in DOMAIN f}
MinI(a, b) == IF a < b THEN a ELSE b

EmptyMls == [gd |-> EmptyFn, lv |-> <<>>, pr |-> EmptyFn, ekp |-> EmptyFn]
MlsRows(m) == Cardinality(DOMAIN m.gd) + Len(m.lv) + Cardinality(DOMAIN m.pr) + Cardinality(DOMAIN m.ekp)
LvVals(lv) == [i \in DOMAIN lv |-> lv[i].v]

Exists(g) == g \in DOMAIN groups

\* exactly what a snapshot copies and a rollback restores
GroupScoped(g) == [grp |-> IF Exists(g) THEN <<groups[g]>> ELSE <<>>,
                   rl  |-> relays[g],
                   sec |-> secrets[g],
                   mls |-> mls[g]]
\* its observable part (row ids of own leaf nodes are not observable)
ObsOfCopy(t) == [grp |-> t.grp, rl |-> t.rl, sec |-> t.sec,
                 gd |-> t.mls.gd, lv |-> LvVals(t.mls.lv), pr |-> t.mls.pr, ekp |-> t.mls.ekp]
GroupScopedObs(g) == ObsOfCopy(GroupScoped(g))
\* number of table rows a copy consists of
CopyRows(t) == MlsRows(t.mls) + Len(t.grp) + Cardinality(t.rl) + Cardinality(DOMAIN t.sec)

\* the nostr ids under which the index routes to g
RoutesTo(idx, g) == {n \in DOMAIN idx : idx[n] = g}

Ok(op, v)   == [op |-> op, res |-> "ok", v |-> v]
Er(op)      == [op |-> op, res |-> "err", v |-> 0]

-----------------------------------------------------------------------------
(* Read methods (pure functions of the state)                               *)

MsgSet(g) == Img(messages[g])

\* "a is listed before b": created_at DESC, processed_at DESC, id DESC  /  processed_at DESC, created_at DESC, id DESC
Lex3(a1, a2, a3, b1, b2, b3) == \/ a1 > b1
                                \/ a1 = b1 /\ a2 > b2
                                \/ a1 = b1 /\ a2 = b2 /\ a3 > b3
Before(a, b, sort) == IF sort = "p" THEN Lex3(a.pa, a.ca, a.id, b.pa, b.ca, b.id)
                                    ELSE Lex3(a.ca, a.pa, a.id, b.ca, b.pa, b.id)
Sorted(g, sort) == SetToSortSeq(MsgSet(g), LAMBDA a, b : Before(a, b, sort))

Page(s, lim, off) == IF off >= Len(s) THEN <<>> ELSE SubSeq(s, off + 1, MinI(off + lim, Len(s)))

\* argument codes of the pagination parameters: -1 = not given; offsets -2 = usize::MAX, -3 = 2^63, -4 = 2^63 - 1
Huge == 1000000
EffLim(lim) == IF lim = -1 THEN DefLimit ELSE lim
EffOff(off) == IF off = -1 THEN 0 ELSE IF off < -1 THEN Huge ELSE off
EffSort(sort) == IF sort = "" THEN "c" ELSE sort

LastMessage(g, sort) == IF MsgSet(g) = {} THEN <<>> ELSE <<Head(Sorted(g, sort))>>

Invalidated(g) == {m \in MsgSet(g) : m.st = "epoch_invalidated"}
ProcOf(g) == {p \in Img(processed) : p.g = g}
InvalidatedProc(g) == {p \in ProcOf(g) : p.st = "epoch_invalidated"}
FailedForRetry(g) == {p.w : p \in {q \in ProcOf(g) : q.st = "failed" /\ q.ep = -1}}

PendingSorted == SetToSortSeq({w \in Img(welcomes) : w.st = "pending"}, LAMBDA a, b : a.id > b.id)

SnapsOf(g) == {[n |-> k[2], at |-> snaps[k].at] : k \in {kk \in DOMAIN snaps : kk[1] = g}}

\* literal substring relation between a message's tag value and a search string, over the pools the drivers use
Substr == {<<"abc", "abc">>, <<"abc", "b">>, <<"a_c%", "a_c">>, <<"a_c%", "c%">>, <<"a_c%", "%">>}
SubstrNoCase == Substr \cup {<<"abc", "ABC">>, <<"abc", "B">>}
TagMatch(t, sub) == IF "SqlLikeIgnoresCase" \in Dev THEN <<t, sub>> \in SubstrNoCase ELSE <<t, sub>> \in Substr
TagEpochs(g, sub) == {m.ep : m \in {x \in MsgSet(g) : x.ep # -1 /\ TagMatch(x.t, sub)}}
TagEpochsPlain(g, sub) == {m.ep : m \in {x \in MsgSet(g) : x.ep # -1 /\ <<x.t, sub>> \in Substr}}

-----------------------------------------------------------------------------
InitWith(firstLeafRow) ==
    /\ groups = EmptyFn /\ byNostr = EmptyFn
    /\ relays = [g \in Groups |-> {}]
    /\ secrets = [g \in Groups |-> EmptyFn]
    /\ mls = [g \in Groups |-> EmptyMls]
    /\ leafSeq = firstLeafRow
    /\ glob = EmptyFn
    /\ messages = [g \in Groups |-> EmptyFn]
    /\ processed = EmptyFn /\ welcomes = EmptyFn /\ pwelcomes = EmptyFn
    /\ snaps = EmptyFn
    /\ ret = Ok("Init", 0) /\ dv = {} /\ seen = {}

Init == InitWith(0)

\* a fresh, empty store (used between the histories of one trace file)
Reset ==
    /\ groups' = EmptyFn /\ byNostr' = EmptyFn
    /\ relays' = [g \in Groups |-> {}]
    /\ secrets' = [g \in Groups |-> EmptyFn]
    /\ mls' = [g \in Groups |-> EmptyMls]
    /\ leafSeq' = 0
    /\ glob' = EmptyFn
    /\ messages' = [g \in Groups |-> EmptyFn]
    /\ processed' = EmptyFn /\ welcomes' = EmptyFn /\ pwelcomes' = EmptyFn
    /\ snaps' = EmptyFn
    /\ ret' = Ok("Reset", 0) /\ dv' = {} /\ seen' = {}

\* a call that is refused changes nothing
Refuse(op) == ret' = Er(op) /\ dv' = {} /\ UNCHANGED store

-----------------------------------------------------------------------------
(* GroupStorage                                                             *)

\* save_group: upsert by MLS id; a nostr id that routes to another group is refused
SaveGroup(g, r) ==
    IF r.nid \in DOMAIN byNostr /\ byNostr[r.nid] # g
    THEN Refuse("SaveGroup")
    ELSE /\ groups' = Put(groups, g, r)
         /\ byNostr' = LET b1 == IF Exists(g) /\ groups[g].nid # r.nid THEN Del(byNostr, groups[g].nid) ELSE byNostr
                       IN Put(b1, r.nid, g)
         /\ ret' = Ok("SaveGroup", 0) /\ dv' = {}
         /\ UNCHANGED <<relays, secrets, mls, leafSeq, glob, messages, processed, welcomes, pwelcomes, snaps>>

ReplaceRelays(g, urls) ==
    IF ~Exists(g) THEN Refuse("Relays")
    ELSE /\ relays' = [relays EXCEPT ![g] = urls]
         /\ ret' = Ok("Relays", 0) /\ dv' = {}
         /\ UNCHANGED <<groups, byNostr, secrets, mls, leafSeq, glob, messages, processed, welcomes, pwelcomes, snaps>>

SaveSecret(g, e, v) ==
    IF ~Exists(g) THEN Refuse("SaveSecret")
    ELSE /\ secrets' = [secrets EXCEPT ![g] = Put(@, e, v)]
         /\ ret' = Ok("SaveSecret", 0) /\ dv' = {}
         /\ UNCHANGED <<groups, byNostr, relays, mls, leafSeq, glob, messages, processed, welcomes, pwelcomes, snaps>>

\* messages(g, limit, offset, sort): the exact slice of the one sorted list
ListMessages(g, lim, off, sort) ==
    /\ UNCHANGED store
    /\ IF EffLim(lim) \notin 1..MaxLimit \/ ~Exists(g)
       THEN ret' = Er("Messages") /\ dv' = {}
       ELSE LET s == Sorted(g, EffSort(sort))
                want == Page(s, EffLim(lim), EffOff(off))
            IN  IF "MemOffsetOverflows" \in Dev /\ off = -2 /\ s # <<>>
                THEN \* offset + limit is computed unchecked: arithmetic overflow, the call panics
                     ret' = [op |-> "Messages", res |-> "panic", v |-> <<>>] /\ dv' = {"MemOffsetOverflows"}
                ELSE IF "SqlOffsetWraps" \in Dev /\ off \in {-2, -3}
                THEN \* the offset is cast to i64, becomes negative, SQLite reads a negative OFFSET as 0
                     LET got == Page(s, EffLim(lim), 0)
                     IN ret' = Ok("Messages", got) /\ dv' = IF got # want THEN {"SqlOffsetWraps"} ELSE {}
                ELSE ret' = Ok("Messages", want) /\ dv' = {}

-----------------------------------------------------------------------------
(* MessageStorage                                                           *)

MinCa(g) == {id \in DOMAIN messages[g] : \A j \in DOMAIN messages[g] : messages[g][id].ca <= messages[g][j].ca}

\* save_message: upsert by (group, id); unknown group refused.  With a cap, a NEW id arriving at a full group
\* evicts one message with the smallest created_at.
SaveMessage(g, id, m) ==
    IF ~Exists(g) THEN Refuse("SaveMessage")
    ELSE /\ IF Cap > 0 /\ id \notin DOMAIN messages[g] /\ Cardinality(DOMAIN messages[g]) >= Cap
            THEN \E victim \in MinCa(g) : messages' = [messages EXCEPT ![g] = Put(Del(@, victim), id, m)]
            ELSE messages' = [messages EXCEPT ![g] = Put(@, id, m)]
         /\ ret' = Ok("SaveMessage", 0) /\ dv' = {}
         /\ UNCHANGED <<groups, byNostr, relays, secrets, mls, leafSeq, glob, processed, welcomes, pwelcomes, snaps>>

SaveProcessed(w, p) ==
    /\ processed' = Put(processed, w, p)
    /\ ret' = Ok("SaveProcessed", 0) /\ dv' = {}
    /\ UNCHANGED <<groups, byNostr, relays, secrets, mls, leafSeq, glob, messages, welcomes, pwelcomes, snaps>>

\* exactly the messages of g filed under an epoch > e
InvalidateMsgs(g, e) ==
    LET sel == {id \in DOMAIN messages[g] : messages[g][id].ep > e}
    IN /\ messages' = [messages EXCEPT ![g] = [id \in DOMAIN @ |-> IF id \in sel THEN [@[id] EXCEPT !.st = "epoch_invalidated"] ELSE @[id]]]
       /\ ret' = Ok("InvalidateMsgs", sel) /\ dv' = {}
       /\ UNCHANGED <<groups, byNostr, relays, secrets, mls, leafSeq, glob, processed, welcomes, pwelcomes, snaps>>

InvalidateProc(g, e) ==
    LET sel == {w \in DOMAIN processed : processed[w].g = g /\ processed[w].ep > e}
    IN /\ processed' = [w \in DOMAIN processed |-> IF w \in sel THEN [processed[w] EXCEPT !.st = "epoch_invalidated"] ELSE processed[w]]
       /\ ret' = Ok("InvalidateProc", sel) /\ dv' = {}
       /\ UNCHANGED <<groups, byNostr, relays, secrets, mls, leafSeq, glob, messages, welcomes, pwelcomes, snaps>>

\* only a Failed record becomes Retryable
MarkRetryable(w) ==
    IF w \in DOMAIN processed /\ processed[w].st = "failed"
    THEN /\ processed' = [processed EXCEPT ![w].st = "retryable"]
         /\ ret' = Ok("MarkRetryable", 0) /\ dv' = {}
         /\ UNCHANGED <<groups, byNostr, relays, secrets, mls, leafSeq, glob, messages, welcomes, pwelcomes, snaps>>
    ELSE Refuse("MarkRetryable")

\* the epoch of SOME message of g whose tags contain the string (literally), -1 if there is none
FindEpochByTag(g, sub, e) ==
    /\ UNCHANGED store
    /\ IF TagEpochs(g, sub) = {} THEN e = -1 ELSE e \in TagEpochs(g, sub)
    /\ ret' = Ok("FindEpochByTag", e)
    /\ dv' = IF (IF TagEpochsPlain(g, sub) = {} THEN e = -1 ELSE e \in TagEpochsPlain(g, sub)) THEN {} ELSE {"SqlLikeIgnoresCase"}

-----------------------------------------------------------------------------
(* WelcomeStorage                                                           *)

SaveWelcome(id, w) ==
    /\ welcomes' = Put(welcomes, id, w)
    /\ ret' = Ok("SaveWelcome", 0) /\ dv' = {}
    /\ UNCHANGED <<groups, byNostr, relays, secrets, mls, leafSeq, glob, messages, processed, pwelcomes, snaps>>

SaveProcessedWelcome(w, p) ==
    /\ pwelcomes' = Put(pwelcomes, w, p)
    /\ ret' = Ok("SaveProcessedWelcome", 0) /\ dv' = {}
    /\ UNCHANGED <<groups, byNostr, relays, secrets, mls, leafSeq, glob, messages, processed, welcomes, snaps>>

ListPending(lim, off) ==
    /\ UNCHANGED store
    /\ IF EffLim(lim) \notin 1..MaxLimit
       THEN ret' = Er("PendingWelcomes") /\ dv' = {}
       ELSE LET want == Page(PendingSorted, EffLim(lim), EffOff(off))
            IN IF "SqlOffsetWraps" \in Dev /\ off \in {-2, -3}
               THEN LET got == Page(PendingSorted, EffLim(lim), 0)
                    IN ret' = Ok("PendingWelcomes", got) /\ dv' = IF got # want THEN {"SqlOffsetWraps"} ELSE {}
               ELSE ret' = Ok("PendingWelcomes", want) /\ dv' = {}

-----------------------------------------------------------------------------
(* OpenMLS StorageProvider rows (no method checks that the group exists)    *)

MlsUpd(op, g, m) ==
    /\ mls' = [mls EXCEPT ![g] = m]
    /\ ret' = Ok(op, 0) /\ dv' = {}
    /\ UNCHANGED <<groups, byNostr, relays, secrets, glob, messages, processed, welcomes, pwelcomes, snaps>>

MlsWrite(g, t, v)  == MlsUpd("MlsWrite", g, [mls[g] EXCEPT !.gd = Put(@, t, v)]) /\ UNCHANGED leafSeq
MlsDelete(g, t)    == MlsUpd("MlsDelete", g, [mls[g] EXCEPT !.gd = Del(@, t)]) /\ UNCHANGED leafSeq
LeafAppend(g, v)   == MlsUpd("LeafAppend", g, [mls[g] EXCEPT !.lv = Append(@, [id |-> leafSeq + 1, v |-> v])]) /\ leafSeq' = leafSeq + 1
LeafDelete(g)      == MlsUpd("LeafDelete", g, [mls[g] EXCEPT !.lv = <<>>]) /\ UNCHANGED leafSeq
PropQueue(g, r, v) == MlsUpd("PropQueue", g, [mls[g] EXCEPT !.pr = Put(@, r, v)]) /\ UNCHANGED leafSeq
PropRemove(g, r)   == MlsUpd("PropRemove", g, [mls[g] EXCEPT !.pr = Del(@, r)]) /\ UNCHANGED leafSeq
PropClear(g)       == MlsUpd("PropClear", g, [mls[g] EXCEPT !.pr = EmptyFn]) /\ UNCHANGED leafSeq
EkpWrite(g, e, l, v) == MlsUpd("EkpWrite", g, [mls[g] EXCEPT !.ekp = Put(@, <<e, l>>, v)]) /\ UNCHANGED leafSeq
EkpDelete(g, e, l) == MlsUpd("EkpDelete", g, [mls[g] EXCEPT !.ekp = Del(@, <<e, l>>)]) /\ UNCHANGED leafSeq

GWrite(tbl, k, v) ==
    /\ glob' = Put(glob, <<tbl, k>>, v)
    /\ ret' = Ok("GWrite", 0) /\ dv' = {}
    /\ UNCHANGED <<groups, byNostr, relays, secrets, mls, leafSeq, messages, processed, welcomes, pwelcomes, snaps>>
GDelete(tbl, k) ==
    /\ glob' = Del(glob, <<tbl, k>>)
    /\ ret' = Ok("GDelete", 0) /\ dv' = {}
    /\ UNCHANGED <<groups, byNostr, relays, secrets, mls, leafSeq, messages, processed, welcomes, pwelcomes, snaps>>

-----------------------------------------------------------------------------
(* Snapshots                                                                *)

\* create_group_snapshot(g, n): copy the group-scoped tables under (g, n); an existing (g, n) is replaced.
\* `at` is the wall-clock second, chosen by the environment.
CreateSnapshot(g, n, at) ==
    LET copy == [t |-> GroupScoped(g), at |-> at]
        op == [op |-> "Snap", g |-> g, n |-> n]
    IN
    IF "SqlSnapshotNeedsGroupRow" \in Dev /\ ~Exists(g)
    THEN \* snapshot rows reference the groups row: with MLS rows present the insert fails, without any row nothing is recorded
         /\ UNCHANGED store
         /\ ret' = op @@ (IF MlsRows(mls[g]) > 0 THEN Er("Snap") ELSE Ok("Snap", 0))
         /\ dv' = {"SqlSnapshotNeedsGroupRow"}
    ELSE IF "SqlRetakeFails" \in Dev /\ <<g, n>> \in DOMAIN snaps
    THEN \* plain INSERT under an existing name hits the primary key
         /\ UNCHANGED store
         /\ ret' = op @@ Er("Snap")
         /\ dv' = {"SqlRetakeFails"}
    ELSE /\ snaps' = Put(snaps, <<g, n>>, copy)
         /\ ret' = op @@ Ok("Snap", 0) /\ dv' = {}
         /\ UNCHANGED live

\* decimal digits of a row id, and their order as JSON text (how the snapshot rows happen to be keyed)
RECURSIVE Digits(_)
Digits(k) == IF k < 10 THEN <<k>> ELSE Append(Digits(k \div 10), k % 10)
RECURSIVE LexLt(_, _)
LexLt(s, t) == IF s = <<>> THEN t # <<>>
               ELSE IF t = <<>> THEN FALSE
               ELSE IF Head(s) # Head(t) THEN Head(s) < Head(t)
               ELSE LexLt(Tail(s), Tail(t))
ByRowKey(lv) == SortSeq(lv, LAMBDA a, b : LexLt(Digits(a.id), Digits(b.id)))

\* rollback_group_to_snapshot(g, n): put the copy back, consume exactly (g, n)
Rollback(g, n) ==
    LET op == [op |-> "Rollback", g |-> g, n |-> n] IN
    IF <<g, n>> \notin DOMAIN snaps
    THEN ret' = op @@ Er("Rollback") /\ dv' = {} /\ UNCHANGED store
    ELSE
    LET t == snaps[<<g, n>>].t
        b1 == IF Exists(g) THEN Del(byNostr, groups[g].nid) ELSE byNostr
        conflict == t.grp # <<>> /\ t.grp[1].nid \in DOMAIN b1 /\ b1[t.grp[1].nid] # g
        lvsrc == IF "SqlRestoreReordersLeaves" \in Dev THEN ByRowKey(t.mls.lv) ELSE t.mls.lv
        lvnew == [i \in 1..Len(lvsrc) |-> [id |-> leafSeq + i, v |-> lvsrc[i].v]]
    IN
    IF conflict /\ "MemRollbackStealsNostrId" \notin Dev
    THEN \* the snapshot's nostr id now routes to another group: restoring it would break the index; refused
         ret' = op @@ Er("Rollback") /\ dv' = {} /\ UNCHANGED store
    ELSE /\ groups' = IF t.grp = <<>> THEN Del(groups, g) ELSE Put(groups, g, t.grp[1])
         /\ byNostr' = IF t.grp = <<>> THEN b1 ELSE Put(b1, t.grp[1].nid, g)
         /\ relays' = [relays EXCEPT ![g] = t.rl]
         /\ secrets' = [secrets EXCEPT ![g] = t.sec]
         /\ mls' = [mls EXCEPT ![g] = [t.mls EXCEPT !.lv = lvnew]]
         /\ leafSeq' = leafSeq + Len(lvsrc)
         /\ snaps' = Del(snaps, <<g, n>>)
         /\ ret' = op @@ Ok("Rollback", 0)
         /\ dv' = (IF conflict THEN {"MemRollbackStealsNostrId"} ELSE {})
                  \cup (IF LvVals(lvsrc) # LvVals(t.mls.lv) THEN {"SqlRestoreReordersLeaves"} ELSE {})
         /\ UNCHANGED <<glob, messages, processed, welcomes, pwelcomes>>

Release(g, n) ==
    /\ snaps' = Del(snaps, <<g, n>>)
    /\ ret' = [op |-> "Release", g |-> g, n |-> n] @@ Ok("Release", 0) /\ dv' = {}
    /\ UNCHANGED live

\* prune_expired_snapshots(min): drop every snapshot created before min, return how many
Prune(min) ==
    LET gone == {k \in DOMAIN snaps : snaps[k].at < min}
        rows == FoldSet(LAMBDA k, acc : acc + CopyRows(snaps[k].t), 0, gone)
        count == IF "SqlPruneCountsRows" \in Dev THEN rows ELSE Cardinality(gone)
    IN /\ snaps' = [k \in DOMAIN snaps \ gone |-> snaps[k]]
       /\ ret' = [op |-> "Prune", min |-> min] @@ Ok("Prune", count)
       /\ dv' = IF count # Cardinality(gone) THEN {"SqlPruneCountsRows"} ELSE {}
       /\ UNCHANGED live

\* time passes
Tick == UNCHANGED store /\ ret' = Ok("Sleep", 0) /\ dv' = {}

-----------------------------------------------------------------------------
(* Invariants of the model                                                  *)

\* the by-nostr-id index is exactly the (injective) map derived from the group records
IndexOK ==
    /\ \A g1, g2 \in DOMAIN groups : groups[g1].nid = groups[g2].nid => g1 = g2
    /\ DOMAIN byNostr = {groups[g].nid : g \in DOMAIN groups}
    /\ \A n \in DOMAIN byNostr : byNostr[n] \in DOMAIN groups /\ groups[byNostr[n]].nid = n

\* rows that hang off a group record exist only while the record exists
ChildrenOK == \A g \in Groups : ~Exists(g) => relays[g] = {} /\ secrets[g] = EmptyFn

KeysOK ==
    /\ \A g \in DOMAIN groups : groups[g].g = g
    /\ \A g \in Groups : \A id \in DOMAIN messages[g] : messages[g][id].id = id /\ messages[g][id].g = g
    /\ \A w \in DOMAIN processed : processed[w].w = w
    /\ \A id \in DOMAIN welcomes : welcomes[id].id = id
    /\ \A g \in Groups : Cap > 0 => Cardinality(DOMAIN messages[g]) <= Cap

\* C18 (listing half): one total order, exact pages, last message = head
IsListing(s, g, sort) ==
    /\ Len(s) = Cardinality(MsgSet(g))
    /\ {s[i] : i \in DOMAIN s} = MsgSet(g)
    /\ \A i, j \in DOMAIN s : i < j => Before(s[i], s[j], sort)
PagesPartition(s, lim) ==
    LET np == (Len(s) + lim - 1) \div lim
        pages == [k \in 1..np |-> Page(s, lim, (k - 1) * lim)]
    IN /\ FlattenSeq(pages) = s
       /\ Page(s, lim, np * lim) = <<>>
ListingOK ==
    \A g \in Groups : \A sort \in {"c", "p"} :
        LET s == Sorted(g, sort) IN
        /\ IsListing(s, g, sort)
        /\ \A lim \in 1..(Len(s) + 1) : PagesPartition(s, lim)
        /\ LastMessage(g, sort) = (IF s = <<>> THEN <<>> ELSE <<s[1]>>)
        /\ LastMessage(g, sort) = Page(s, 1, 0)

-----------------------------------------------------------------------------
(* C09: frame conditions, phrased over the call recorded in ret'            *)

OthersUntouched(g) ==
    /\ \A h \in Groups \ {g} : GroupScopedObs(h)' = GroupScopedObs(h) /\ RoutesTo(byNostr, h)' = RoutesTo(byNostr, h)
    /\ UNCHANGED <<glob, messages, processed, welcomes, pwelcomes>>

\* a successful rollback restores exactly that group's tables to the copy and consumes exactly that snapshot
RollbackExact(g, n) ==
    /\ <<g, n>> \in DOMAIN snaps
    /\ GroupScopedObs(g)' = ObsOfCopy(snaps[<<g, n>>].t)
    /\ RoutesTo(byNostr, g)' = {r.nid : r \in Img(snaps[<<g, n>>].t.grp)}
    /\ snaps' = Del(snaps, <<g, n>>)
    /\ OthersUntouched(g)
\* the same, except that the own leaf nodes may come back in another order
RollbackUpToLeafOrder(g, n) ==
    /\ <<g, n>> \in DOMAIN snaps
    /\ [GroupScopedObs(g)' EXCEPT !.lv = ToBag(@)] = [ObsOfCopy(snaps[<<g, n>>].t) EXCEPT !.lv = ToBag(@)]
    /\ RoutesTo(byNostr, g)' = {r.nid : r \in Img(snaps[<<g, n>>].t.grp)}
    /\ snaps' = Del(snaps, <<g, n>>)
    /\ OthersUntouched(g)
\* the same, except for the routes of other groups: the nostr id of a restored record was taken away from the group
\* that held it (in this step, or earlier in the history: the index stays inconsistent from then on)
RollbackButStolenRoute(g, n) ==
    /\ <<g, n>> \in DOMAIN snaps
    /\ GroupScopedObs(g)' = ObsOfCopy(snaps[<<g, n>>].t)
    /\ snaps' = Del(snaps, <<g, n>>)
    /\ \A h \in Groups \ {g} : GroupScopedObs(h)' = GroupScopedObs(h)
    /\ UNCHANGED <<glob, messages, processed, welcomes, pwelcomes>>

IsCall(op) == ret'.op = op
KnownFinding(prop, tag) == PrintT(<<"KNOWN-FINDING", prop, tag>>)

\* (bound variables are rigid: the call's arguments are matched against constant pools, never passed primed)
CallIs(op, g, n) == ret'.op = op /\ ret'.g = g /\ ret'.n = n

C09_RollbackStep ==
    \A g \in Groups, n \in Names : (CallIs("Rollback", g, n) /\ ret'.res = "ok") =>
        \/ RollbackExact(g, n)
        \/ /\ "SqlRestoreReordersLeaves" \in dv' /\ RollbackUpToLeafOrder(g, n)
           /\ KnownFinding("C09", "SqlRestoreReordersLeaves")
        \/ /\ "MemRollbackStealsNostrId" \in (seen \cup dv') /\ RollbackButStolenRoute(g, n)
           /\ KnownFinding("C09", "MemRollbackStealsNostrId")
C09_RollbackStepPlain == \A g \in Groups, n \in Names : (CallIs("Rollback", g, n) /\ ret'.res = "ok") => RollbackExact(g, n)

\* taking, releasing, listing or pruning snapshots changes no live state; each touches exactly the snapshots it names
C09_SnapshotOpsStep ==
    /\ (IsCall("Snap") \/ IsCall("Release") \/ IsCall("Prune")) => UNCHANGED live
    /\ \A g \in Groups, n \in Names :
         /\ (CallIs("Release", g, n) /\ ret'.res = "ok") => snaps' = Del(snaps, <<g, n>>)
         /\ CallIs("Snap", g, n) => \A k \in DOMAIN snaps \ {<<g, n>>} : k \in DOMAIN snaps' /\ snaps'[k] = snaps[k]
    /\ (IsCall("Prune") /\ ret'.res = "ok") =>
         /\ \A k \in DOMAIN snaps' : k \in DOMAIN snaps /\ snaps'[k] = snaps[k] /\ snaps[k].at >= ret'.min
         /\ \A k \in DOMAIN snaps : snaps[k].at >= ret'.min => k \in DOMAIN snaps'

\* a snapshot that was taken holds the copy of the current tables, also under a name that existed (replace)
SnapTaken(g, n) == <<g, n>> \in DOMAIN snaps' /\ snaps'[<<g, n>>].t = GroupScoped(g) /\ DOMAIN snaps' = DOMAIN snaps \cup {<<g, n>>}
C09_SnapStep ==
    \A g \in Groups, n \in Names : CallIs("Snap", g, n) =>
        \/ ret'.res = "ok" /\ SnapTaken(g, n)
        \/ "SqlRetakeFails" \in dv' /\ snaps' = snaps /\ KnownFinding("C09", "SqlRetakeFails")
        \/ "SqlSnapshotNeedsGroupRow" \in dv' /\ snaps' = snaps /\ KnownFinding("C09", "SqlSnapshotNeedsGroupRow")
C09_SnapStepPlain == \A g \in Groups, n \in Names : CallIs("Snap", g, n) => ret'.res = "ok" /\ SnapTaken(g, n)

\* no call other than a rollback ever removes or alters a stored message, processed record, welcome or global MLS row
\* (the write methods of those very tables excepted), and nothing but snapshot calls changes a snapshot
C09_NothingDestroyedStep ==
    /\ ~(IsCall("Snap") \/ IsCall("Release") \/ IsCall("Prune") \/ IsCall("Rollback")) => snaps' = snaps
    /\ ~(IsCall("SaveMessage") \/ IsCall("InvalidateMsgs")) => messages' = messages
    /\ IsCall("SaveMessage") /\ Cap = 0 => \A g \in Groups : DOMAIN messages[g] \subseteq DOMAIN messages'[g]
    /\ ~(IsCall("SaveProcessed") \/ IsCall("InvalidateProc") \/ IsCall("MarkRetryable")) => processed' = processed
    /\ DOMAIN processed \subseteq DOMAIN processed'
    /\ ~IsCall("SaveWelcome") => welcomes' = welcomes
    /\ ~IsCall("SaveProcessedWelcome") => pwelcomes' = pwelcomes
    /\ ~(IsCall("GWrite") \/ IsCall("GDelete")) => glob' = glob

\* a refused (or panicking) call has no effect
ErrNoEffectStep == ret'.res # "ok" => UNCHANGED store

C09_Step == C09_RollbackStep /\ C09_SnapshotOpsStep /\ C09_SnapStep /\ C09_NothingDestroyedStep /\ ErrNoEffectStep
C09_StepPlain == C09_RollbackStepPlain /\ C09_SnapshotOpsStep /\ C09_SnapStepPlain /\ C09_NothingDestroyedStep /\ ErrNoEffectStep

\* C10: every step was a step of the intended contract (no deviation was needed), or the deviation is a listed finding
C10_NoDeviation == \A tag \in dv : KnownFinding("C10", tag)
C10_NoDeviationPlain == dv = {}
\* C18 (storage half): the pagination deviations are listed under C18 as well
C18_Listing == ListingOK /\ \A tag \in dv \cap {"MemOffsetOverflows", "SqlOffsetWraps"} : KnownFinding("C18", tag)

\* the index can only be inconsistent after the listed rollback deviation happened in this history
IndexOKOrStolen == IndexOK \/ "MemRollbackStealsNostrId" \in seen
=============================================================================
