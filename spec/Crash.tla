------------------------------- MODULE Crash -------------------------------
(***************************************************************************)
(* C12: process death at storage operation k of an API call on SQLite.      *)
(*                                                                         *)
(* An API call issues a sequence of storage operations; the durable ones   *)
(* (writes) are auto-committed one by one, except the snapshot / restore   *)
(* transactions and the relay savepoint, which become durable at their     *)
(* commit point.  A cut at k leaves exactly the writes that were durable   *)
(* before tick k (`wdone`, a prefix of `wall`, the call's full write list, *)
(* each write labelled by the table family it touches).                    *)
(*                                                                         *)
(* Intended design: the retried call (plus all later events) reaches the   *)
(* state of the uninterrupted run for EVERY prefix.  As built, no          *)
(* transaction spans a call, and what the retry can redo depends on which  *)
(* writes survived:                                                        *)
(*  - "mls" writes consume one-time MLS resources (a ratchet generation,   *)
(*    the epoch's key schedule): once one is durable, re-running the call  *)
(*    fails in MLS and the remaining writes of the call are lost;          *)
(*  - merging a (pending) commit rewrites ~10 MLS components one by one: a *)
(*    cut inside leaves a torn group;                                      *)
(*  - process_welcome records the invitation as processed before it stores *)
(*    the welcome itself.                                                  *)
(* Deviation flag NoTransactionAroundCall switches the as-built rules on.  *)
(***************************************************************************)
EXTENDS Naturals, Sequences, FiniteSets, TLC

CONSTANT Dev

Count(cls, s) == Cardinality({i \in DOMAIN s : s[i] = cls})
LastIdx(cls, s) == IF Count(cls, s) = 0 THEN 0 ELSE CHOOSE i \in DOMAIN s : s[i] = cls /\ \A j \in DOMAIN s : s[j] = cls => j <= i
\* the dedup-record write is the last "msg" write of a process_message call; it is not part of the compared state
WithoutRecord(s, wall) == LET r == LastIdx("msg", wall) IN [i \in {j \in DOMAIN s : j # r} |-> s[i]]
Prefix(wdone, wall) == Len(wdone) <= Len(wall) /\ \A i \in DOMAIN wdone : wdone[i] = wall[i]

Family(opkind) ==
    CASE opkind \in {"Deliver:App", "Deliver:Commit", "Deliver:Proposal", "Deliver:PendingProposal",
                     "Deliver:IgnoredProposal", "Deliver:Unprocessable", "Deliver:Err", "DeliverOwnPending:Commit",
                     "DeliverOwnLast:App"} -> "process"
      [] opkind = "Merge:Ok" -> "merge"
      [] opkind = "WelcomeProcess:Ok" -> "welcome_process"
      [] opkind \in {"StSnapshot:Ok", "StRelays:Ok", "StRollback:Ok"} -> "tx"
      [] OTHER -> "idem"      \* create_message, commit creation, create_group, accept_welcome: every write is an upsert the retry redoes

\* as built: is the interrupted call's effect lost (or the group torn) for this surviving prefix?
LostAsBuilt(fam, wdone, wall) ==
    CASE fam = "process" ->
            /\ Count("mls", wdone) > 0
            /\ \E i \in DOMAIN wall : i > Len(wdone) /\ i # LastIdx("msg", wall)     \* some write other than the dedup record is missing
      [] fam = "merge" -> 0 < Count("mls", wdone) /\ Count("mls", wdone) < Count("mls", wall)
      [] fam = "welcome_process" -> Count("wel", wdone) = 1 /\ Count("wel", wall) = 2
      [] OTHER -> FALSE

MayBeLost(opkind, wdone, wall) ==
    "NoTransactionAroundCall" \in Dev /\ LostAsBuilt(Family(opkind), wdone, wall)

\* verdict for one experiment record r
Recovered(r) == r.reopen_ok /\ r.loads /\ r.final_equal
ExperimentOK(r) ==
    /\ Prefix(r.wdone, r.wall)
    /\ r.reopen_ok                                  \* the database always opens again
    /\ Family(r.opkind) = "tx" => r.atomic          \* snapshot / restore / relay replacement are all-or-nothing
    /\ \/ Recovered(r)
       \/ /\ MayBeLost(r.opkind, r.wdone, r.wall)
          /\ PrintT(<<"KNOWN-FINDING", "C12", "NoTransactionAroundCall", Family(r.opkind)>>)
       \/ /\ r.rollback_later /\ "HydratedNoTimestamp" \in Dev /\ r.loads
          /\ PrintT(<<"KNOWN-FINDING", "C12", "HydratedNoTimestamp", r.opkind>>)
=============================================================================
