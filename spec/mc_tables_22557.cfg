SPECIFICATION MCSpec
CONSTANTS
  Dev = {"EvictedNeverRecovers","FailedNeverRetried","HintByHashOnly","HydratedNoTimestamp","KpFirstTagWins","KpTrailingAccepted","MergeNoSnapshot","OwnCommitNotValidated","RefusedLeaveStaysQueued","RollbackBeforeValidation","RollbackStalePointer","RotationDropsInFlight","WelcomeOverwritesActiveGroup","WelcomeTrailingAccepted"}
  Tier = "quick"
INVARIANT Sane
INVARIANT Typed
POSTCONDITION Dump
CHECK_DEADLOCK FALSE
