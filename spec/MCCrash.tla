------------------------------ MODULE MCCrash ------------------------------
(* Exhaustive check of the crash model itself: for every write list shape   *)
(* (up to a bound) and every cut, the intended design loses nothing, and    *)
(* the as-built rules lose something only strictly inside a call.           *)
EXTENDS Crash
CONSTANTS MaxLen
Classes == {"mls", "msg", "grp", "snap"}
Kinds == {"Deliver:App", "Deliver:Commit", "Merge:Ok", "WelcomeProcess:Ok", "Send:Ok", "StSnapshot:Ok"}
VARIABLES wall, k, kind
Init == wall = <<>> /\ k = 0 /\ kind \in Kinds
Next == \/ /\ Len(wall) < MaxLen /\ \E c \in Classes : wall' = Append(wall, c) /\ k' = 0 /\ UNCHANGED kind
        \/ /\ k < Len(wall) /\ k' = k + 1 /\ UNCHANGED <<wall, kind>>
Spec == Init /\ [][Next]_<<wall, k, kind>>
wdone == SubSeq(wall, 1, k)
\* nothing is ever lost at the two ends of a call, whatever the deviation flags
EndsSafe == (k = 0 \/ k = Len(wall)) => ~LostAsBuilt(Family(kind), wdone, wall)
\* idempotent calls and the transactional storage operations never lose anything
IdemSafe == Family(kind) \in {"idem", "tx"} => ~LostAsBuilt(Family(kind), wdone, wall)
\* losses of a merge are confined to a torn MLS state
MergeTornOnly == (Family(kind) = "merge" /\ LostAsBuilt("merge", wdone, wall)) => Count("mls", wdone) < Count("mls", wall)
=============================================================================
