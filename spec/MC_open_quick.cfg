SPECIFICATION MCSpec
CONSTANTS
  Threads = {"t1","t2"}
  Paths = {"p1","p2"}
  Keys = {"k1","k2","k3","k4"}
  Dev = {"PrecreateNotAtomic"}
  MaxCalls = 1
  MaxFaults = 1
  InitKr = {"","k1","k2"}
  ArgKeys = {"k1","k2"}
  FreshKeys = {"k3","k4"}
  InitSts = {"missing","empty","plain","enc"}
  InitModes = {"secure","loose"}
  CtorSet = {"new","with_key","unenc"}
  DirSet = {"none","pre"}
INVARIANT TypeOK
INVARIANT KeyCreatedOnce
INVARIANT OpensUseKeyringKey
INVARIANT WrongKeyNeverOpens
INVARIANT ExistingFileNeverGeneratesKey
INVARIANT PermsOwnerOnly
INVARIANT MatrixAgrees
INVARIANT PermsNeverLoose
PROPERTY FileMonotone
CHECK_DEADLOCK TRUE
