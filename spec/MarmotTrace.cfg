SPECIFICATION TraceSpec
CONSTANTS
  Clients <- TraceClients
  Groups <- TraceGroups
  Sql <- TraceSql
  Retention <- TraceRetention
  Lookback <- TraceLookback
  MaxPast <- TraceMaxPast
  U <- TraceU
  EverTooDeep <- TraceEverTooDeep
  OOT <- TraceOOT
  MFD <- TraceMFD
  Dev <- TraceDev
POSTCONDITION TraceAccepted
CHECK_DEADLOCK FALSE
INVARIANT InvC01
INVARIANT InvC08
INVARIANT InvC20
INVARIANT InvSecrets
INVARIANT InvC02
PROPERTY ActC02
PROPERTY ActC07
INVARIANT InvC03
PROPERTY ActC03
INVARIANT InvC18
INVARIANT InvC16
PROPERTY ActC16
PROPERTY ActC16Join
PROPERTY ActC06
INVARIANT DebugStop
INVARIANT InvC04
PROPERTY ActC04
INVARIANT InvC05
PROPERTY ActC20
