----------------------------- MODULE OpenTrace -----------------------------
(* Trace validation for Open.tla.  One NDJSON line per OBSERVED event of the real code:    *)
(*   Reset (initial file system + keyring), Begin/End of a constructor call (result class, *)
(*   file modes, data read back), every keyring-store call made by the code (Get/Set/      *)
(*   Delete, stamped inside the store), Write/Close on a handle, Probe (independent look   *)
(*   at the files with raw SQLCipher).  The steps the code takes on the file system and on *)
(*   the process-wide lock are not observable; TLC infers them (Silent steps between two   *)
(*   lines).  A trace is accepted iff SOME interleaving of silent steps explains all lines. *)
EXTENDS Open, Json, IOUtils, TLCExt

Rec == ndJsonDeserialize(IOEnv.TRACE)
Meta == Rec[1]
Rng(s) == {s[i] : i \in DOMAIN s}

TraceThreads == Rng(Meta.threads)
TracePaths == Rng(Meta.paths)
TraceKeys == Rng(Meta.keys)
TraceDev == Rng(Meta.dev)

VARIABLE l
tvars == <<vars, l>>
R == Rec[l]

Conv(x) == [st |-> x.st, key |-> x.key, mode |-> x.mode, dmode |-> x.dmode, data |-> Rng(x.data)]

FileOf(fs, p) == IF \E i \in DOMAIN fs : fs[i].p = p
                 THEN Conv(fs[CHOOSE i \in DOMAIN fs : fs[i].p = p])
                 ELSE MissingFile("none")

TReset ==
    /\ R.op = "Reset"
    /\ file' = [p \in Paths |-> FileOf(R.files, p)]
    /\ kr' = R.kr
    /\ lock' = R.lock
    /\ th' = [t \in Threads |-> IdleThread]
    /\ hist' = [gen |-> {}, handles |-> {}, faults |-> 0, created |-> {}]

TBegin == R.op = "Begin" /\ Begin(R.t, R.ctor, R.p, R.key)

\* the value the store returned is the model's keyring entry
TGet == /\ R.op = "Get" /\ R.k = kr
        /\ (GetFast(R.t) \/ GetLocked(R.t) \/ GetExisting(R.t))

TSet == /\ R.op = "Set"
        /\ IF R.res = "ok" THEN GenSet(R.t, R.k) ELSE GenPanic(R.t)

\* there is no TDelete: the constructors never delete a keyring entry

TEnd ==
    /\ R.op = "End"
    /\ th[R.t].res = R.res
    /\ LET f == file[R.p] IN
       /\ R.mode = f.mode
       \* a loose sidecar (-journal) can only be the transient file of ANOTHER call still in flight on this path
       \* (SQLite gives a journal the mode the database file had when the journal was created)
       /\ (R.smode = "loose") => \E u \in Threads \ {R.t} : th[u].p = R.p /\ th[u].pc \notin {"idle", "ret"}
       /\ R.dmode = f.dmode
       /\ (R.res = "Ok") => (Rng(R.data) = f.data)
    /\ End(R.t)

TWrite == /\ R.op = "Write" /\ R.res = "Ok" /\ Write(R.t, R.tok)
          /\ Rng(R.data) = file'[R.p].data

TClose == R.op = "Close" /\ Close(R.t)

TProbe ==
    /\ R.op = "Probe"
    /\ \A i \in DOMAIN R.files : file[R.files[i].p] = Conv(R.files[i])
    /\ kr = R.kr
    /\ UNCHANGED vars

\* a watcher thread saw the file with this mode at this point of the log (stamped only if no other event intervened)
TSight ==
    /\ R.op = "Sight"
    /\ R.mode = file[R.p].mode
    /\ UNCHANGED vars

\* (c) plaintext-at-rest scan lines: observations attached to a scripted history, no model step
TScan == R.op \in {"Scan", "ScanEnd"} /\ UNCHANGED vars

Seen(n) == TLCSet(1, IF TLCGet(1) < n THEN n ELSE TLCGet(1))

TraceInit ==
    /\ l = 2
    /\ file = [p \in Paths |-> MissingFile("none")]
    /\ kr = NoKey /\ lock = "free"
    /\ th = [t \in Threads |-> IdleThread]
    /\ hist = [gen |-> {}, handles |-> {}, faults |-> 0, created |-> {}]
    /\ TLCSet(1, 2)
    /\ TLCSet(2, 0)

TraceNext ==
    \/ /\ l <= Len(Rec)
       /\ (TReset \/ TBegin \/ TGet \/ TSet \/ TEnd \/ TWrite \/ TClose \/ TProbe \/ TScan \/ TSight)
       /\ l' = l + 1
       /\ Seen(l + 1)
    \/ /\ l <= Len(Rec)
       /\ \E t \in Threads : Silent(t)
       /\ UNCHANGED l

TraceSpec == TraceInit /\ [][TraceNext]_tvars

\* property invariants evaluated on every state of every explanation of the real trace
InvC13 == /\ KeyCreatedOnce /\ OpensUseKeyringKey /\ WrongKeyNeverOpens
          /\ ExistingFileNeverGeneratesKey /\ PermsOwnerOnly /\ MatrixAgrees /\ PermsNeverLoose

\* scan invariant on the line just consumed: nothing sensitive in any file of the database directory, all files
\* owner-only, data readable after reopen; on the unencrypted control database the scanner must find every canary kind
InvScan ==
    (l > 2 /\ l - 1 <= Len(Rec)) =>
      LET x == Rec[l - 1] IN
      /\ (x.op = "Scan") =>
           /\ \A i \in DOMAIN x.files : x.files[i].mode = "secure"
           /\ x.dmode = "secure"
           /\ (x.step = "reopened") => x.res = "DataReadable"
           /\ (x.mode = "keyring") => x.leaks = <<>>
      /\ (x.op = "ScanEnd" /\ x.mode = "keyring") => x.transient_leaks = <<>>
      \* no file ever seen group/world accessible (excused: the database file itself, finding PrecreateNotAtomic)
      /\ (x.op = "ScanEnd") =>
           \/ x.transient_loose = <<>>
           \/ /\ "PrecreateNotAtomic" \in Dev /\ Rng(x.transient_loose) = {"mdk.db (loose)"}
              /\ PrintT(<<"KNOWN-FINDING", "C13", "PrecreateNotAtomic">>)
      /\ (x.op = "ScanEnd" /\ x.mode = "unenc") => Rng(x.kinds) \subseteq Rng(x.found_kinds)

\* acceptance: some explanation consumed every line
TraceAccepted ==
    LET d == TLCGet(1) IN
    IF d = Len(Rec) + 1 THEN TRUE
    ELSE /\ PrintT(<<"TRACE-REJECTED at line", d>>)
         /\ PrintT("REJECTED-RECORD " \o ToString(Rec[d]))
         /\ FALSE
=============================================================================
