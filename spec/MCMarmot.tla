------------------------------ MODULE MCMarmot ------------------------------
(* Bounded instance of Marmot.tla for exhaustive checking with TLC.         *)
EXTENDS Marmot

MaxDepth == 11    \* (overridden per cfg: MaxDepth <- D10 ...)
D9 == 9
D10 == 10
D12 == 12
D13 == 13
CONSTANTS MaxEvents,   \* bound on published events
          MaxCommits,  \* bound on commits among them
          TsSet,       \* wrapper timestamps to choose from
          Kinds,       \* commit kinds explored
          Admins,      \* admins of the one group
          Members,     \* members of the one group (creator excluded)
          Regime,      \* "causal" | "free"
          Immediate    \* TRUE: committers may apply their own commit with merge_pending_commit

VARIABLE held         \* client -> set of chains it has been on (for the epoch-causal regime)

mcvars == <<vars, held>>

G == CHOOSE g \in Groups : TRUE
Creator == CHOOSE c \in Admins : c \notin Members

NEv == Cardinality(DOMAIN ev)
NextName == "e" \o ToString(NEv + 1)
UsedRanks == {ev[e].rank : e \in DOMAIN ev}
Ranks == (1..MaxEvents) \ UsedRanks
NCommits == Cardinality({e \in DOMAIN ev : ev[e].kind = "commit"})

ArgOf(kind) == CASE kind = "rename" -> "nm" \o ToString(NEv)
                 [] kind = "redesc" -> "ds" \o ToString(NEv)
                 [] kind = "rotate" -> "nid" \o ToString(NEv)
                 [] kind = "self_update" -> {}
                 [] kind = "relays" -> {"wss://r" \o ToString(NEv)}
                 [] OTHER -> {}

Track == held' = [c \in Clients |-> held[c] \cup {cl'[c][G].chain}]

MCInit == Init /\ held = [c \in Clients |-> {<<>>}]

Holds(c, e) == Regime = "free" \/ ev[e].parent \in held[c]

\* Observable part of a client state (what C06/C07 call "unchanged")
Obs(cs) == [g |-> [g \in Groups |-> [chain |-> cs.g[g].chain, pend |-> cs.g[g].pend, props |-> cs.g[g].props,
                                     rec |-> cs.g[g].rec, mls |-> cs.g[g].mls]],
            msgs |-> cs.msgs]

NM0 == [name |-> NextName, ts |-> 1, rank |-> 0, now |-> 1]

\* nothing any member could still be handed changes anything observable
Quiescent ==
    /\ \A c \in Clients, e \in DOMAIN ev :
         (e \notin withdrawn /\ Holds(c, e)) => Obs(Process(CS(c), c, e, NM0, TRUE).cs) = Obs(CS(c))

MCNext ==
    \/ /\ ~Created(G)
       /\ CreateGroup(Creator, G, Members, Admins, "n0", 1)
       /\ UNCHANGED held
    \/ /\ Created(G)
       /\ \/ \E c \in Clients, kind \in Kinds, ts \in TsSet, rank \in Ranks :
               /\ NEv < MaxEvents /\ NCommits < MaxCommits
               /\ DoCommit(c, G, kind, ArgOf(kind), [name |-> NextName, ts |-> ts, rank |-> rank, now |-> 1], <<>>)
               /\ Track
          \/ \E c \in Clients :
               /\ Immediate /\ cl[c][G].pend # NoE
               /\ MergePending(c, G)
               /\ Track
          \/ \E c \in Clients, ts \in TsSet :
               /\ NEv < MaxEvents
               /\ SendMessage(c, G, [name |-> NextName, ts |-> ts, rank |-> 0, now |-> 1],
                              [id |-> "m" \o ToString(NEv + 1), claimed |-> c, content |-> "t", ca |-> ts, idr |-> NEv, preset |-> ""])
               /\ Track
          \/ \E c \in Clients, e \in DOMAIN ev :
               /\ Holds(c, e)
               /\ Deliver(c, e, [name |-> NextName, ts |-> 1, rank |-> 0, now |-> 1])
               /\ Track

\* ---- full action set (explored by simulation: -simulate num=N -depth D) ----
Mem(c) == GS(G, cl[c][G].chain).members
NMF(ts, rank) == [name |-> NextName, ts |-> ts, rank |-> rank, now |-> 1]
FullNext ==
    \/ MCNext
    \/ /\ Created(G) /\ NEv < MaxEvents
       /\ \/ \E c \in Clients, ts \in TsSet, rank \in Ranks : Leave(c, G, NMF(ts, rank)) /\ Track
          \/ \E c \in Clients, t \in Clients, ts \in TsSet, rank \in Ranks :
                /\ NCommits < MaxCommits /\ t # c /\ t \in Mem(c)
                /\ DoCommit(c, G, "remove", {t}, NMF(ts, rank), <<>>) /\ Track
          \/ \E c \in Clients, t \in Clients, ts \in TsSet, rank \in Ranks :
                /\ NCommits < MaxCommits /\ t \notin Mem(c)
                /\ DoCommit(c, G, "add", {t}, NMF(ts, rank), [u \in {t} |-> "w" \o ToString(NEv + 1)]) /\ Track
          \/ \E c \in Clients, ts \in TsSet, rank \in Ranks :
                /\ NCommits < MaxCommits
                /\ DoCommit(c, G, "rotate", "nid" \o ToString(NEv + 1), NMF(ts, rank), <<>>) /\ Track
          \/ \E c \in Clients, t \in Clients, ts \in TsSet, rank \in Ranks :
                /\ NCommits < MaxCommits /\ t # c /\ t \in Mem(c)
                /\ DoCommitX(c, G, "remove", {t}, NMF(ts, rank), <<>>, TRUE) /\ Track          \* raw, possibly by a non-admin
          \/ \E c \in Clients, t \in Clients, ts \in TsSet, rank \in Ranks :
                /\ ProposeRemove(c, G, NMF(ts, rank), t) /\ Track
          \/ \E c \in Clients, v \in Clients, ts \in TsSet :
                /\ SendMessage(c, G, NMF(ts, 0), [id |-> "m" \o ToString(NEv + 1), claimed |-> v, content |-> "t", ca |-> ts,
                                                   idr |-> NEv, preset |-> ""]) /\ Track
          \/ \E c \in Clients, cls \in {"badkind", "nogroup", "undecryptable", "mlsjunk"}, ts \in TsSet, rank \in Ranks :
                /\ PublishJunk(c, G, NMF(ts, rank), cls, IF cls = "nogroup" THEN "" ELSE cl[c][G].rec.data.nid, NoE, cl[c][G].chain)
                /\ UNCHANGED held
          \/ \E c \in Clients, b \in DOMAIN ev, ts \in TsSet, rank \in Ranks :
                /\ ev[b].kind # "junk"
                /\ PublishJunk(c, G, NMF(ts, rank), "bitflip", ev[b].tag, b, <<>>)
                /\ UNCHANGED held
    \/ /\ Created(G)
       /\ \/ \E c \in Clients : (cl[c][G].pend # NoE) /\ (\A w \in DOMAIN wl : (wl[w].commit = cl[c][G].pend) => (\A x \in Clients : w \notin DOMAIN welc[x])) /\ ClearPending(c, G) /\ Track
          \* (welcomes of a commit whose publication failed are never sent)
          \/ \E c \in Clients, w \in DOMAIN wl : wl[w].commit \notin withdrawn /\ ProcessWelcome(c, w, w \o "x1") /\ UNCHANGED held
          \/ \E c \in Clients, w \in DOMAIN wl : wl[w].commit \notin withdrawn /\ AcceptWelcome(c, w) /\ Track
          \/ \E c \in Clients, w \in DOMAIN wl : wl[w].commit \notin withdrawn /\ DeclineWelcome(c, w) /\ UNCHANGED held
          \/ \E c \in Clients, w \in DOMAIN wl : DropKeyPackage(c, w) /\ UNCHANGED held
          \/ \E c \in Clients, w \in DOMAIN wl : WelcomeCallFails(c, w) /\ UNCHANGED held
          \/ \E c \in Sql : Restart(c) /\ UNCHANGED held
          \/ \E c \in Sql : RestartT(c, 0, 1) /\ UNCHANGED held        \* start-up with every stored snapshot past its TTL
          \/ Quiescent /\ ~hist.q /\ Quiesce /\ UNCHANGED held

\* ---- invitation / membership instance, small enough to be explored exhaustively ----
\* one admin adds / removes members, every client may process (under two wrapper ids), accept or decline every welcome,
\* delete the key package behind it, merge, hand events around and restart
MemberNext ==
    \/ MCNext
    \/ /\ Created(G) /\ NEv < MaxEvents /\ NCommits < MaxCommits
       /\ \/ \E c \in Clients, t \in Clients, rank \in Ranks :
                /\ t # c /\ t \in Mem(c)
                /\ DoCommit(c, G, "remove", {U(t)}, NMF(1, rank), <<>>) /\ Track
          \/ \E c \in Clients, t \in Clients, rank \in Ranks :
                /\ t \notin Mem(c)
                /\ DoCommit(c, G, "add", {t}, NMF(1, rank), [u \in {t} |-> "w" \o ToString(NEv + 1)]) /\ Track
    \/ /\ Created(G)
       /\ \/ \E c \in Clients, w \in DOMAIN wl, x \in {"x1", "x2"} : ProcessWelcome(c, w, w \o x) /\ UNCHANGED held
          \/ \E c \in Clients, w \in DOMAIN wl : AcceptWelcome(c, w) /\ Track
          \/ \E c \in Clients, w \in DOMAIN wl : DeclineWelcome(c, w) /\ UNCHANGED held
          \/ \E c \in Clients, w \in DOMAIN wl : WelcOf(c, w) # "none" /\ DropKeyPackage(c, w) /\ UNCHANGED held
          \/ \E c \in Clients, w \in DOMAIN wl : WelcomeCallFails(c, w) /\ UNCHANGED held
          \/ \E c \in Sql : Restart(c) /\ UNCHANGED held
MemberSpec == MCInit /\ [][MemberNext]_mcvars

FullSpec == MCInit /\ [][FullNext]_mcvars

MCSpec == MCInit /\ [][MCNext]_mcvars

\* hide pure observation variables from the state identity
MCView == <<ginfo, ev, cl, proc, msgs, snapq, hyd, withdrawn, wl, welc, pwelc, held, hist.mergedNoSnap>>

\* exhaustive up to a depth: every behaviour of at most MaxDepth steps (breadth-first search)
DepthBound == TLCGet("level") <= MaxDepth
MC_C01 == Quiescent => C01_ExcusedQuiet
MC_C01_Plain == Quiescent => C01_Plain
MC_C02 == Quiescent => C02_ExcusedQuiet
MC_C03 == C03_OnlyMembers
MC_C16 == C16_ConsentGated
MC_C05 == C05_ChainAuthorised
MC_C08 == C08_Mirror
MC_C20 == C20_Bounded
MC_Secrets == SecretsMatch
=============================================================================
