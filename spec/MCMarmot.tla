------------------------------ MODULE MCMarmot ------------------------------
(* Bounded instance of Marmot.tla for exhaustive checking with TLC.         *)
EXTENDS Marmot

CONSTANTS MaxEvents,   \* bound on published events
          MaxCommits,  \* bound on commits among them
          TsSet,       \* wrapper timestamps to choose from
          Kinds,       \* commit kinds explored
          Admins,      \* admins of the one group
          Members,     \* members of the one group (creator excluded)
          Regime,      \* "causal" | "free"
          Immediate    \* TRUE: committers may apply their own commit with merge_pending_commit

VARIABLE held         \* client -> set of chains it has been on (for the epoch-causal regime)

mcvars == <<vars, held>>

G == CHOOSE g \in Groups : TRUE
Creator == CHOOSE c \in Admins : c \notin Members

NEv == Cardinality(DOMAIN ev)
NextName == "e" \o ToString(NEv + 1)
UsedRanks == {ev[e].rank : e \in DOMAIN ev}
Ranks == (1..MaxEvents) \ UsedRanks
NCommits == Cardinality({e \in DOMAIN ev : ev[e].kind = "commit"})

ArgOf(kind) == CASE kind = "rename" -> "nm" \o ToString(NEv)
                 [] kind = "redesc" -> "ds" \o ToString(NEv)
                 [] kind = "rotate" -> "nid" \o ToString(NEv)
                 [] kind = "self_update" -> {}
                 [] kind = "relays" -> {"wss://r" \o ToString(NEv)}
                 [] OTHER -> {}

Track == held' = [c \in Clients |-> held[c] \cup {cl'[c][G].chain}]

MCInit == Init /\ held = [c \in Clients |-> {<<>>}]

Holds(c, e) == Regime = "free" \/ ev[e].parent \in held[c]

\* Observable part of a client state (what C06/C07 call "unchanged")
Obs(cs) == [g |-> [g \in Groups |-> [chain |-> cs.g[g].chain, pend |-> cs.g[g].pend, props |-> cs.g[g].props,
                                     rec |-> cs.g[g].rec, mls |-> cs.g[g].mls]],
            msgs |-> cs.msgs]

NM0 == [name |-> NextName, ts |-> 1, rank |-> 0, now |-> 1]

\* nothing any member could still be handed changes anything observable
Quiescent ==
    /\ \A c \in Clients, e \in DOMAIN ev :
         (e \notin withdrawn /\ Holds(c, e)) => Obs(Process(CS(c), c, e, NM0, TRUE).cs) = Obs(CS(c))

MCNext ==
    \/ /\ ~Created(G)
       /\ CreateGroup(Creator, G, Members, Admins, "n0", 1)
       /\ UNCHANGED held
    \/ /\ Created(G)
       /\ \/ \E c \in Clients, kind \in Kinds, ts \in TsSet, rank \in Ranks :
               /\ NEv < MaxEvents /\ NCommits < MaxCommits
               /\ DoCommit(c, G, kind, ArgOf(kind), [name |-> NextName, ts |-> ts, rank |-> rank, now |-> 1], <<>>)
               /\ Track
          \/ \E c \in Clients :
               /\ Immediate /\ cl[c][G].pend # NoE
               /\ MergePending(c, G)
               /\ Track
          \/ \E c \in Clients, ts \in TsSet :
               /\ NEv < MaxEvents
               /\ SendMessage(c, G, [name |-> NextName, ts |-> ts, rank |-> 0, now |-> 1],
                              [id |-> "m" \o ToString(NEv + 1), claimed |-> c, content |-> "t", ca |-> ts, idr |-> NEv, preset |-> ""])
               /\ Track
          \/ \E c \in Clients, e \in DOMAIN ev :
               /\ Holds(c, e)
               /\ Deliver(c, e, [name |-> NextName, ts |-> 1, rank |-> 0, now |-> 1])
               /\ Track

MCSpec == MCInit /\ [][MCNext]_mcvars

\* hide pure observation variables from the state identity
MCView == <<ginfo, ev, cl, proc, msgs, snapq, hyd, withdrawn, wl, welc, pwelc, held, hist.mergedNoSnap>>

MC_C01 == Quiescent => C01_ExcusedQuiet
MC_C01_Plain == Quiescent => C01_Plain
MC_C08 == C08_Mirror
MC_C20 == C20_Bounded
MC_Secrets == SecretsMatch
=============================================================================
