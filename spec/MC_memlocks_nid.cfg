SPECIFICATION Spec
CONSTANTS
  Threads = {1,2}
  Groups = {"g1","g2"}
  Nids = {"n1","n2"}
  OpKinds = {"save","find"}
  MaxOps = 2
  Dev = {"MemSnapshotTwoSections"}
INVARIANT InvLinearisablePlain
INVARIANT SnapshotsConsistent
PROPERTY Isolation
CHECK_DEADLOCK TRUE
