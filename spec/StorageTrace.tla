---------------------------- MODULE StorageTrace ----------------------------
(* Trace validation: every line recorded from a REAL backend (memory or     *)
(* SQLite, same format) must be a step of Storage.tla with the logged       *)
(* arguments, must return what the model returns, and must leave the store  *)
(* in a state whose every read method (over the key pools) answers what the *)
(* model's state answers.                                                   *)
EXTENDS Storage, Json, IOUtils, TLCExt

Rec == ndJsonDeserialize(IOEnv.TRACE)
ViewStr == IF "VIEW" \in DOMAIN IOEnv THEN IOEnv.VIEW ELSE "all"

Meta == Rec[1]
TraceGroups == Range(Meta.pools.groups)
TraceNames == Range(Meta.pools.names)
TraceDev == Range(Meta.dev)
TraceCap == Meta.cap
TraceMaxLimit == Meta.maxlimit
TraceDefLimit == Meta.deflimit
NEpochs == Len(Meta.pools.epochs)

VARIABLE l
tvars == <<vars, l>>

R == Rec[l]

\* which parts of the dump are bound: "all", or the list Meta.views[VIEW]
V(f) == ViewStr = "all" \/ f \in Range(Meta.views[ViewStr])

\* a failed binding prints what the model expected (only ever evaluated to FALSE on a rejected step)
ChkL(ln, name, key, cond, modelval) ==
    IF cond THEN TRUE ELSE PrintT("MISMATCH " \o ToString(<<"line", ln, "field", name, key, "model", modelval>>)) /\ FALSE
Chk(name, key, cond, modelval) == ChkL(l, name, key, cond, modelval)

NoDup(s) == Len(s) = Cardinality(Range(s))
Ids(s) == [i \in 1..Len(s) |-> s[i].id]
Pairs2(f) == {<<k, f[k]>> : k \in DOMAIN f}

-----------------------------------------------------------------------------
(* The dump p (= R.post) against the model state.  Written over the         *)
(* unprimed variables and applied primed to a rigid copy of the dump.       *)

GroupOK(e, ln) ==
    LET g == e.g IN
    /\ V("relays") => ChkL(ln, "rl", g, IF Exists(g) THEN e.rlok = 1 /\ Range(e.rl) = relays[g] /\ NoDup(e.rl) ELSE e.rlok = 0, relays[g])
    /\ V("groups") => ChkL(ln, "ad", g, e.ad = (IF Exists(g) THEN groups[g].admins ELSE "!"), Exists(g))
    /\ V("secrets") => ChkL(ln, "sec", g, IF Exists(g) THEN e.secerr = 0 /\ {<<x.e, x.v>> : x \in Range(e.sec)} = Pairs2(secrets[g])
                                        ELSE e.secerr = NEpochs /\ e.sec = <<>>, secrets[g])
    /\ V("msgs") => ChkL(ln, "mc", g, IF Exists(g) THEN e.mok = 1 /\ e.mc = Sorted(g, "c") ELSE e.mok = 0, Sorted(g, "c"))
    /\ V("msgs") => ChkL(ln, "mp", g, IF Exists(g) THEN e.mp = Ids(Sorted(g, "p")) ELSE e.mp = <<>>, Ids(Sorted(g, "p")))
    /\ V("msgs") => ChkL(ln, "lc", g, IF ~Exists(g) THEN e.lc.id = -2 ELSE IF MsgSet(g) = {} THEN e.lc.id = -1 ELSE <<e.lc>> = LastMessage(g, "c"), LastMessage(g, "c"))
    /\ V("msgs") => ChkL(ln, "lp", g, IF ~Exists(g) THEN e.lp.id = -2 ELSE IF MsgSet(g) = {} THEN e.lp.id = -1 ELSE <<e.lp>> = LastMessage(g, "p"), LastMessage(g, "p"))
    /\ V("msgs") => ChkL(ln, "inv", g, Range(e.inv) = Invalidated(g) /\ NoDup(e.inv), Invalidated(g))
    /\ V("proc") => ChkL(ln, "invp", g, Range(e.invp) = InvalidatedProc(g) /\ NoDup(e.invp), InvalidatedProc(g))
    /\ V("proc") => ChkL(ln, "fail", g, Range(e.fail) = FailedForRetry(g) /\ NoDup(e.fail), FailedForRetry(g))
    /\ V("snaps") => ChkL(ln, "snaps", g, /\ Range(e.snaps) = SnapsOf(g) /\ NoDup(e.snaps)
                                      /\ \A i, j \in 1..Len(e.snaps) : i < j => e.snaps[i].at <= e.snaps[j].at, SnapsOf(g))
    /\ V("mls") => ChkL(ln, "gd", g, {<<x.t, x.v>> : x \in Range(e.gd)} = Pairs2(mls[g].gd), mls[g].gd)
    /\ V("mls") => ChkL(ln, "lv", g, e.lv = LvVals(mls[g].lv), LvVals(mls[g].lv))
    /\ V("mls") => ChkL(ln, "pr", g, {<<x.r, x.v>> : x \in Range(e.pr)} = Pairs2(mls[g].pr) /\ NoDup(e.pr), mls[g].pr)
    /\ V("mls") => ChkL(ln, "prr", g, Range(e.prr) = DOMAIN mls[g].pr /\ NoDup(e.prr), DOMAIN mls[g].pr)
    /\ V("mls") => ChkL(ln, "ekp", g, {<<<<x.e, x.l>>, x.v>> : x \in Range(e.ekp)} = Pairs2(mls[g].ekp), mls[g].ekp)

ByNostrView == {[n |-> n] @@ groups[byNostr[n]] : n \in DOMAIN byNostr}
AllMsgs == UNION {MsgSet(g) : g \in Groups}

DumpOK(p, ln) ==
    /\ V("groups") => ChkL(ln, "groups", "", Range(p.groups) = Img(groups) /\ NoDup(p.groups), Img(groups))
    /\ V("groups") => ChkL(ln, "gfind", "", Range(p.gfind) = Img(groups), Img(groups))
    /\ V("groups") => ChkL(ln, "bn", "", Range(p.bn) = ByNostrView, ByNostrView)
    /\ {e.g : e \in Range(p.pg)} = Groups
    /\ \A e \in Range(p.pg) : GroupOK(e, ln)
    /\ V("msgs") => ChkL(ln, "fm", "", Range(p.fm) = AllMsgs, AllMsgs)
    /\ V("proc") => ChkL(ln, "pm", "", Range(p.pm) = Img(processed), Img(processed))
    /\ V("welcomes") => ChkL(ln, "wl", "", Range(p.wl) = Img(welcomes), Img(welcomes))
    /\ V("welcomes") => ChkL(ln, "pw", "", Range(p.pw) = Img(pwelcomes), Img(pwelcomes))
    /\ V("welcomes") => ChkL(ln, "pend", "", p.pend = Ids(Page(PendingSorted, DefLimit, 0)), Ids(PendingSorted))
    /\ V("glob") => ChkL(ln, "gl", "", {<<<<x.tbl, x.k>>, x.v>> : x \in Range(p.gl)} = Pairs2(glob), glob)

\* the model's return value against the logged one
ResOK == Chk("res", R.op, ret'.res = R.res, ret')
RetSeq == Chk("ret", R.op, ret'.v = R.ret, ret')
RetSet == Chk("ret", R.op, ret'.v = Range(R.ret) /\ NoDup(R.ret), ret')
RetInt == Chk("ret", R.op, ret'.v = R.ret, ret')

-----------------------------------------------------------------------------
Step ==
    CASE R.op = "SaveGroup" -> SaveGroup(R.g, [g |-> R.g] @@ R.rec)
      [] R.op = "Relays" -> ReplaceRelays(R.g, Range(R.urls))
      [] R.op = "SaveSecret" -> SaveSecret(R.g, R.e, R.v)
      [] R.op = "Messages" -> ListMessages(R.g, R.lim, R.off, R.sort) /\ (ret'.res = "ok" => RetSeq)
      [] R.op = "SaveMessage" -> SaveMessage(R.g, R.id, [g |-> R.g, id |-> R.id] @@ R.rec)
      [] R.op = "SaveProcessed" -> SaveProcessed(R.w, [w |-> R.w] @@ R.rec)
      [] R.op = "InvalidateMsgs" -> InvalidateMsgs(R.g, R.e) /\ RetSet
      [] R.op = "InvalidateProc" -> InvalidateProc(R.g, R.e) /\ RetSet
      [] R.op = "MarkRetryable" -> MarkRetryable(R.w)
      [] R.op = "FindEpochByTag" -> FindEpochByTag(R.g, R.sub, R.ret)
      [] R.op = "SaveWelcome" -> SaveWelcome(R.id, [id |-> R.id] @@ R.rec)
      [] R.op = "SaveProcessedWelcome" -> SaveProcessedWelcome(R.w, [w |-> R.w] @@ R.rec)
      [] R.op = "PendingWelcomes" -> ListPending(R.lim, R.off) /\ (ret'.res = "ok" => RetSeq)
      [] R.op = "Snap" -> CreateSnapshot(R.g, R.n, R.at)
      [] R.op = "Rollback" -> Rollback(R.g, R.n)
      [] R.op = "Release" -> Release(R.g, R.n)
      [] R.op = "Prune" -> Prune(R.min) /\ RetInt
      [] R.op = "Sleep" -> Tick
      [] R.op = "MlsWrite" -> MlsWrite(R.g, R.t, R.v)
      [] R.op = "MlsDelete" -> MlsDelete(R.g, R.t)
      [] R.op = "LeafAppend" -> LeafAppend(R.g, R.v)
      [] R.op = "LeafDelete" -> LeafDelete(R.g)
      [] R.op = "PropQueue" -> PropQueue(R.g, R.r, R.v)
      [] R.op = "PropRemove" -> PropRemove(R.g, R.r)
      [] R.op = "PropClear" -> PropClear(R.g)
      [] R.op = "EkpWrite" -> EkpWrite(R.g, R.e, R.l, R.v)
      [] R.op = "EkpDelete" -> EkpDelete(R.g, R.e, R.l)
      [] R.op = "GWrite" -> GWrite(R.tbl, R.k, R.v)
      [] R.op = "GDelete" -> GDelete(R.tbl, R.k)
      [] OTHER -> FALSE

TraceInit == Init /\ l = 2

TraceNext ==
    /\ l <= Len(Rec)
    /\ l' = l + 1
    /\ IF R.op = "Reset" THEN Reset
       ELSE /\ Step
            /\ Track
            /\ ResOK
            \* (bound variables are rigid: priming DumpOK(R.post) directly would read the NEXT line)
            /\ \E p \in {R.post}, ln \in {l} : DumpOK(p, ln)'

TraceSpec == TraceInit /\ [][TraceNext]_tvars

\* property invariants / action properties, evaluated by TLC on every observed state / step of every real trace
InvModel == IndexOKOrStolen /\ ChildrenOK /\ KeysOK
InvC10 == C10_NoDeviation
InvC18 == C18_Listing
ActC09 == [][IsCall("Reset") \/ C09_Step]_tvars
ActErrNoEffect == [][IsCall("Reset") \/ ErrNoEffectStep]_tvars

\* on real traces a needed deviation is printed with the line that needed it
TraceKnown(prop, tag) == PrintT(<<"KNOWN-FINDING", prop, tag, "line", l>>)

\* bookkeeping for the runner (always TRUE): which lines needed which deviation, whatever property is being checked
InvDeviationLog == \A tag \in dv : PrintT(<<"DEVIATION", tag, "line", l>>)

\* acceptance: the whole trace was consumed
TraceAccepted ==
    LET d == TLCGet("stats").diameter IN
    IF d - 1 = Len(Rec) - 1 THEN TRUE
    ELSE /\ PrintT(<<"TRACE-REJECTED at line", d + 1, Rec[d + 1].op>>)
         /\ FALSE
=============================================================================
