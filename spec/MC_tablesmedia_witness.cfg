\* expected to FAIL: shows that with the as-built lookup (HintByHashOnly) a member that holds the announcement
\* of a file cannot decrypt it once the same bytes were announced again in another epoch
SPECIFICATION MCSpec
CONSTANTS
  Dev = {"HintByHashOnly"}
  Clients = {"a","b","c","o"}
  Files = {"f1","f2"}
  MCFiles = {"f1","f2"}
  Content <- MCContent
  Lookback = 1
  MaxPast = 1
  MaxEpoch = 3
  Creator = "a"
  Founders = {"b"}
  SameContent = TRUE
VIEW MCView
INVARIANT MembersDecryptPlain
CHECK_DEADLOCK FALSE
