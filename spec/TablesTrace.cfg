SPECIFICATION TraceSpec
CONSTANTS
  Dev <- TraceDev
INVARIANT InvC15
INVARIANT InvC17
POSTCONDITION TraceAccepted
CHECK_DEADLOCK FALSE
