------------------------------- MODULE Tables -------------------------------
(***************************************************************************)
(* Decision tables of mdk's wire formats (C15) and media encryption (C17), *)
(* transcribed from the code as pure operators over *shapes*.              *)
(*                                                                         *)
(* A shape is a record with one *class* per field of an encoding (version  *)
(* class, presence / length class of each optional field, string class,    *)
(* count class, one class per tag of an event, ...).  For every table      *)
(*   - XGood(f) is the set of classes of field f that are acceptable,      *)
(*   - XBad(f)  the classes of f the parser has to refuse,                 *)
(*   - XAccepted(s) says what the parser answers for shape s,              *)
(*   - XCases is the finite set of shapes TLC enumerates: the product of   *)
(*     the good classes (the "for all values" part) plus every single-field*)
(*     mutation of a family of valid bases (the "for all mutations" part). *)
(* Every enumerated case is executed once or more against the real code by *)
(* /verif/htables (seeded random concrete values inside the shape) and the *)
(* observation is validated by TablesTrace.tla against these operators.    *)
(*                                                                         *)
(* Deviation flags (constant Dev): where the code as built answers         *)
(* differently from what C15/C17 demand, both answers are written.         *)
(*   Dev = {}    the intended tables (used for the spec-level sanity       *)
(*               invariants and as the property side of InvC15/InvC17)     *)
(*   Dev = known what the code does (the conformance side)                 *)
(***************************************************************************)
EXTENDS Integers, Sequences, FiniteSets, TLC

CONSTANT Dev

B == BOOLEAN

\* all shapes obtained from base b by putting field f into class c
Mut(b, f, c) == [b EXCEPT ![f] = c]

-----------------------------------------------------------------------------
(* 1. NostrGroupDataExtension  (mdk-core/src/extension/types.rs)            *)
(*    decode  = from_group_context -> deserialize_bytes -> from_raw         *)
(*    encode  = update_group_data -> as_raw -> tls_serialize                *)

ExtFields == <<"ver", "nid", "name", "desc", "adm", "rel", "hash", "key", "nonce", "upload", "tail">>

\* version class: the u16 itself
ExtVerGood == {1, 2, 3, 65535}       \* 1, 2 known; > 2 accepted for forward compatibility (types.rs:175)
ExtVerBad  == {0}                    \* types.rs:171
\* fixed-length optional fields: "absent" = empty vector = None, "exact" = the fixed length
OptGood == {"absent", "exact"}
OptBad  == {"short", "long"}         \* any other length: Invalid*Length (types.rs:199-237)
\* strings: every UTF-8 string is a value; b64/big straddle the 1->2 and 2->4 byte length prefixes
StrGood == {"empty", "ascii", "multi", "b64", "big"}
StrBad  == {"badutf8"}               \* String::from_utf8 (types.rs:242)
\* admins: vector of 32-byte keys; any 32 bytes are taken (no curve check), duplicates collapse in the set
AdmGood == {"0", "1", "2", "dup"}
AdmBad  == {"ragged"}                \* byte length not a multiple of 32: TLS error
RelGood == {"0", "1", "2", "dup"}
RelBad  == {"badutf8", "noturl"}     \* types.rs:194-195
NidGood == {"exact"}
NidBad  == {"short", "long"}         \* fixed [u8;32] without prefix: struct no longer parses
TailGood == {"none"}
TailBad  == {"trailing", "truncated", "emptyinput"}   \* types.rs:160; TLS end of stream

ExtGood(f) == CASE f = "ver" -> ExtVerGood [] f \in {"hash", "key", "nonce", "upload"} -> OptGood
                [] f \in {"name", "desc"} -> StrGood [] f = "adm" -> AdmGood [] f = "rel" -> RelGood
                [] f = "nid" -> NidGood [] f = "tail" -> TailGood
ExtBad(f) == CASE f = "ver" -> ExtVerBad [] f \in {"hash", "key", "nonce", "upload"} -> OptBad
                [] f \in {"name", "desc"} -> StrBad [] f = "adm" -> AdmBad [] f = "rel" -> RelBad
                [] f = "nid" -> NidBad [] f = "tail" -> TailBad

ExtFieldSet == {ExtFields[i] : i \in DOMAIN ExtFields}

\* The parser, step by step in the order of the code; the label names the refusing check.
ExtDecodeStep(s) ==
    IF s.tail \in {"truncated", "emptyinput"} \/ s.nid # "exact" \/ s.adm = "ragged" THEN "tls"
    ELSE IF s.tail = "trailing" THEN "trailing"
    ELSE IF s.ver = 0 THEN "version"
    ELSE IF s.rel = "badutf8" THEN "relay_utf8"
    ELSE IF s.rel = "noturl" THEN "relay_url"
    ELSE IF s.hash \in OptBad THEN "hash_len"
    ELSE IF s.key \in OptBad THEN "key_len"
    ELSE IF s.nonce \in OptBad THEN "nonce_len"
    ELSE IF s.upload \in OptBad THEN "upload_len"
    ELSE IF s.name = "badutf8" \/ s.desc = "badutf8" THEN "utf8"
    ELSE "ok"

\* ExtensionDecodes: accept/refuse and, when accepted, what the decoded value must be: the version as sent,
\* every optional field present iff it was sent non-empty (for EVERY version), strings / sets / id equal.
ExtensionDecodes(s) ==
    [accept |-> ExtDecodeStep(s) = "ok",
     ver    |-> s.ver,
     hash   |-> s.hash = "exact", key |-> s.key = "exact", nonce |-> s.nonce = "exact", upload |-> s.upload = "exact",
     equal  |-> TRUE]

ExtWellFormed(s) == \A f \in ExtFieldSet : s[f] \in ExtGood(f)

\* product of the good classes ("for all extension values"); name/desc classes are paired to keep it small
StrPairs == {<<"empty", "ascii">>, <<"ascii", "empty">>, <<"multi", "multi">>, <<"b64", "big">>, <<"big", "b64">>}
ExtGoodShapes ==
    {[ver |-> v, nid |-> "exact", name |-> p[1], desc |-> p[2], adm |-> a, rel |-> r,
      hash |-> h, key |-> k, nonce |-> n, upload |-> u, tail |-> "none"] :
        v \in ExtVerGood, p \in StrPairs, a \in {"0", "1", "2"}, r \in {"0", "1", "2"},
        h \in OptGood, k \in OptGood, n \in OptGood, u \in OptGood}
    \cup
    {[ver |-> v, nid |-> "exact", name |-> "ascii", desc |-> "multi", adm |-> a, rel |-> r,
      hash |-> h, key |-> "exact", nonce |-> "exact", upload |-> u, tail |-> "none"] :
        v \in {1, 2}, a \in AdmGood, r \in RelGood, h \in OptGood, u \in OptGood}
\* bases for the single-field mutations: both known versions x all 16 presence patterns
ExtBases ==
    {[ver |-> v, nid |-> "exact", name |-> "ascii", desc |-> "ascii", adm |-> "1", rel |-> "1",
      hash |-> h, key |-> k, nonce |-> n, upload |-> u, tail |-> "none"] :
        v \in {1, 2}, h \in OptGood, k \in OptGood, n \in OptGood, u \in OptGood}
ExtMutShapes ==
    UNION {{Mut(b, f, c) : c \in ExtBad(f)} : b \in ExtBases, f \in ExtFieldSet}
\* ("short" = 1..N-1 bytes, "long" = N+1.. bytes on the wire, whatever the base had in that field)
ExtCases == ExtGoodShapes \cup ExtMutShapes

(* encode side: a real group whose context carries a value of the given shape is updated through   *)
(* MDK::update_group_data (decode -> modify -> as_raw -> commit -> merge) and read back.           *)
UpdCls == {"none", "rename", "redesc", "relays", "rotate", "set_image", "clear_image", "set_upload", "clear_upload"}
ExtEncCases ==
    {[ver |-> v, hash |-> h, key |-> k, nonce |-> n, upload |-> u, upd |-> x] :
        v \in ExtVerGood, h \in B, k \in B, n \in B, u \in B, x \in UpdCls}
\* what the group context must contain afterwards (groups.rs:958-1013)
ExtAfterUpdate(s) ==
    [ok     |-> TRUE,
     ver    |-> s.ver,                                   \* an update never changes the format version
     hash   |-> IF s.upd = "set_image" THEN TRUE ELSE IF s.upd = "clear_image" THEN FALSE ELSE s.hash,
     key    |-> IF s.upd = "set_image" THEN TRUE ELSE IF s.upd = "clear_image" THEN FALSE ELSE s.key,
     nonce  |-> IF s.upd = "set_image" THEN TRUE ELSE IF s.upd = "clear_image" THEN FALSE ELSE s.nonce,
     upload |-> IF s.upd \in {"set_image", "set_upload"} THEN TRUE
                ELSE IF s.upd \in {"clear_image", "clear_upload"} THEN FALSE ELSE s.upload,
     equal  |-> TRUE]                                    \* every other field: old value with the update applied

-----------------------------------------------------------------------------
(* 2. Key-package events  (mdk-core/src/key_packages.rs:263-590, util.rs:51-147)                   *)
(* One class per tag / part of the kind-443 event.  "dupok" = the tag appears twice, first valid,  *)
(* second conflicting; "dupbad" = first conflicting, second valid.                                  *)

KpFields == <<"kind", "pv", "cs", "ext", "relays", "i", "enc", "content", "author", "extra">>
KpFieldSet == {KpFields[i] : i \in DOMAIN KpFields}

\* first-matching-tag lookups make "dupok" accepted; C15 ("nothing ambiguous") wants both dup classes refused
KpDupOK(dev) == "KpFirstTagWins" \in dev

KpGoodD(f, dev) ==
    CASE f = "kind"    -> {"443"}
      [] f = "pv"      -> {"ok"} \cup (IF KpDupOK(dev) THEN {"dupok"} ELSE {})
      [] f = "cs"      -> {"ok"} \cup (IF KpDupOK(dev) THEN {"dupok"} ELSE {})
      [] f = "ext"     -> {"ok", "upper", "extra", "reordered"} \cup (IF KpDupOK(dev) THEN {"dupok"} ELSE {})
      [] f = "relays"  -> {"one", "two", "three"} \cup (IF KpDupOK(dev) THEN {"dupok"} ELSE {})
      [] f = "i"       -> {"ok", "upper"} \cup (IF KpDupOK(dev) THEN {"dupok"} ELSE {})
         \* ContentEncoding::from_tags returns the first tag that IS base64: both orders are taken
      [] f = "enc"     -> {"ok", "upper"} \cup (IF KpDupOK(dev) THEN {"dupok", "dupbad"} ELSE {})
         \* tls_deserialize instead of tls_deserialize_exact: bytes after the key package are ignored
      [] f = "content" -> {"ok"} \cup (IF "KpTrailingAccepted" \in dev THEN {"trailing"} ELSE {})
      [] f = "author"  -> {"self"}
      [] f = "extra"   -> {"none", "protected", "unknown"}
KpAllCls(f) ==
    CASE f = "kind"    -> {"443", "444", "445", "1"}
      [] f = "pv"      -> {"ok", "missing", "novalue", "wrong", "dupok", "dupbad"}
      [] f = "cs"      -> {"ok", "missing", "novalue", "wrong", "short", "nothex", "noprefix", "utf8s1", "utf8s2", "utf8s3", "utf8in", "dupok", "dupbad"}
      [] f = "ext"     -> {"ok", "upper", "extra", "reordered", "missing", "novalue", "nof2ee", "no000a", "malformed", "utf8s1", "utf8s2", "utf8s3", "utf8in", "dupok", "dupbad"}
      [] f = "relays"  -> {"one", "two", "three", "missing", "empty", "badurl", "dupok", "dupbad"}
      [] f = "i"       -> {"ok", "upper", "missing", "novalue", "empty", "nothex", "mismatch", "short", "twovalues", "utf8", "dupok", "dupbad"}
      [] f = "enc"     -> {"ok", "upper", "missing", "novalue", "hex", "dupok", "dupbad"}
      [] f = "content" -> {"ok", "empty", "notb64", "garbage", "truncated", "trailing"}
      [] f = "author"  -> {"self", "other"}
      [] f = "extra"   -> {"none", "protected", "unknown"}

KeyPackageAcceptedD(s, dev) == \A f \in KpFieldSet : s[f] \in KpGoodD(f, dev)
KeyPackageAccepted(s) == KeyPackageAcceptedD(s, Dev)
\* independent statement of "well-formed and unambiguous" (the shapes C15 wants accepted)
KpWellFormed(s) ==
    /\ s.kind = "443" /\ s.pv = "ok" /\ s.cs = "ok" /\ s.ext \in {"ok", "upper", "extra", "reordered"}
    /\ s.relays \in {"one", "two", "three"} /\ s.i \in {"ok", "upper"} /\ s.enc \in {"ok", "upper"}
    /\ s.content = "ok" /\ s.author = "self"

KpBase == [kind |-> "443", pv |-> "ok", cs |-> "ok", ext |-> "ok", relays |-> "one", i |-> "ok",
           enc |-> "ok", content |-> "ok", author |-> "self", extra |-> "none"]
KpCases1 == {KpBase} \cup UNION {{Mut(KpBase, f, c) : c \in KpAllCls(f)} : f \in KpFieldSet}
\* thorough: every pair of field classes (two simultaneous deviations from the base)
KpCases2 == UNION {{Mut(Mut(KpBase, f, c), g, d) : c \in KpAllCls(f), d \in KpAllCls(g)} :
                   f \in KpFieldSet, g \in KpFieldSet}

-----------------------------------------------------------------------------
(* 3. Welcome rumors  (mdk-core/src/welcomes.rs:101-175, 396-535)                                   *)

WlFields == <<"kind", "relays", "e", "client", "enc", "content", "id", "rcpt", "extra", "img", "name">>
WlFieldSet == {WlFields[i] : i \in DOMAIN WlFields}

WlGoodD(f, dev) ==
    CASE f = "kind"    -> {"444"}
      [] f = "relays"  -> {"one", "two", "dupok"}             \* every relays tag is checked; two valid ones are fine
      [] f = "e"       -> {"ok", "dupempty"}                  \* one non-empty e tag suffices
      [] f = "client"  -> {"ok", "missing"}                   \* optional (welcomes.rs:140)
      [] f = "enc"     -> {"ok"}                              \* exact "base64"; every encoding tag is checked
      [] f = "content" -> {"ok"} \cup (IF "WelcomeTrailingAccepted" \in dev THEN {"trailing"} ELSE {})
      [] f = "id"      -> {"ok"}
      [] f = "rcpt"    -> {"self"}
      [] f = "extra"   -> {"none", "unknown", "shuffled"}
      [] f = "img"     -> {"none", "all", "hash", "keynonce"}   \* image fields of the group data carried by the welcome
      [] f = "name"    -> {"ascii", "empty", "multi", "big"}
WlAllCls(f) ==
    CASE f = "kind"    -> {"444", "443", "445", "1"}
      [] f = "relays"  -> {"one", "two", "dupok", "missing", "empty", "badurl", "dupbad"}
      [] f = "e"       -> {"ok", "dupempty", "missing", "empty", "novalue"}
      [] f = "client"  -> {"ok", "missing", "empty", "novalue"}
      [] f = "enc"     -> {"ok", "missing", "novalue", "hex", "upper", "dupok", "dupbad"}
      [] f = "content" -> {"ok", "empty", "notb64", "garbage", "truncated", "trailing", "notwelcome"}
      [] f = "id"      -> {"ok", "missing"}
      [] f = "rcpt"    -> {"self", "other"}
      [] f = "extra"   -> {"none", "unknown", "shuffled"}
      [] f = "img"     -> {"none", "all", "hash", "keynonce"}
      [] f = "name"    -> {"ascii", "empty", "multi", "big"}
WelcomeRumorAcceptedD(s, dev) == \A f \in WlFieldSet : s[f] \in WlGoodD(f, dev)
WelcomeRumorAccepted(s) == WelcomeRumorAcceptedD(s, Dev)
WlWellFormed(s) == \A f \in WlFieldSet : s[f] \in WlGoodD(f, {})

WlBase == [kind |-> "444", relays |-> "one", e |-> "ok", client |-> "ok", enc |-> "ok", content |-> "ok",
           id |-> "ok", rcpt |-> "self", extra |-> "none", img |-> "none", name |-> "ascii"]
WlCases1 == {WlBase} \cup UNION {{Mut(WlBase, f, c) : c \in WlAllCls(f)} : f \in WlFieldSet}
             \cup {Mut(Mut(WlBase, "img", g), "name", n) : g \in WlAllCls("img"), n \in WlAllCls("name")}
WlCases2 == UNION {{Mut(Mut(WlBase, f, c), g, d) : c \in WlAllCls(f), d \in WlAllCls(g)} :
                   f \in WlFieldSet, g \in WlFieldSet}

-----------------------------------------------------------------------------
(* 4. imeta tags  (mdk-core/src/encrypted_media/manager.rs:245-438)                                 *)

ImFields == <<"kind", "url", "m", "filename", "dim", "blurhash", "x", "n", "v", "extra">>
ImFieldSet == {ImFields[i] : i \in DOMAIN ImFields}

ImGood(f) ==
    CASE f = "kind"     -> {"imeta"}
      [] f = "url"      -> {"ok", "spaces"}
      [] f = "m"        -> {"image", "video", "audio", "doc", "octet", "noncanon"}  \* canonicalised on parse
      [] f = "filename" -> {"ascii", "unicode", "spaces", "max"}
      [] f = "dim"      -> {"ok", "absent", "garbage"}          \* unparsable dimensions are dropped, not refused
      [] f = "blurhash" -> {"ok", "absent"}
      [] f = "x"        -> {"ok", "upper", "duplast"}           \* repeated field: the last one wins
      [] f = "n"        -> {"ok", "upper"}
      [] f = "v"        -> {"v2"}
      [] f = "extra"    -> {"none", "unknownkey", "nospace"}    \* unknown keys and items without a space are skipped
ImAllCls(f) ==
    CASE f = "kind"     -> {"imeta", "other"}
      [] f = "url"      -> {"ok", "spaces", "missing"}
      [] f = "m"        -> {"image", "video", "audio", "doc", "octet", "noncanon", "missing", "unsupported", "noslash"}
      [] f = "filename" -> {"ascii", "unicode", "spaces", "max", "missing", "empty", "slash", "backslash", "control", "toolong"}
      [] f = "dim"      -> {"ok", "absent", "garbage"}
      [] f = "blurhash" -> {"ok", "absent"}
      [] f = "x"        -> {"ok", "upper", "duplast", "missing", "short", "long", "nothex"}
      [] f = "n"        -> {"ok", "upper", "missing", "short", "long", "nothex"}
      [] f = "v"        -> {"v2", "missing", "v1", "unknown"}
      [] f = "extra"    -> {"none", "unknownkey", "nospace"}
ImetaParses(s) == \A f \in ImFieldSet : s[f] \in ImGood(f)
\* two bases: with and without the optional items (without them one missing item also trips the "fewer than 7 elements" check)
ImBase == [kind |-> "imeta", url |-> "ok", m |-> "doc", filename |-> "ascii", dim |-> "ok", blurhash |-> "ok",
           x |-> "ok", n |-> "ok", v |-> "v2", extra |-> "none"]
ImBaseMin == [ImBase EXCEPT !.dim = "absent", !.blurhash = "absent"]
ImCases1 == UNION {{Mut(ImBase, f, c) : c \in ImAllCls(f)} : f \in ImFieldSet}
            \cup UNION {{Mut(ImBaseMin, f, c) : c \in ImAllCls(f)} : f \in ImFieldSet \ {"dim", "blurhash"}}
            \cup {[ImBase EXCEPT !.m = m, !.filename = fn, !.dim = d, !.blurhash = bh] :
                     m \in {"image", "video", "audio", "doc", "octet", "noncanon"},
                     fn \in {"ascii", "unicode", "spaces", "max"}, d \in {"ok", "absent"}, bh \in {"ok", "absent"}}
ImCases2 == UNION {{Mut(Mut(ImBase, f, c), g, d) : c \in ImAllCls(f), d \in ImAllCls(g)} :
                   f \in ImFieldSet, g \in ImFieldSet}

-----------------------------------------------------------------------------
(* 5. Media encryption (MIP-04)  (encrypted_media/crypto.rs:53-233, manager.rs:68-239)              *)
(* Keys are symbolic: a file key is the tuple it is derived from.                                   *)

FileKey(group, keyid, hash, mime, name, ver) == <<group, keyid, hash, mime, name, ver>>

\* Lookup + decryption for one attempt (manager.rs:140-239).
\*   keyid    the exporter secret the file was encrypted under (epoch on the member's chain)
\*   hint     the epoch stored with the announcing message found by the lookup, or NoHint
\*   secrets  the exporter secrets the caller has stored (set of key ids)
\*   cur      the key id of the caller's current epoch, or NoKeyId when it cannot export (not a member / evicted)
\*   tamper   which part of ciphertext / reference differs from what was encrypted ("none" = nothing)
NoHint == -1
NoKeyId == -2
TamperCls == {"none", "ct_first", "ct_mid", "ct_tag", "ct_trunc", "ct_ext", "ct_empty", "nonce", "name", "mime", "hash", "ver_v1", "ver_unknown"}
MediaDecrypts(keyid, hint, secrets, cur, tamper) ==
    /\ tamper = "none"
    /\ \/ hint # NoHint /\ hint \in secrets /\ hint = keyid      \* try_decrypt_with_epoch_hint
       \/ cur # NoKeyId /\ cur = keyid                           \* fallback: current epoch key

\* one encrypt/decrypt case against the real crypto: who decrypts, with what damage
MdFields == <<"fam", "size", "spell", "name", "who", "tamper">>
MdFieldSet == {MdFields[i] : i \in DOMAIN MdFields}
MdFamGood == {"png", "jpeg", "gif", "webp", "video", "audio", "pdf", "text", "octet"}
MdGood(f) ==
    CASE f = "fam"    -> MdFamGood
      [] f = "size"   -> {"0", "1", "small", "64k", "mb"}       \* payload bytes (images: picture size class)
      [] f = "spell"  -> {"canon", "upper", "padded", "params"} \* MIME spelling handed to encrypt_for_upload
      [] f = "name"   -> {"ascii", "unicode", "spaces", "max"}
      [] f = "who"    -> {"self", "member"}                     \* sender itself / another member of the epoch
      [] f = "tamper" -> {"none"}
MdAllCls(f) ==
    CASE f = "fam"    -> MdFamGood \cup {"unsupported", "mismatch"}  \* not on the allow-list / image bytes of another format
      [] f = "size"   -> {"0", "1", "small", "64k", "mb"}
      [] f = "spell"  -> {"canon", "upper", "padded", "params"}
      [] f = "name"   -> {"ascii", "unicode", "spaces", "max", "empty", "slash", "control", "toolong"}
      [] f = "who"    -> {"self", "member", "othergroup", "laterepoch_nohint"}
      [] f = "tamper" -> TamperCls
\* encrypt_for_upload refuses bad input; decrypt returns the plaintext iff the caller holds the key and nothing was changed
MediaEncrypts(s) == s.fam \in MdFamGood /\ s.name \in MdGood("name")
MediaCaseDecrypts(s) == MediaEncrypts(s) /\ s.who \in {"self", "member"} /\ s.tamper = "none"
MdBase == [fam |-> "text", size |-> "small", spell |-> "canon", name |-> "ascii", who |-> "self", tamper |-> "none"]
MdImgBase == [MdBase EXCEPT !.fam = "png"]
MdCases1 ==
    \* all payloads x spellings x names round-trip
    {[fam |-> f, size |-> z, spell |-> sp, name |-> nm, who |-> w, tamper |-> "none"] :
        f \in MdFamGood, z \in {"0", "small", "mb"}, sp \in MdGood("spell"), nm \in {"ascii", "unicode"}, w \in {"self", "member"}}
    \cup UNION {{Mut(MdBase, f, c) : c \in MdAllCls(f)} : f \in MdFieldSet}
    \cup UNION {{Mut(MdImgBase, f, c) : c \in MdAllCls(f)} : f \in MdFieldSet}
    \* every tamper class on every payload size and both kinds of data
    \cup {[MdBase EXCEPT !.fam = f, !.size = z, !.tamper = t] : f \in {"text", "octet", "png", "video"}, z \in MdGood("size"), t \in TamperCls}

(* 6. Group image (MIP-01)  (extension/group_image.rs:144-290)                                       *)
GiFields == <<"fmt", "img", "hashchk", "via", "tamper">>
GiFieldSet == {GiFields[i] : i \in DOMAIN GiFields}
GiTamper == {"none", "ct_first", "ct_mid", "ct_tag", "ct_trunc", "ct_ext", "ct_empty", "nonce", "key", "hash"}
GiAllCls(f) ==
    CASE f = "fmt"     -> {"v1", "v2", "v2raw"}        \* v1: key used directly; v2: HKDF(seed); v2raw: v2 without EXIF sanitising
      [] f = "img"     -> {"png", "jpeg", "gif", "webp"}
      [] f = "hashchk" -> {"some", "none"}           \* expected blob hash given / legacy None
      [] f = "via"     -> {"direct", "groupdata"}    \* seed+nonce+hash taken from the upload / read back from the group data extension
      [] f = "tamper"  -> GiTamper
GroupImageDecrypts(s) == s.tamper = "none" \/ (s.tamper = "hash" /\ s.hashchk = "none")
GiCases ==
    {[fmt |-> f, img |-> i, hashchk |-> h, via |-> v, tamper |-> t] :
        f \in GiAllCls("fmt"), i \in GiAllCls("img"), h \in GiAllCls("hashchk"), v \in GiAllCls("via"), t \in GiTamper}

-----------------------------------------------------------------------------
(* Findings: the shapes on which the code as built answers differently from the intended table.    *)

KpFinding(s) ==
    IF s.content = "trailing" THEN "KpTrailingAccepted"
    ELSE IF \E f \in KpFieldSet : s[f] \in {"dupok", "dupbad"} THEN "KpFirstTagWins" ELSE "none"
WlFinding(s) == IF s.content = "trailing" THEN "WelcomeTrailingAccepted" ELSE "none"

-----------------------------------------------------------------------------
(* The enumerated cases per table and tier, and the comparison of an observation with the table.   *)

C15Tables == {"ext", "extenc", "kp", "welcome", "imeta"}
C17Tables == {"media", "gimg"}
TableNames == C15Tables \cup C17Tables

Cases(t, tier) ==
    CASE t = "ext"     -> ExtCases
      [] t = "extenc"  -> ExtEncCases
      [] t = "kp"      -> IF tier = "thorough" THEN KpCases1 \cup KpCases2 ELSE KpCases1
      [] t = "welcome" -> IF tier = "thorough" THEN WlCases1 \cup WlCases2 ELSE WlCases1
      [] t = "imeta"   -> IF tier = "thorough" THEN ImCases1 \cup ImCases2 ELSE ImCases1
      [] t = "media"   -> MdCases1
      [] t = "gimg"    -> GiCases

\* the table's answer for shape s, as a record (what the dump shows next to each case)
ExpectD(t, s, dev) ==
    CASE t = "ext"     -> ExtensionDecodes(s)
      [] t = "extenc"  -> ExtAfterUpdate(s)
      [] t = "kp"      -> [accept |-> KeyPackageAcceptedD(s, dev)]
      [] t = "welcome" -> [accept |-> WelcomeRumorAcceptedD(s, dev)]
      [] t = "imeta"   -> [accept |-> ImetaParses(s)]
      [] t = "media"   -> [encrypts |-> MediaEncrypts(s), decrypts |-> MediaCaseDecrypts(s)]
      [] t = "gimg"    -> [decrypts |-> GroupImageDecrypts(s)]

\* observation o (logged by htables from the real code) agrees with the table under deviation set dev
ObsOKD(t, s, o, dev) ==
    CASE t = "ext" ->
           LET e == ExtensionDecodes(s) IN
           IF e.accept THEN /\ o.res = "accept" /\ o.ver = e.ver /\ o.hash = e.hash /\ o.key = e.key
                            /\ o.nonce = e.nonce /\ o.upload = e.upload /\ o.equal
           ELSE o.res = "refuse"
      [] t = "extenc" ->
           LET e == ExtAfterUpdate(s) IN
           /\ o.res = "accept" /\ o.ver = e.ver /\ o.hash = e.hash /\ o.key = e.key
           /\ o.nonce = e.nonce /\ o.upload = e.upload /\ o.equal
      [] t = "kp" ->
           IF KeyPackageAcceptedD(s, dev) THEN o.res = "accept" /\ o.equal ELSE o.res = "refuse"
      [] t = "welcome" ->
           IF WelcomeRumorAcceptedD(s, dev) THEN o.res = "accept" /\ o.equal ELSE o.res = "refuse"
      [] t = "imeta" ->
           IF ImetaParses(s) THEN o.res = "accept" /\ o.equal ELSE o.res = "refuse"
      [] t = "media" ->
           IF ~MediaEncrypts(s) THEN o.enc = "refuse"
           ELSE /\ o.enc = "accept"
                /\ o.dec = (IF MediaCaseDecrypts(s) THEN "equal" ELSE "error")   \* never "different"
      [] t = "gimg" ->
           o.dec = (IF GroupImageDecrypts(s) THEN "equal" ELSE "error")

Finding(t, s) == CASE t = "kp" -> KpFinding(s) [] t = "welcome" -> WlFinding(s) [] OTHER -> "none"

\* spec-level sanity: the accepted shapes are exactly the well-formed ones (intended tables), and the as-built
\* tables differ from the intended ones exactly on the shapes named by a finding
SaneCase(t, s) ==
    CASE t = "ext"     -> ExtensionDecodes(s).accept <=> ExtWellFormed(s)
      [] t = "kp"      -> /\ KeyPackageAcceptedD(s, {}) <=> KpWellFormed(s)
                          /\ (KeyPackageAcceptedD(s, Dev) # KeyPackageAcceptedD(s, {})) => KpFinding(s) \in Dev
      [] t = "welcome" -> /\ WelcomeRumorAcceptedD(s, {}) <=> WlWellFormed(s)
                          /\ (WelcomeRumorAcceptedD(s, Dev) # WelcomeRumorAcceptedD(s, {})) => WlFinding(s) \in Dev
      [] t = "imeta"   -> ImetaParses(s) <=> (\A f \in ImFieldSet : s[f] \notin (ImAllCls(f) \ ImGood(f)))
      [] t = "media"   -> /\ MediaCaseDecrypts(s) => MediaEncrypts(s)
                          /\ (s.tamper # "none") => ~MediaCaseDecrypts(s)
      [] t = "gimg"    -> (s.tamper \notin {"none", "hash"}) => ~GroupImageDecrypts(s)
      [] t = "extenc"  -> LET e == ExtAfterUpdate(s) IN (s.upd = "clear_image") => ~(e.hash \/ e.key \/ e.nonce \/ e.upload)

=============================================================================
