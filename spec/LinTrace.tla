------------------------------ MODULE LinTrace ------------------------------
(* C19, code level.  Real threads share ONE storage instance; every call is logged as an    *)
(* Inv line (thread, arguments, and — filled in afterwards — the value it returned) and a   *)
(* Res line, in the order of a global atomic stamp taken just before the call and just      *)
(* after it returned.  TLC searches for a LINEARISATION: every operation takes effect as    *)
(* ONE atomic step of the sequential storage contract below, somewhere between its Inv and  *)
(* its Res line, and returns what that step returns.  Accepted <=> linearisable.            *)
(*                                                                                          *)
(* Sequential contract (condensed from the storage traits): last writer wins per key        *)
(* (group record, exporter secret (group,epoch), message (group,id)); nostr_group_id is     *)
(* unique among groups; replace_group_relays replaces the whole set; a snapshot is the      *)
(* group record + relays + secrets of one instant, rollback restores exactly that and       *)
(* consumes the snapshot; messages are not part of a snapshot; operations on a group that   *)
(* does not exist are refused.                                                              *)
(*                                                                                          *)
(* Deviation MemSnapshotTwoSections (memory backend): create_group_snapshot and             *)
(* rollback_group_to_snapshot are two critical sections => two linearisation points         *)
(* (capture, publish / take, restore); `split` records whether a history NEEDED another     *)
(* operation between the two halves.                                                        *)
EXTENDS Naturals, FiniteSets, Sequences, TLC, Json, IOUtils, TLCExt

Rec == ndJsonDeserialize(IOEnv.TRACE)
Meta == Rec[1]
Rng(s) == {s[i] : i \in DOMAIN s}

Threads == Rng(Meta.threads)
Groups == Rng(Meta.groups)
Epochs == Rng(Meta.epochs)
Msgs == Rng(Meta.msgs)
Names == Rng(Meta.names)
Dev == Rng(Meta.dev)

VARIABLES l,        \* cursor into the log
          backend,  \* "mem" | "sql"
          st,       \* model state [grp, rel, sec, msg, snp]
          cur,      \* thread -> the Inv record of its running call (or <<>>)
          ph,       \* thread -> "idle" | "pending" | "half" | "done"
          tmp,      \* thread -> value carried between the two halves of a split operation
          ok,       \* thread -> for a running READ: <<matched some state, matched a state with no half-done operation>>
          split,    \* some operation took effect between the two halves of a split one
          hno       \* history number

vars == <<l, backend, st, cur, ph, tmp, ok, split, hno>>
R == Rec[l]

NoSnap == <<>>
Absent == [ver |-> 0, nid |-> ""]
Exists(s, g) == s.grp[g].ver > 0

EmptyState ==
    [grp |-> [g \in Groups |-> Absent],
     rel |-> [g \in Groups |-> {}],
     sec |-> [g \in Groups |-> [e \in Epochs |-> 0]],
     msg |-> [g \in Groups |-> [m \in Msgs |-> 0]],
     snp |-> [g \in Groups |-> [n \in Names |-> NoSnap]]]

InitState(init) ==
    [EmptyState EXCEPT
       !.grp = [g \in Groups |-> IF \E i \in DOMAIN init.grp : init.grp[i].g = g
                                 THEN LET x == init.grp[CHOOSE i \in DOMAIN init.grp : init.grp[i].g = g]
                                      IN [ver |-> x.ver, nid |-> x.nid]
                                 ELSE Absent],
       !.rel = [g \in Groups |-> IF \E i \in DOMAIN init.rel : init.rel[i].g = g
                                 THEN Rng(init.rel[CHOOSE i \in DOMAIN init.rel : init.rel[i].g = g].sset)
                                 ELSE {}]]

\* uniform result record
Ret(res, ver, nid, g, sset, rset) == [res |-> res, ver |-> ver, nid |-> nid, g |-> g, sset |-> sset, rset |-> rset]
Ok == Ret("Ok", 0, "", "", {}, {})
Err == Ret("Err", 0, "", "", {}, {})
Norm(x) == Ret(x.res, x.ver, x.nid, x.g, Rng(x.sset), {<<x.rset[i].a, x.rset[i].v>> : i \in DOMAIN x.rset})

Capture(s, g) == <<s.grp[g], s.rel[g], s.sec[g]>>
Restore(s, g, c) == [s EXCEPT !.grp[g] = c[1], !.rel[g] = c[2], !.sec[g] = c[3]]

\* one atomic step of the contract: [s |-> new state, ret |-> result]
Apply(o, s) ==
    LET g == o.g IN
    CASE o.k = "save_group" ->
           IF \E g2 \in Groups \ {g} : Exists(s, g2) /\ s.grp[g2].nid = o.nid
           THEN [s |-> s, ret |-> Err]
           ELSE [s |-> [s EXCEPT !.grp[g] = [ver |-> o.ver, nid |-> o.nid]], ret |-> Ok]
      [] o.k = "find_group" -> [s |-> s, ret |-> Ret("Ok", s.grp[g].ver, s.grp[g].nid, "", {}, {})]
      [] o.k = "find_by_nid" ->
           IF \E g2 \in Groups : Exists(s, g2) /\ s.grp[g2].nid = o.nid
           THEN LET g2 == CHOOSE g2 \in Groups : Exists(s, g2) /\ s.grp[g2].nid = o.nid
                IN [s |-> s, ret |-> Ret("Ok", s.grp[g2].ver, o.nid, g2, {}, {})]
           ELSE [s |-> s, ret |-> Ok]
      [] o.k = "all_groups" -> [s |-> s, ret |-> Ret("Ok", 0, "", "", {}, {<<g2, s.grp[g2].ver>> : g2 \in {x \in Groups : Exists(s, x)}})]
      [] o.k = "replace_relays" ->
           IF Exists(s, g) THEN [s |-> [s EXCEPT !.rel[g] = Rng(o.sset)], ret |-> Ok] ELSE [s |-> s, ret |-> Err]
      [] o.k = "group_relays" ->
           IF Exists(s, g) THEN [s |-> s, ret |-> Ret("Ok", 0, "", "", s.rel[g], {})] ELSE [s |-> s, ret |-> Err]
      [] o.k = "save_secret" ->
           IF Exists(s, g) THEN [s |-> [s EXCEPT !.sec[g][o.e] = o.ver], ret |-> Ok] ELSE [s |-> s, ret |-> Err]
      [] o.k = "get_secret" ->
           IF Exists(s, g) THEN [s |-> s, ret |-> Ret("Ok", s.sec[g][o.e], "", "", {}, {})] ELSE [s |-> s, ret |-> Err]
      [] o.k = "save_message" ->
           IF Exists(s, g) THEN [s |-> [s EXCEPT !.msg[g][o.m] = o.ver], ret |-> Ok] ELSE [s |-> s, ret |-> Err]
      [] o.k = "find_message" -> [s |-> s, ret |-> Ret("Ok", s.msg[g][o.m], "", "", {}, {})]
      [] o.k = "messages" ->
           IF Exists(s, g) THEN [s |-> s, ret |-> Ret("Ok", 0, "", "", {}, {<<m, s.msg[g][m]>> : m \in {x \in Msgs : s.msg[g][x] > 0}})]
           ELSE [s |-> s, ret |-> Err]
      [] o.k = "snap_create" ->
           IF backend = "sql" /\ ~Exists(s, g)
           THEN [s |-> s, ret |-> Err]          \* FOREIGN KEY of group_state_snapshots (drivers never do this)
           ELSE [s |-> [s EXCEPT !.snp[g][o.name] = Capture(s, g)], ret |-> Ok]   \* an existing name is replaced
      [] o.k = "snap_rollback" ->
           IF s.snp[g][o.name] = NoSnap THEN [s |-> s, ret |-> Err]
           ELSE [s |-> [Restore(s, g, s.snp[g][o.name]) EXCEPT !.snp[g][o.name] = NoSnap], ret |-> Ok]
      [] o.k = "snap_release" -> [s |-> [s EXCEPT !.snp[g][o.name] = NoSnap], ret |-> Ok]
      [] o.k = "snap_list" -> [s |-> s, ret |-> Ret("Ok", 0, "", "", {n \in Names : s.snp[g][n] # NoSnap}, {})]

Splittable(o) == /\ backend = "mem" /\ "MemSnapshotTwoSections" \in Dev
                 /\ o.k \in {"snap_create", "snap_rollback"}

\* operations that never change the state: instead of guessing their linearisation point, every state that occurs
\* while they run is tried (ok[t] is monotone), which is the same search without the branching
IsRead(o) == o.k \in {"find_group", "find_by_nid", "all_groups", "group_relays", "get_secret", "find_message", "messages", "snap_list"}

Matches(o, s) == Apply(o, s).ret = Norm(o.exp)

NoHalf(p) == \A u \in Threads : p[u] # "half"

\* re-evaluate the running reads after the state (or the set of half-done operations) changed
Recheck(s2, p2) ==
    ok' = [u \in Threads |->
             IF ph[u] = "pending" /\ IsRead(cur[u])
             THEN LET m == Matches(cur[u], s2) IN <<ok[u][1] \/ m, ok[u][2] \/ (m /\ NoHalf(p2))>>
             ELSE ok[u]]

\* linearisation points are placed as late as possible: just before the next response line
AtResponse == l <= Len(Rec) /\ R.op = "Res"

SomeHalf(t) == \E u \in Threads \ {t} : ph[u] = "half"

Lin(t) ==
    /\ AtResponse /\ ph[t] = "pending" /\ ~IsRead(cur[t])
    /\ LET r == Apply(cur[t], st)
           p2 == [ph EXCEPT ![t] = "done"] IN
       /\ r.ret = Norm(cur[t].exp)
       /\ st' = r.s
       /\ ph' = p2
       /\ Recheck(r.s, p2)
    /\ split' = (split \/ SomeHalf(t))
    /\ UNCHANGED <<l, backend, cur, tmp, hno>>

\* first half of a two-section operation
LinHalf1(t) ==
    /\ AtResponse /\ ph[t] = "pending" /\ Splittable(cur[t])
    /\ Norm(cur[t].exp) = Ok
    /\ LET o == cur[t]
           p2 == [ph EXCEPT ![t] = "half"]
           s2 == IF o.k = "snap_create" THEN st ELSE [st EXCEPT !.snp[o.g][o.name] = NoSnap] IN
       /\ (o.k = "snap_rollback") => st.snp[o.g][o.name] # NoSnap
       /\ tmp' = [tmp EXCEPT ![t] = IF o.k = "snap_create" THEN Capture(st, o.g) ELSE st.snp[o.g][o.name]]
       /\ st' = s2
       /\ ph' = p2
       /\ Recheck(s2, p2)
    /\ split' = (split \/ SomeHalf(t))
    /\ UNCHANGED <<l, backend, cur, hno>>

LinHalf2(t) ==
    /\ AtResponse /\ ph[t] = "half"
    /\ LET o == cur[t]
           p2 == [ph EXCEPT ![t] = "done"]
           s2 == IF o.k = "snap_create" THEN [st EXCEPT !.snp[o.g][o.name] = tmp[t]] ELSE Restore(st, o.g, tmp[t]) IN
       /\ st' = s2
       /\ ph' = p2
       /\ Recheck(s2, p2)
    /\ tmp' = [tmp EXCEPT ![t] = <<>>]
    /\ split' = (split \/ SomeHalf(t))
    /\ UNCHANGED <<l, backend, cur, hno>>

Seen(n) == TLCSet(1, IF TLCGet(1) < n THEN n ELSE TLCGet(1))
Advance == l' = l + 1 /\ Seen(l + 1)

TInv ==
    /\ l <= Len(Rec) /\ R.op = "Inv" /\ ph[R.t] = "idle"
    /\ cur' = [cur EXCEPT ![R.t] = R]
    /\ ph' = [ph EXCEPT ![R.t] = "pending"]
    /\ ok' = [ok EXCEPT ![R.t] = IF IsRead(R) THEN LET m == Matches(R, st) IN <<m, m /\ NoHalf(ph)>> ELSE <<FALSE, FALSE>>]
    /\ Advance
    /\ UNCHANGED <<backend, st, tmp, split, hno>>

TRes ==
    /\ l <= Len(Rec) /\ R.op = "Res"
    /\ \/ ph[R.t] = "done" /\ UNCHANGED split
       \/ ph[R.t] = "pending" /\ IsRead(cur[R.t]) /\ ok[R.t][1] /\ split' = (split \/ ~ok[R.t][2])
    /\ ph' = [ph EXCEPT ![R.t] = "idle"]
    /\ cur' = [cur EXCEPT ![R.t] = <<>>]
    /\ ok' = [ok EXCEPT ![R.t] = <<FALSE, FALSE>>]
    /\ Advance
    /\ UNCHANGED <<backend, st, tmp, hno>>

Quiet == \A t \in Threads : ph[t] = "idle"

\* history boundary: the finished history was linearisable (plainly, or only with a split operation)
TReset ==
    /\ l <= Len(Rec) /\ R.op \in {"Reset", "End"} /\ Quiet
    /\ (hno > 0) => PrintT(<<IF split THEN "LIN-SPLIT" ELSE "LIN-PLAIN", hno>>)
    /\ IF R.op = "Reset"
       THEN backend' = R.backend /\ st' = InitState(R.init)
       ELSE UNCHANGED <<backend, st>>
    /\ hno' = hno + 1
    /\ split' = FALSE
    /\ cur' = [t \in Threads |-> <<>>]
    /\ Advance
    /\ UNCHANGED <<ph, tmp, ok>>

\* volume stress without per-call logging: only its outcome is a line; a Hang / Panic line has no step at all
TStress ==
    /\ l <= Len(Rec) /\ R.op = "Stress" /\ Quiet
    /\ Advance
    /\ UNCHANGED <<backend, st, cur, ph, tmp, ok, split, hno>>

TraceInit ==
    /\ l = 2 /\ backend = "mem" /\ st = EmptyState
    /\ cur = [t \in Threads |-> <<>>]
    /\ ph = [t \in Threads |-> "idle"]
    /\ tmp = [t \in Threads |-> <<>>]
    /\ ok = [t \in Threads |-> <<FALSE, FALSE>>]
    /\ split = FALSE /\ hno = 0
    /\ TLCSet(1, 2)

TraceNext == TInv \/ TRes \/ TReset \/ TStress \/ \E t \in Threads : Lin(t) \/ LinHalf1(t) \/ LinHalf2(t)

TraceSpec == TraceInit /\ [][TraceNext]_vars

TraceAccepted ==
    LET d == TLCGet(1) IN
    IF d = Len(Rec) + 1 THEN TRUE
    ELSE /\ PrintT(<<"TRACE-REJECTED at line", d>>)
         /\ PrintT("REJECTED-RECORD " \o ToString(Rec[d]))
         /\ FALSE
=============================================================================
