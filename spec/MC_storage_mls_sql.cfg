SPECIFICATION MCSpec
CONSTANTS
  Groups = {"g1"}
  Names = {"s1"}
  Dev = {"SqlSnapshotNeedsGroupRow"}
  KnownFinding <- Silent
  Cap = 0
  MaxLimit = 10000
  DefLimit = 1000
  Acts = {"groups","gd","props","leaves","snaps"}
  Nids = {}
  Epochs = {1}
  Ptrs = {}
  Relays = {"r1"}
  SecEpochs = {0}
  SecVals = {1}
  MsgIds = {1}
  CAs = {10}
  PAs = {20}
  MsgEpochs = {}
  MsgStates = {"processed"}
  Tags = {""}
  Wrappers = {1}
  ProcStates = {"failed"}
  ProcEpochs = {}
  WelcomeIds = {1}
  WelcomeStates = {"pending"}
  GdTypes = {"tree"}
  GdVals = {"t1"}
  LeafVals = {"a","b"}
  LeafStart = 8
  MaxLeaf = 13
  PropRefs = {"r"}
  GlobKeys = {"k1"}
  Ats = {1}
  Mins = {2}
  Lims = {1}
  Offs = {0}
  Subs = {"abc"}
VIEW MCView
INVARIANT TypeInv
INVARIANT InvC10
INVARIANT InvC18
PROPERTY PropC09
CHECK_DEADLOCK FALSE
