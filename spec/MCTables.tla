------------------------------ MODULE MCTables ------------------------------
(* TLC enumerates every case of every table: one state = one case.  The     *)
(* cases are dumped as NDJSON (with the table's answer) for /verif/htables. *)
EXTENDS Tables, Json, IOUtils, SequencesExt

CONSTANT Tier      \* "quick" | "thorough"

VARIABLE c         \* the case: [t |-> table, s |-> shape]

AllCases == UNION {{[t |-> t, s |-> s] : s \in Cases(t, Tier)} : t \in TableNames}

MCInit == c \in AllCases
MCNext == UNCHANGED c
MCSpec == MCInit /\ [][MCNext]_c

Sane == SaneCase(c.t, c.s)
\* the as-built and the intended table agree except on named findings
Typed == c.t \in TableNames /\ c.s \in Cases(c.t, Tier)

Dump ==
    /\ TLCGet("stats").diameter >= 0
    /\ ("CASES_OUT" \in DOMAIN IOEnv) =>
          ndJsonSerialize(IOEnv.CASES_OUT,
              SetToSeq({[t |-> x.t, s |-> x.s, intended |-> ExpectD(x.t, x.s, {}), asbuilt |-> ExpectD(x.t, x.s, Dev)] : x \in AllCases}))
=============================================================================
