----------------------------- MODULE CrashTrace -----------------------------
(* Every crash experiment run against the real code must get the verdict    *)
(* Crash.tla assigns to its surviving write prefix.                         *)
EXTENDS Crash, Json, IOUtils

Rec == ndJsonDeserialize(IOEnv.TRACE)
TraceDev == {Rec[1].dev[i] : i \in DOMAIN Rec[1].dev}
VARIABLE l
Init == l = 2
Next == l <= Len(Rec) /\ ExperimentOK(Rec[l]) /\ l' = l + 1
Spec == Init /\ [][Next]_l
Accepted ==
    LET d == TLCGet("stats").diameter IN
    IF d = Len(Rec) THEN TRUE
    ELSE /\ PrintT("CRASH-UNRECOVERED at line " \o ToString(d + 1) \o " : " \o ToString(Rec[d + 1]))
         /\ FALSE
=============================================================================
