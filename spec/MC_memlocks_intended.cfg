SPECIFICATION Spec
CONSTANTS
  Threads = {1,2}
  Groups = {"g1"}
  Nids = {"n1"}
  OpKinds = {"save","find","snap","rollback","list"}
  MaxOps = 2
  Dev = {}
INVARIANT InvLinearisablePlain
INVARIANT SnapshotsConsistent
PROPERTY Isolation
CHECK_DEADLOCK TRUE
