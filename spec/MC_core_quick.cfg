SPECIFICATION MCSpec
CONSTANTS
  Clients = {"c1","c2","c3"}
  Groups = {"g1"}
  Sql = {}
  Retention = 2
  Lookback = 2
  MaxPast = 2
  Dev = {"AppFiledUnderReceiverEpoch","MergeNoSnapshot"}
  MaxEvents = 2
  MaxCommits = 2
  TsSet = {1,2}
  Kinds = {"rename","self_update"}
  Admins = {"c1","c2"}
  Members = {"c2","c3"}
  Regime = "causal"
  Immediate = TRUE
VIEW MCView
INVARIANT MC_C01
INVARIANT MC_C08
INVARIANT MC_C20
INVARIANT MC_Secrets
CHECK_DEADLOCK FALSE
