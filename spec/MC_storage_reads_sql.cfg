SPECIFICATION MCSpec
CONSTANTS
  Groups = {"g1"}
  Names = {"s1"}
  Dev = {"SqlSnapshotNeedsGroupRow"}
  KnownFinding <- Silent
  Cap = 0
  MaxLimit = 10000
  DefLimit = 1000
  Acts = {"groups","msgs","reads"}
  Nids = {}
  Epochs = {1}
  Ptrs = {}
  Relays = {"r1"}
  SecEpochs = {0}
  SecVals = {1}
  MsgIds = {1,2,3}
  CAs = {10}
  PAs = {20,21}
  MsgEpochs = {1}
  MsgStates = {"processed"}
  Tags = {"", "abc"}
  Wrappers = {1}
  ProcStates = {"failed"}
  ProcEpochs = {}
  WelcomeIds = {1}
  WelcomeStates = {"pending"}
  GdTypes = {"tree"}
  GdVals = {"t1"}
  LeafVals = {"a"}
  LeafStart = 0
  MaxLeaf = 0
  PropRefs = {"r"}
  GlobKeys = {"k1"}
  Ats = {1}
  Mins = {2}
  Lims = {0,1,2,10000,10001}
  Offs = {0,1,2,1000000}
  Subs = {"abc","ABC","zz"}
VIEW MCView
INVARIANT TypeInv
INVARIANT InvC10
INVARIANT InvC18
PROPERTY PropC09
CHECK_DEADLOCK FALSE
