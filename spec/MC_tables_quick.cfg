SPECIFICATION MCSpec
CONSTANTS
  Dev = {"KpTrailingAccepted","KpFirstTagWins","WelcomeTrailingAccepted","HintByHashOnly"}
  Tier = "quick"
INVARIANT Sane
INVARIANT Typed
POSTCONDITION Dump
CHECK_DEADLOCK FALSE
