------------------------------ MODULE MemLocks ------------------------------
(* The memory backend's two-lock discipline (mdk-memory-storage/src/lib.rs).              *)
(*   inner           : parking_lot::RwLock<Inner>      (groups, relays, secrets, messages) *)
(*   group_snapshots : parking_lot::RwLock<HashMap<(GroupId,String),GroupScopedSnapshot>>  *)
(* Every storage operation is the list of lock instructions the code executes, with the    *)
(* state change at the instruction where the lock is held.  parking_lot's RwLock is        *)
(* writer-fair: once a writer is queued, NEW readers wait (also a reader that already      *)
(* holds a read guard => a recursive read can deadlock).                                   *)
(*                                                                                         *)
(* TLC checks: no deadlock; every complete history is linearisable w.r.t. the sequential   *)
(* storage contract (Seq* below): there is a total order of the operations, compatible     *)
(* with real time, that gives every operation the value it actually returned.              *)
(*                                                                                         *)
(* As built (Dev flag MemSnapshotTwoSections):                                             *)
(*   create_group_snapshot   = read(inner){capture}; write(group_snapshots){insert}        *)
(*   rollback_group_to_snapshot = write(group_snapshots){remove}; write(inner){restore}    *)
(* i.e. two critical sections each (lib.rs:788-812).  Intended (Dev = {}): the second lock *)
(* is taken while the first is still held, in the same order S -> I for both.              *)
EXTENDS Naturals, FiniteSets, Sequences, TLC

CONSTANTS Threads,   \* a set of naturals
          Groups, Nids, OpKinds, MaxOps, Dev

None == "none"
NoT == 0          \* threads are positive naturals
NoSnap == <<>>
Locks == {"I", "S"}

VARIABLES lk,      \* lock -> [w : writer or None, r : thread -> read guards held, q : queued writers]
          val,     \* group -> version of the group record
          nid,     \* group -> nostr id
          snap,    \* group -> None or the captured [v, n]
          th,      \* thread -> [n : ops done, pc : index into prog, prog, op, tmp, ret, inv]
          hist,    \* completed operations [t, k, g, v, n, ret, inv, res]
          clock

vars == <<lk, val, nid, snap, th, hist, clock>>

TwoSections == "MemSnapshotTwoSections" \in Dev

\* instruction = <<what, lock, effect>> ; what \in "q" (queue for write) "w" (acquire write) "r" (acquire read) "u" (release)
Prog(k) ==
    CASE k = "save" -> IF "CheckThenAct" \in Dev
                       THEN << <<"r","I","chk">>, <<"u","I","">>, <<"q","I","">>, <<"w","I","put">>, <<"u","I","">> >>
                       ELSE << <<"q","I","">>, <<"w","I","save">>, <<"u","I","">> >>
      [] k = "find" -> << <<"r","I","find">>, <<"u","I","">> >>
      [] k = "list" -> << <<"r","S","list">>, <<"u","S","">> >>
      [] k = "snap" -> IF TwoSections
                       THEN (IF "RecursiveRead" \in Dev
                             THEN << <<"r","I","cap">>, <<"r","I","">>, <<"u","I","">>, <<"u","I","">>, <<"q","S","">>, <<"w","S","pub">>, <<"u","S","">> >>
                             ELSE << <<"r","I","cap">>, <<"u","I","">>, <<"q","S","">>, <<"w","S","pub">>, <<"u","S","">> >>)
                       ELSE << <<"q","S","">>, <<"w","S","">>, <<"r","I","cappub">>, <<"u","I","">>, <<"u","S","">> >>
      [] k = "rollback" -> IF TwoSections
                           THEN << <<"q","S","">>, <<"w","S","take">>, <<"r","I","">>, <<"u","I","">>, <<"u","S","">>,
                                   <<"q","I","">>, <<"w","I","restore">>, <<"u","I","">> >>   \* (the nested read checks the nostr id, lib.rs:804-826)
                           ELSE << <<"q","S","">>, <<"w","S","take">>, <<"q","I","">>, <<"w","I","restore">>, <<"u","I","">>, <<"u","S","">> >>

Idle == [n |-> 0, pc |-> 0, prog |-> <<>>, op |-> [k |-> "", g |-> "", v |-> 0, n |-> ""], tmp |-> None, ret |-> None, inv |-> 0]

Init ==
    /\ lk = [L \in Locks |-> [w |-> NoT, r |-> [t \in Threads |-> 0], q |-> {}]]
    /\ val = [g \in Groups |-> 0]
    /\ nid = [g \in Groups |-> None]
    /\ snap = [g \in Groups |-> NoSnap]
    /\ th = [t \in Threads |-> Idle]
    /\ hist = {}
    /\ clock = 0
    /\ TLCSet(2, 0)

NoReaders(L) == \A u \in Threads : lk[L].r[u] = 0

Invoke(t, k, g, n) ==
    /\ th[t].pc = 0 /\ th[t].n < MaxOps
    /\ th' = [th EXCEPT ![t] = [@ EXCEPT !.pc = 1, !.prog = Prog(k), !.tmp = None, !.ret = None, !.inv = clock + 1,
                                         !.op = [k |-> k, g |-> g, v |-> t * 10 + th[t].n + 1, n |-> n]]]
    /\ clock' = clock + 1
    /\ UNCHANGED <<lk, val, nid, snap, hist>>

Dup(g, n) == \E g2 \in Groups \ {g} : nid[g2] = n

\* effect of instruction e of thread t: new <<val, nid, snap, tmp, ret>>
Eff(t, e) ==
    LET o == th[t].op
        g == o.g
        same == [v |-> val, n |-> nid, s |-> snap, tmp |-> th[t].tmp, ret |-> th[t].ret]
    IN CASE e = "save" -> IF Dup(g, o.n) THEN [same EXCEPT !.ret = "dup"]
                          ELSE [same EXCEPT !.v = [val EXCEPT ![g] = o.v], !.n = [nid EXCEPT ![g] = o.n], !.ret = "ok"]
         [] e = "chk" -> [same EXCEPT !.tmp = Dup(g, o.n)]
         [] e = "put" -> IF th[t].tmp = TRUE THEN [same EXCEPT !.ret = "dup"]
                         ELSE [same EXCEPT !.v = [val EXCEPT ![g] = o.v], !.n = [nid EXCEPT ![g] = o.n], !.ret = "ok"]
         [] e = "find" -> [same EXCEPT !.ret = <<val[g], nid[g]>>]
         [] e = "list" -> [same EXCEPT !.ret = (snap[g] # NoSnap)]
         [] e = "cap" -> [same EXCEPT !.tmp = <<val[g], nid[g]>>]
         [] e = "pub" -> [same EXCEPT !.s = [snap EXCEPT ![g] = th[t].tmp], !.ret = "ok"]
         [] e = "cappub" -> [same EXCEPT !.s = [snap EXCEPT ![g] = <<val[g], nid[g]>>], !.ret = "ok"]
         [] e = "take" -> IF snap[g] = NoSnap THEN [same EXCEPT !.ret = "notfound"]
                          ELSE [same EXCEPT !.tmp = snap[g], !.s = [snap EXCEPT ![g] = NoSnap]]
         [] e = "restore" -> IF th[t].ret = "notfound" THEN same
                             ELSE [same EXCEPT !.v = [val EXCEPT ![g] = th[t].tmp[1]], !.n = [nid EXCEPT ![g] = th[t].tmp[2]], !.ret = "ok"]
         [] OTHER -> same

Step(t) ==
    /\ th[t].pc > 0 /\ th[t].pc <= Len(th[t].prog)
    /\ LET ins == th[t].prog[th[t].pc]
           L == ins[2]
           x == Eff(t, ins[3])
           \* rollback of a missing snapshot returns after releasing the snapshot lock
           skip == th[t].op.k = "rollback" /\ x.ret = "notfound" /\ ins[1] = "u" /\ L = "S" /\ TwoSections
           npc == IF skip THEN Len(th[t].prog) + 1 ELSE th[t].pc + 1
       IN /\ CASE ins[1] = "q" -> lk' = [lk EXCEPT ![L].q = @ \cup {t}]
                [] ins[1] = "w" -> /\ lk[L].w = NoT /\ NoReaders(L) /\ t \in lk[L].q
                                   /\ lk' = [lk EXCEPT ![L].w = t, ![L].q = @ \ {t}]
                [] ins[1] = "r" -> /\ lk[L].w = NoT /\ lk[L].q = {}
                                   /\ lk' = [lk EXCEPT ![L].r[t] = @ + 1]
                [] ins[1] = "u" -> lk' = IF lk[L].w = t THEN [lk EXCEPT ![L].w = NoT] ELSE [lk EXCEPT ![L].r[t] = @ - 1]
          /\ val' = x.v /\ nid' = x.n /\ snap' = x.s
          /\ th' = [th EXCEPT ![t].pc = npc, ![t].tmp = x.tmp, ![t].ret = x.ret]
    /\ UNCHANGED <<hist, clock>>

\* the intended rollback skips the restore when nothing was taken but still releases S at the end
Return(t) ==
    /\ th[t].pc > Len(th[t].prog) /\ th[t].pc > 0
    /\ hist' = hist \cup {[t |-> t, i |-> th[t].n + 1, k |-> th[t].op.k, g |-> th[t].op.g, v |-> th[t].op.v, n |-> th[t].op.n,
                           ret |-> th[t].ret, inv |-> th[t].inv, res |-> clock + 1]}
    /\ clock' = clock + 1
    /\ th' = [th EXCEPT ![t] = [Idle EXCEPT !.n = th[t].n + 1]]
    /\ UNCHANGED <<lk, val, nid, snap>>

AllDone == \A t \in Threads : th[t].pc = 0 /\ th[t].n = MaxOps

Next ==
    \/ \E t \in Threads :
         \/ \E k \in OpKinds, g \in Groups, n \in Nids : Invoke(t, k, g, n)
         \/ Step(t)
         \/ Return(t)
    \/ (AllDone /\ UNCHANGED vars)

Spec == Init /\ [][Next]_vars

-----------------------------------------------------------------------------
(* Sequential contract: one atomic step per operation *)
SeqApply(o, s) ==   \* s = [v, n, s] ; result [st, ret]
    LET g == o.g IN
    CASE o.k = "save" -> IF \E g2 \in Groups \ {g} : s.n[g2] = o.n THEN [st |-> s, ret |-> "dup"]
                         ELSE [st |-> [s EXCEPT !.v[g] = o.v, !.n[g] = o.n], ret |-> "ok"]
      [] o.k = "find" -> [st |-> s, ret |-> <<s.v[g], s.n[g]>>]
      [] o.k = "list" -> [st |-> s, ret |-> (s.s[g] # NoSnap)]
      [] o.k = "snap" -> [st |-> [s EXCEPT !.s[g] = <<s.v[g], s.n[g]>>], ret |-> "ok"]
      [] o.k = "rollback" -> IF s.s[g] = NoSnap THEN [st |-> s, ret |-> "notfound"]
                             ELSE [st |-> [s EXCEPT !.v[g] = s.s[g][1], !.n[g] = s.s[g][2], !.s[g] = NoSnap], ret |-> "ok"]

RECURSIVE LinFrom(_, _)
LinFrom(todo, s) ==
    IF todo = {} THEN s.v = val /\ s.n = nid /\ s.s = snap
    ELSE \E o \in todo :
           /\ \A o2 \in todo : ~(o2.res < o.inv)          \* real-time order respected
           /\ LET r == SeqApply(o, s) IN r.ret = o.ret /\ LinFrom(todo \ {o}, r.st)

S0 == [v |-> [g \in Groups |-> 0], n |-> [g \in Groups |-> None], s |-> [g \in Groups |-> NoSnap]]

Linearisable == LinFrom(hist, S0)

\* finding C19/MemSnapshotTwoSections: a snapshot create / rollback (two critical sections) ran concurrently with
\* another thread's operation on the same group
Overlap(a, b) == a.inv < b.res /\ b.inv < a.res
Excused == /\ TwoSections
           /\ \E a \in hist : /\ a.k \in {"snap", "rollback"} /\ a.ret = "ok"
                              /\ \E b \in hist : b.t # a.t /\ b.g = a.g /\ Overlap(a, b)

Once(tag) == IF TLCGet(2) = 0 THEN PrintT(<<"KNOWN-FINDING", "C19", tag>>) /\ TLCSet(2, 1) ELSE TRUE

InvLinearisable == AllDone => (Linearisable \/ (Excused /\ Once("MemSnapshotTwoSections")))
InvLinearisablePlain == AllDone => Linearisable

\* operations on one group never change another group's state (checked as an action property)
Isolation == [][\A t \in Threads : (th[t].pc > 0 /\ th'[t].pc # th[t].pc) =>
                    \A g \in Groups \ {th[t].op.g} : val'[g] = val[g] /\ nid'[g] = nid[g] /\ snap'[g] = snap[g]]_vars

\* a snapshot equals the group's state at one instant: the published (version, nostr id) pair was written by ONE save
\* (versions are unique per operation), never a mixture of two writes
AllOps == {[v |-> o.v, n |-> o.n, g |-> o.g, k |-> o.k] : o \in hist} \cup
          {[v |-> th[t].op.v, n |-> th[t].op.n, g |-> th[t].op.g, k |-> th[t].op.k] : t \in {u \in Threads : th[u].pc > 0}}
SnapshotsConsistent ==
    \A g \in Groups : snap[g] # NoSnap =>
        \/ snap[g] = <<0, None>>
        \/ \E o \in AllOps : o.g = g /\ o.k = "save" /\ snap[g] = <<o.v, o.n>>
=============================================================================
