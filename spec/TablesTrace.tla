---------------------------- MODULE TablesTrace ----------------------------
(* Trace validation for the decision tables: every line logged by          *)
(* /verif/htables (one executed case: table, shape, observation of the     *)
(* real code) must be an enumerated case of Tables.tla, and the            *)
(* observation must be the table's answer (InvC15 / InvC17).               *)
EXTENDS Tables, Json, IOUtils, TLCExt, SequencesExt

Rec == ndJsonDeserialize(IOEnv.TRACE)
Meta == Rec[1]
TraceDev == {Meta.dev[i] : i \in DOMAIN Meta.dev}
TraceTables == {Meta.tables[i] : i \in DOMAIN Meta.tables}
Tier == Meta.tier

VARIABLES l,     \* cursor: next line to consume
          cur    \* the line consumed last

tvars == <<l, cur>>

NoLine == [t |-> "none"]

TraceInit == l = 2 /\ cur = NoLine

\* the line is one of the enumerated cases of a table this run covers
IsCase(r) == r.t \in TraceTables /\ r.s \in Cases(r.t, Tier)

TraceNext ==
    /\ l <= Len(Rec)
    /\ IF IsCase(Rec[l]) THEN TRUE
       ELSE PrintT(<<"TRACE-REJECTED at line", l, "not an enumerated case", ToString(Rec[l].s)>>) /\ FALSE
    /\ cur' = Rec[l]
    /\ l' = l + 1

TraceSpec == TraceInit /\ [][TraceNext]_tvars

\* property side: the intended table; conformance side: the as-built table on a shape named by a listed finding
Agrees(r, pid) ==
    \/ ObsOKD(r.t, r.s, r.o, {})
    \/ /\ Finding(r.t, r.s) \in Dev
       /\ ObsOKD(r.t, r.s, r.o, Dev)
       /\ PrintT(<<"KNOWN-FINDING", pid, Finding(r.t, r.s)>>)
    \/ PrintT("MISMATCH " \o ToString(<<"line", l - 1, r.t, "shape", r.s, "observed", r.o, "table", ExpectD(r.t, r.s, Dev)>>)) /\ FALSE

InvC15 == cur.t \in C15Tables => Agrees(cur, "C15")
InvC17 == cur.t \in C17Tables => Agrees(cur, "C17")

\* Diagnostic (not a verdict): the parser of the group-data extension refused at the check the transcription names
ExtErrClass(s) == LET st == ExtDecodeStep(s) IN IF st = "relay_utf8" THEN "utf8" ELSE st
DiagExtErrClass == (cur.t = "ext" /\ "ecls" \in DOMAIN cur.o) => cur.o.ecls = ExtErrClass(cur.s)

\* every enumerated case of every covered table was executed at least once, and the whole file was consumed
Seen(t) == {Rec[i].s : i \in {j \in 2..Len(Rec) : Rec[j].t = t}}
TraceAccepted ==
    /\ \/ TLCGet("stats").diameter - 1 = Len(Rec) - 1
       \/ PrintT(<<"TRACE-REJECTED at line", TLCGet("stats").diameter + 1>>) /\ FALSE
    /\ \A t \in TraceTables :
          \/ Meta.partial                     \* replay of single cases
          \/ Cases(t, Tier) \subseteq Seen(t)
          \/ PrintT(<<"TRACE-REJECTED at line", 1, "cases never executed", t, Cardinality(Cases(t, Tier) \ Seen(t))>>) /\ FALSE
=============================================================================
