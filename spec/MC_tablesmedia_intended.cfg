SPECIFICATION MCSpec
CONSTANTS
  Dev = {}
  Clients = {"a","b","c","o"}
  Files = {"f1","f2"}
  MCFiles = {"f1","f2"}
  Content <- MCContent
  Lookback = 1
  MaxPast = 1
  MaxEpoch = 3
  Creator = "a"
  Founders = {"b"}
  SameContent = TRUE
VIEW MCView
INVARIANT InvC17
INVARIANT MembersDecryptPlain
INVARIANT LastOK
CHECK_DEADLOCK FALSE
