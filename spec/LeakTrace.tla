----------------------------- MODULE LeakTrace -----------------------------
(* C14 / C06-panic observations attached to the histories generated for the *)
(* Marmot spec: every recorded call carries `leak` = the needles (group ids, *)
(* exporter secrets, db key; hex / byte-list forms) found in any log record  *)
(* or returned error / result value of that call.  This module adds no model *)
(* of its own: the model's contribution is the set of histories (every       *)
(* action and result branch of Marmot.tla is driven with capture on).        *)
EXTENDS Naturals, Sequences, TLC, Json, IOUtils

Rec == ndJsonDeserialize(IOEnv.TRACE)
VARIABLE l
R == Rec[l]

Init == l = 1
LineOK == /\ ("leak" \in DOMAIN R) => R.leak = <<>>
          /\ ("res" \in DOMAIN R) => R.res # "Panic"
Next == l <= Len(Rec) /\ LineOK /\ l' = l + 1
Spec == Init /\ [][Next]_l

Accepted ==
    LET d == TLCGet("stats").diameter IN
    IF d - 1 = Len(Rec) THEN TRUE
    ELSE /\ PrintT("LEAK-OR-PANIC at line " \o ToString(d) \o " : " \o ToString([x \in (DOMAIN Rec[d]) \ {"post", "posts"} |-> Rec[d][x]]))
         /\ FALSE
=============================================================================
