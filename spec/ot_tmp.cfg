SPECIFICATION TraceSpec
CONSTANTS
  Threads <- TraceThreads
  Paths <- TracePaths
  Keys <- TraceKeys
  Dev <- TraceDev
INVARIANT InvC13
POSTCONDITION TraceAccepted
CHECK_DEADLOCK FALSE
