---------------------------- MODULE MarmotTrace ----------------------------
(* Trace validation: every line of a trace recorded from the real clients   *)
(* must be a step of Marmot.tla; the fields selected by View are bound.     *)
EXTENDS Marmot, Json, IOUtils, TLCExt

Rec == ndJsonDeserialize(IOEnv.TRACE)
ViewStr == IF "VIEW" \in DOMAIN IOEnv THEN IOEnv.VIEW ELSE "all"

Meta == Rec[1]
TraceClients == Range(Meta.clients)
TraceGroups == Range(Meta.groups)
TraceSql == Range(Meta.sql)
TraceRetention == Meta.retention
TraceLookback == Meta.lookback
TraceMaxPast == Meta.maxpast
TraceU(c) == IF "users" \in DOMAIN Meta /\ c \in DOMAIN Meta.users THEN Meta.users[c] ELSE c
TraceOOT == IF "oot" \in DOMAIN Meta THEN Meta.oot ELSE 100
TraceMFD == IF "mfd" \in DOMAIN Meta THEN Meta.mfd ELSE 1000
TraceDev == Range(Meta.dev)

VARIABLE l
VARIABLE deep          \* history: <<client, group>> pairs that were once more than Retention commits past their fork point
tvars == <<vars, l, deep>>
TraceEverTooDeep(c, g) == <<c, g>> \in deep

R == Rec[l]

\* which projections are bound ("all" or a comma-free list encoded as one token per check)
V(f) == ViewStr = "all" \/ f \in Range(Meta.views[ViewStr])

-----------------------------------------------------------------------------
(* Comparing a logged projection p with the model's (primed) state          *)

GSx(evx, gix, g, chain) == IF chain = <<>> THEN gix[g].init ELSE evx[Last(chain)].result

DataEq(d, p) == /\ d.name = p.name /\ d.desc = p.desc /\ d.nid = p.nid
                /\ d.admins = Range(p.admins) /\ d.relays = Range(p.relays)

\* a failed binding prints what the model expected (only ever evaluated to FALSE on a rejected step)
Chk(name, c, cond, modelval) == cond \/ (PrintT("MISMATCH " \o ToString(<<"line", l, "client", c, "field", name, "model", modelval>>)) /\ FALSE)

MsgsView(msgsx, c, g) ==
    {[id |-> k[2], state |-> msgsx[c][k].state, epoch |-> msgsx[c][k].epoch, author |-> msgsx[c][k].author,
      w |-> msgsx[c][k].w, content |-> msgsx[c][k].content, idok |-> msgsx[c][k].idok] : k \in {kk \in DOMAIN msgsx[c] : kk[1] = g}}
ProcView(procx, evx, c, g) ==
    {[e |-> x, state |-> procx[c][x].state, epoch |-> procx[c][x].epoch] : x \in {y \in DOMAIN procx[c] : evx[y].g = g}}

PostOK(clx, evx, gix, procx, msgsx, c, g, p) ==
    LET gs == clx[c][g]
        s  == GSx(evx, gix, g, gs.chain) IN
    /\ V("st") => Chk("st", c, p.st = gs.rec.st, gs.rec.st)
    /\ V("mls") => Chk("mls", c, p.mls = gs.mls, gs.mls)
    /\ (gs.mls = "ok" /\ p.mls = "ok") =>
         \* (chain_ok = FALSE: the harness could not name the MLS state unambiguously; the epoch is still bound)
         /\ V("chain") => Chk("chain", c, (p.chain_ok => p.chain = gs.chain) /\ p.epoch = gix[g].base + Len(gs.chain), gs.chain)
         /\ V("members") => Chk("members", c, Range(p.members) = UsersOf(s.members), s.members)
         /\ V("pend") => Chk("pend", c, p.pend = (gs.pend # NoE), gs.pend)
         /\ V("props") => Chk("props", c, p.nprops = Cardinality(gs.props), gs.props)
         /\ V("mdata") => Chk("mdata", c, DataEq(s, p.mdata), s)
    /\ (gs.rec.st # "none" /\ p.st # "none") =>
         /\ V("rec") => Chk("rec", c, /\ p.rec.epoch = gs.rec.epoch
                                       /\ DataEq(gs.rec.data, p.rec)
                                       /\ p.rec.su = gs.rec.su, gs.rec)
         /\ V("last") => Chk("last", c, p.rec.last = gs.rec.last, gs.rec.last)
    /\ V("msgs") => Chk("msgs", c,
         {[id |-> x.id, state |-> x.state, epoch |-> x.epoch, author |-> x.author, w |-> x.w, content |-> x.content, idok |-> x.idok] : x \in Range(p.msgs)}
         = MsgsView(msgsx, c, g), MsgsView(msgsx, c, g))
    /\ V("proc") => Chk("proc", c,
         {[e |-> x.e, state |-> x.state, epoch |-> x.epoch] : x \in Range(p.proc)} = ProcView(procx, evx, c, g), ProcView(procx, evx, c, g))
    /\ V("snaps") => Chk("snaps", c,
         {[epoch |-> x.epoch, commit |-> x.commit] : x \in Range(p.snaps)}
         = {[epoch |-> x.epoch, commit |-> x.commit] : x \in gs.stored}, {[epoch |-> x.epoch, commit |-> x.commit] : x \in gs.stored})

\* read-only views of the same state: pending member changes, rotation obligation, group listing, pending welcomes
PostViews(c, g, p) ==
    LET gs == cl'[c][g] IN
    /\ (V("props") /\ "prem" \in DOMAIN p /\ gs.mls = "ok" /\ p.mls = "ok") =>
          /\ Chk("prem", c, Range(p.prem) = UsersOf(PropRemoves(gs.props)), gs.props)
          /\ Chk("padd", c, Range(p.padd) = {}, {})
    /\ (V("rec") /\ "nsu" \in DOMAIN p) =>
          /\ Chk("nsu", c, p.nsu = (gs.rec.st = "active" /\ gs.rec.su), gs.rec)
          /\ Chk("listed", c, p.listed = (gs.rec.st # "none"), gs.rec.st)
    /\ (V("welc") /\ "pwel" \in DOMAIN p) =>
          Chk("pwel", c, Range(p.pwel) = {w \in DOMAIN welc'[c] : wl'[w].g = g /\ welc'[c][w].st = "pending"}, welc'[c])
PostAll(c, g, p) == PostOK(cl', ev', ginfo', proc', msgs', c, g, p) /\ PostViews(c, g, p)
Post1 == PostAll(R.c, R.g, R.post)

NM(name) == [name |-> IF name # "" THEN name ELSE "unused" \o ToString(l), ts |-> R.ts, rank |-> R.rank, now |-> R.now,
             t |-> IF "t" \in DOMAIN R THEN R.t ELSE 0]

ResOK == V("res") => Chk("res", R.c, hist'.lastRes = R.res, hist'.lastRes)

-----------------------------------------------------------------------------
TMeta == R.op = "Reset" /\ Reset

TCreate ==
    /\ R.op = "Create"
    /\ CreateGroup(R.c, R.g, Range(R.members), UsersOf(Range(R.admins)), R.nid, R.base)
    /\ \A i \in DOMAIN R.posts : PostAll(R.posts[i].c, R.g, R.posts[i].post)

CommitArg == IF R.kind \in {"remove", "admins"} THEN UsersOf(Range(R.arg))       \* identities
             ELSE IF R.kind \in {"add", "relays"} THEN Range(R.arg)
             ELSE IF R.kind = "self_update" THEN {} ELSE R.arg

TCommit ==
    /\ R.op = "Commit"
    /\ IF R.res = "Ok"
       THEN /\ DoCommit(R.c, R.g, R.kind, CommitArg, NM(R.e),
                         IF R.kind = "add" THEN [u \in CommitArg |-> R.welcomes[CHOOSE i \in DOMAIN R.arg : R.arg[i] = u]] ELSE <<>>)
            /\ V("chain") => ev'[R.e].parent = R.parent
       ELSE /\ ~(CanCommit(R.c, R.g) /\ CommitAllowed(R.c, R.g, R.kind, CommitArg))
            /\ UNCHANGED vars
    /\ Post1

TMerge ==
    /\ R.op = "Merge"
    /\ IF R.res = "Ok" THEN MergePending(R.c, R.g)
       ELSE ~ENABLED MergePending(R.c, R.g) /\ UNCHANGED vars
    /\ Post1

TClear ==
    /\ R.op = "Clear"
    /\ IF R.res = "Ok" THEN ClearPending(R.c, R.g)
       ELSE ~ENABLED ClearPending(R.c, R.g) /\ UNCHANGED vars
    /\ Post1

TSend ==
    /\ R.op = "Send"
    /\ IF R.res = "Ok"
       THEN SendMessage(R.c, R.g, NM(R.e), [id |-> R.m, claimed |-> R.claimed, content |-> R.content, ca |-> R.mts, idr |-> R.idr, preset |-> ""])
       ELSE /\ ~CanSend(R.c, R.g)
            /\ UNCHANGED vars
    /\ Post1

TLeave ==
    /\ R.op = "Leave"
    /\ IF R.res = "Ok" THEN Leave(R.c, R.g, NM(R.e))
       ELSE /\ ~CanLeave(R.c, R.g)
            /\ UNCHANGED vars
    /\ Post1

TDeliver ==
    /\ R.op = "Deliver"
    /\ Deliver(R.c, R.e, NM(R.out))
    /\ ResOK
    /\ V("out") => (DOMAIN ev' \ DOMAIN ev) = (IF R.out = "" THEN {} ELSE {R.out})
    /\ V("notif") => Len(hist'.notifs) = Len(R.rollbacks)
    /\ Post1

TWelcome ==
    /\ R.op = "Welcome"
    /\ CASE R.what = "process" -> ProcessWelcome(R.c, R.w, R.x) /\ (V("res") => Chk("res", R.c, hist'.lastRes = R.res, hist'.lastRes))
         [] R.what = "accept"  -> IF R.res = "Ok" THEN AcceptWelcome(R.c, R.w)
                                  ELSE /\ ~ENABLED AcceptWelcome(R.c, R.w)
                                       /\ IF ENABLED WelcomeCallFails(R.c, R.w) THEN WelcomeCallFails(R.c, R.w) /\ R.res = "Err"
                                          ELSE UNCHANGED vars
         [] R.what = "decline" -> IF R.res = "Ok" THEN DeclineWelcome(R.c, R.w)
                                  ELSE /\ ~ENABLED DeclineWelcome(R.c, R.w)
                                       /\ IF ENABLED WelcomeCallFails(R.c, R.w) THEN WelcomeCallFails(R.c, R.w) /\ R.res = "Err"
                                          ELSE UNCHANGED vars
    /\ Post1
    /\ ("posts" \in DOMAIN R) => \A i \in DOMAIN R.posts : PostAll(R.c, R.posts[i].g, R.posts[i].post)

TDropKP ==
    /\ R.op = "DropKP"
    /\ IF R.res = "Ok" THEN DropKeyPackage(R.c, R.w) ELSE UNCHANGED vars
    /\ Post1

\* a no-op line that only compares projections (end of a directed scenario)
TSnapshot ==
    /\ R.op = "Snapshot"
    /\ UNCHANGED vars
    /\ \A i \in DOMAIN R.posts : PostAll(R.posts[i].c, R.posts[i].g, R.posts[i].post)

TForge ==
    /\ R.op = "Forge"
    /\ IF R.res = "Ok"
       THEN SendMessage(R.c, R.g, NM(R.e), [id |-> R.m, claimed |-> R.claimed, content |-> R.content, ca |-> R.mts, idr |-> R.idr, preset |-> R.preset])
       ELSE ~CanSend(R.c, R.g) /\ UNCHANGED vars
    /\ Post1

TRaw ==
    /\ R.op = "Raw"
    /\ IF R.res = "Ok"
       THEN IF R.kind = "prop_remove" THEN ProposeRemove(R.c, R.g, NM(R.e), R.arg[1])
            ELSE IF R.kind = "prop_update" THEN ProposeUpdate(R.c, R.g, NM(R.e))
            ELSE DoCommitX(R.c, R.g, CASE R.kind = "admins_self" -> "admins" [] R.kind = "update_identity" -> "idchange" [] OTHER -> R.kind,
                           CASE R.kind = "remove" -> Range(R.arg)
                             [] R.kind = "admins_self" -> GS(R.g, cl[R.c][R.g].chain).admins \cup {U(R.c)}
                             [] R.kind = "update_identity" -> [from |-> R.c, to |-> R.arg[1]]
                             [] OTHER -> R.arg,
                           NM(R.e), <<>>, TRUE)
       ELSE UNCHANGED vars          \* (the MLS library itself refused to build it; nothing is published)
    /\ (R.res = "Ok") => Post1

TJunk ==
    /\ R.op = "Junk"
    /\ IF R.res = "Ok" THEN PublishJunk(R.c, R.g, NM(R.e), R.class, R.tag, R.base, R.parent) ELSE UNCHANGED vars

TRestart ==
    /\ R.op = "Restart"
    /\ IF "ttl" \in DOMAIN R THEN RestartT(R.c, R.ttl, R.now) ELSE Restart(R.c)
    /\ \A i \in DOMAIN R.posts : PostAll(R.c, R.posts[i].g, R.posts[i].post)

TQuiesce ==
    /\ R.op = "Quiesce"
    /\ Quiesce
    /\ \A i \in DOMAIN R.posts : PostAll(R.posts[i].c, R.posts[i].g, R.posts[i].post)

TraceInit == Init /\ l = 2 /\ deep = {}

TraceNext ==
    /\ l <= Len(Rec)
    /\ l' = l + 1
    \* history of over-deep forks, one step behind (it is only consulted at Quiesce lines): recomputed when the previous line may
    \* have moved a chain or published a commit
    /\ deep' = IF R.op = "Reset" THEN {}
               ELSE IF l > 2 /\ Rec[l - 1].op \in {"Commit", "Merge", "Raw", "Welcome", "Deliver"}
                       /\ (Rec[l - 1].op = "Deliver" => Rec[l - 1].res \in {"Commit", "Proposal"})
                    THEN deep \cup UNION {
                           IF Created(g) /\ \E c \in Clients : Len(cl[c][g].chain) > Retention
                           THEN LET W == Winner(g) IN
                                {<<c, g>> : c \in {x \in Clients : Len(cl[x][g].chain) - CommonPrefixLen(cl[x][g].chain, W, 0) > Retention}}
                           ELSE {} : g \in Groups}
                    ELSE deep
    /\ \/ TMeta \/ TCreate \/ TCommit \/ TMerge \/ TClear \/ TSend \/ TLeave \/ TDeliver \/ TQuiesce \/ TWelcome \/ TRestart \/ TSnapshot \/ TJunk \/ TForge \/ TRaw \/ TDropKP

ObsSame(c) == ObsOf(c)' = ObsOf(c)
\* property invariants, evaluated by TLC in every state of every real trace
InvC01 == hist.q => C01_Excused
InvC01Plain == hist.q => C01_Plain
InvC02 == hist.q => C02_Excused
InvC03 == C03_OnlyMembers
\* a client without an operational MLS group (never joined, pending, evicted) neither reads nor sends
ActC03 == [][\A c \in Clients : (R.op \in {"Deliver", "Send"} /\ R.c = c /\ cl[c][R.g].mls # "ok")
                                  => (R.res \notin {"App", "Ok"} /\ msgs'[c] = msgs[c])]_tvars
InvC08 == C08_Mirror
InvC18 == C18_Pointer
InvC04 == C04_Bound
ActC04 == [][\A c \in Clients : (R.op = "Deliver" /\ R.c = c /\ R.e \in DOMAIN ev) => C04_NoForeignWrite(c, R.e)]_tvars
InvC05 == C05_ChainAuthorised /\ C05_NoSweep
\* C06: no panic anywhere; a refused process_message leaves everything observable as it was
ActC06 == [][/\ ("res" \in DOMAIN R) => R.res # "Panic"
             /\ \A c \in Clients : (R.op = "Deliver" /\ R.c = c /\ R.res \in Refusals /\ R.e \in DOMAIN ev)
                   => \/ ObsSame(c)
                      \/ /\ Excused_RefusedLeaveQueued(c, R.e)
                         /\ PrintT(<<"KNOWN-FINDING", "C06", "RefusedLeaveStaysQueued", c, R.e>>)
                      \/ /\ "SyncFailsAfterMerge" \in Dev /\ <<c, R.g>> \in hist'.syncFail
                         /\ PrintT(<<"KNOWN-FINDING", "C06", "SyncFailsAfterMerge", c, R.e>>)
                      \/ /\ "RollbackBeforeValidation" \in Dev
                         /\ hist'.notifs # <<>>         \* rolled back, then the candidate turned out not to apply
                         /\ PrintT(<<"KNOWN-FINDING", "C06", "RollbackBeforeValidation", c, R.e>>)
                      \/ (PrintT("VIOLATION-DETAIL " \o ToString(<<"C06 refused event changed state", c, R.e, R.res>>)) /\ FALSE)]_tvars
InvC16 == C16_ConsentGated
\* no invitation modifies or disables a group in which the user is already an active member
ActC16 == [][\A c \in Clients, g \in Groups :
               (R.op = "Welcome" /\ R.c = c /\ R.g = g /\ cl[c][g].rec.st = "active" /\ cl[c][g].mls = "ok")
               => \/ GroupObs(c, g)' = GroupObs(c, g)
                  \/ /\ "WelcomeOverwritesActiveGroup" \in Dev
                     /\ PrintT(<<"KNOWN-FINDING", "C16", "WelcomeOverwritesActiveGroup", c, g>>)]_tvars
\* accepting puts the joiner in exactly the inviter's post-commit state with a pending obligation to rotate its key
ActC16Join == [][\A c \in Clients : (R.op = "Welcome" /\ R.c = c /\ R.what = "accept" /\ R.res = "Ok")
               => (cl'[c][R.g].chain = wl[R.w].chain /\ cl'[c][R.g].mls = "ok" /\ cl'[c][R.g].rec.su
                   /\ cl'[c][R.g].rec.st = "active")]_tvars
\* action properties on the real trace
ActC02 == [][C02_ContentImmutable \/ R.op = "Reset"]_tvars
\* (bound variables are rigid: priming ObsOf(R.c) would read the *next* trace line)
ActC07 == [][\A c \in Clients : (R.op = "Deliver" /\ R.c = c /\ R.e \in DOMAIN ev /\ Handled(c, R.e))
                  => \/ ObsSame(c)
                     \* a record overwritten by a welcome (listed finding) is brought back in line with the MLS group by the re-sync
                     \* that a re-delivered, already applied commit performs
                     \/ /\ "WelcomeOverwritesActiveGroup" \in Dev /\ <<c, ev[R.e].g>> \in hist.wreset
                        /\ PrintT(<<"KNOWN-FINDING", "C07", "WelcomeOverwritesActiveGroup", c, R.e>>)
                     \* finding TamperedOwnEchoStampsSnapshot: c applied its own commit R.e through a TAMPERED copy of it (which made
                     \* it merge the pending commit and stamped the rollback snapshot with the copy's wrapper timestamp / id); the
                     \* genuine echo then looks "better": rollback and re-merge, which drops whatever c has pending since
                     \/ /\ "TamperedOwnEchoStampsSnapshot" \in Dev
                        /\ ev[R.e].kind = "commit" /\ ev[R.e].author = c
                        /\ \E j \in DOMAIN ev : ev[j].kind = "junk" /\ ev[j].base = R.e /\ <<c, j>> \in hist.tried
                        /\ hist'.notifs # <<>>
                        /\ PrintT(<<"KNOWN-FINDING", "C07", "TamperedOwnEchoStampsSnapshot", c, R.e>>)]_tvars
InvC20 == C20_Bounded
\* start-up leaves no snapshot older than the configured time-to-live (ages by the driver's own clock, not the store's stamps)
ActC20 == [][(R.op = "Restart" /\ "ttl" \in DOMAIN R)
              => \A g \in Groups : \A s \in cl'[R.c][g].stored : ~Expired(s, R.ttl, R.now)]_tvars
InvSecrets == SecretsMatch

\* development aid: STOPAT=<line> makes TLC print the state reached just before that line
DebugStop == ~("STOPAT" \in DOMAIN IOEnv /\ ToString(l) = IOEnv.STOPAT)

TraceSpec == TraceInit /\ [][TraceNext]_tvars

\* acceptance: the whole trace was consumed
TraceAccepted ==
    LET d == TLCGet("stats").diameter IN
    IF d - 1 = Len(Rec) - 1 THEN TRUE
    ELSE /\ PrintT(<<"TRACE-REJECTED at line", d + 1, Rec[d + 1]>>)
         /\ FALSE
=============================================================================
