------------------------------- MODULE Marmot -------------------------------
(***************************************************************************)
(* Marmot / mdk at the level of one public API call = one atomic action.   *)
(*                                                                         *)
(* Clients own groups; they exchange published kind-445 events (commits,   *)
(* proposals, application messages) through an unordered, duplicating      *)
(* medium: any client may be handed any published event at any time, any   *)
(* number of times (action Deliver).  The reaction of a client to an event *)
(* is the pure operator Process, written branch by branch after           *)
(* mdk-core/src/messages/{process,decryption,application,proposal,commit,  *)
(* error_handling}.rs.  MLS itself (OpenMLS) is abstracted to the contract *)
(* mdk relies on: a group state is the *chain* of commits applied since    *)
(* creation.                                                               *)
(*                                                                         *)
(* Deviation flags (constant Dev): where the code as built does something  *)
(* a listed property cannot live with, both branches are written.          *)
(*   Dev = {}      : intended design                                       *)
(*   Dev = AsBuilt : what the code does (used for all conformance runs)    *)
(***************************************************************************)
EXTENDS Naturals, Integers, Sequences, FiniteSets, TLC, SequencesExt, FiniteSetsExt

CONSTANTS
    Clients,      \* set of client names (strings); one user per client
    Groups,       \* set of group names (strings)
    Retention,    \* epoch_snapshot_retention
    Lookback,     \* DEFAULT_EPOCH_LOOKBACK (5 in the code)
    MaxPast,      \* max_past_epochs
    Sql,          \* clients on the persistent (SQLite) backend
    Dev           \* set of deviation flags switched on

VARIABLES
    ginfo,   \* g -> [base, init] once created ("none" before): static facts about the group
    ev,      \* event name -> event record (everything ever published)
    cl,      \* client -> group -> group-scoped client state
    proc,    \* client -> (event name -> dedup record)
    msgs,    \* client -> (<<g, message id>> -> stored message)
    snapq,   \* client -> group -> in-memory snapshot queue (EpochSnapshotManager)
    hyd,     \* client -> set of groups hydrated since the last (re)start
    withdrawn, \* events created but never published (pending commit cleared before publication)
    wl,      \* welcome name -> [g, to, chain, commit, inviter]: invitations produced by add commits
    welc,    \* client -> (welcome name -> [st: "pending" | "accepted" | "declined", x: wrapper id it was last stored under])
    pwelc,   \* client -> (welcome name -> "processed" | "failed"): processed-welcome records
    hist     \* history / observation variables (never read by actions; hidden by VIEW in MC)

vars == <<ginfo, ev, cl, proc, msgs, snapq, hyd, withdrawn, wl, welc, pwelc, hist>>

\* The Nostr identity (user) a client acts for. Several clients -- devices -- may share one identity: each has its own leaf,
\* key packages and storage, while admin rights, authorship of messages and removal by an admin go by identity.
\* Group state: `members` is a set of clients (leaves), `admins` a set of users.   (overridden by the trace cfg)
U(c) == c
UsersOf(S) == {U(x) : x \in S}

NoE == ""          \* "no event"
NoEpoch == -1      \* "epoch unknown"

IsPrefixEq(s, t) == Len(s) <= Len(t) /\ SubSeq(t, 1, Len(s)) = s
TakeLast(s, n) == IF Len(s) <= n THEN s ELSE SubSeq(s, Len(s) - n + 1, Len(s))

-----------------------------------------------------------------------------
(* Group state as a function of the chain.                                  *)

NoGroupState == [members |-> {}, admins |-> {}, name |-> "", desc |-> "", nid |-> "", relays |-> {}]
NoGInfo == [base |-> -1, init |-> NoGroupState]
Created(g) == ginfo[g].base # -1

\* the MLS group state reached by applying `chain` to group g
GS(g, chain) == IF chain = <<>> THEN ginfo[g].init ELSE ev[Last(chain)].result
EpochOf(g, chain) == ginfo[g].base + Len(chain)

\* total MIP-03 order on events: earlier timestamp first, then smaller id
Better(a, b) == \/ ev[a].ts < ev[b].ts
                \/ ev[a].ts = ev[b].ts /\ ev[a].rank < ev[b].rank

-----------------------------------------------------------------------------
(* Client state.                                                            *)

NoKey == [ca |-> -1, pa |-> -1, idr |-> -1]
NoRecord == [st |-> "none", epoch |-> NoEpoch, data |-> NoGroupState, last |-> NoE, lkey |-> NoKey, su |-> FALSE]

\* group-scoped state: exactly what a storage snapshot captures and a rollback restores
NoGroup == [ mls      |-> "none",    \* "none" | "ok" | "evicted"
             chain    |-> <<>>,
             pend     |-> NoE,       \* own pending commit (event name)
             props    |-> {},        \* queued proposals (event names)
             secrets  |-> <<>>,      \* stored exporter secrets: sequence of [epoch, chain] (a map by epoch)
             past     |-> <<>>,      \* chains of past epochs whose message secrets MLS still holds
             consumed |-> {},        \* ratchet generations used: records [a (sender), ch (chain), t ("hs"|"app"), n]
             sentH    |-> 0,         \* own handshake-ratchet generation (commits, proposals) in the current epoch
             sentA    |-> 0,         \* own application-ratchet generation in the current epoch
             rec      |-> NoRecord,  \* the denormalised group record
             stored   |-> {} ]       \* snapshots in storage: set of [epoch, commit, snap]

SecretAt(gs, n) == LET hits == {i \in DOMAIN gs.secrets : gs.secrets[i].epoch = n}
                   IN  IF hits = {} THEN <<"absent">> ELSE <<"chain", gs.secrets[CHOOSE i \in hits : TRUE].chain>>
\* exporter_secret(): the secret of the current epoch is derived from the MLS group; a stored one that stems from another
\* branch held earlier under the same epoch number is replaced (before the fix -- deviation StaleSecretTrusted, which TLC
\* found as a violation of SecretsMatch -- a stored entry was trusted)
PutSecret(gs, n, ch) == IF SecretAt(gs, n)[1] = "absent"
                        THEN [gs EXCEPT !.secrets = Append(@, [epoch |-> n, chain |-> ch])]
                        ELSE IF SecretAt(gs, n)[2] = ch \/ "StaleSecretTrusted" \in Dev THEN gs
                        ELSE [gs EXCEPT !.secrets = Append(SelectSeq(@, LAMBDA x : x.epoch # n), [epoch |-> n, chain |-> ch])]

\* what a snapshot copies (everything group-scoped except the snapshots themselves)
SnapOf(gs) == [mls |-> gs.mls, chain |-> gs.chain, pend |-> gs.pend, props |-> gs.props,
               secrets |-> gs.secrets, past |-> gs.past, consumed |-> gs.consumed, rec |-> gs.rec,
               sentH |-> gs.sentH, sentA |-> gs.sentA]
Restore(gs, s) == [gs EXCEPT !.mls = s.mls, !.chain = s.chain, !.pend = s.pend, !.props = s.props,
                             !.secrets = s.secrets, !.past = s.past, !.consumed = s.consumed, !.rec = s.rec,
                             !.sentH = s.sentH, !.sentA = s.sentA]

\* the ratchet generation an event occupies
Gen(e) == [a |-> ev[e].author, ch |-> ev[e].parent, t |-> IF ev[e].kind = "app" THEN "app" ELSE "hs", n |-> ev[e].gen]

\* sender-ratchet windows (MdkConfig.out_of_order_tolerance / maximum_forward_distance; overridden by the trace cfg).
\* A receiver's ratchet for (sender, epoch, type) stands at head = 1 + the highest generation it has decrypted; it hands out
\* a generation once, at most MFD ahead of the head and at most OOT behind it.
OOT == 100
MFD == 1000
RatchetHead(gs, G) == LET used == {x.n : x \in {y \in gs.consumed : y.a = G.a /\ y.ch = G.ch /\ y.t = G.t}}
                      IN  IF used = {} THEN 0 ELSE 1 + CHOOSE m \in used : \A k \in used : k <= m
Decryptable(gs, G) == LET h == RatchetHead(gs, G) IN
    /\ G \notin gs.consumed
    /\ G.n <= h + MFD
    /\ G.n >= h \/ h - G.n <= OOT

NoProc == [state |-> "none", epoch |-> NoEpoch, g |-> ""]
ProcOf(cs, e) == IF e \in DOMAIN cs.proc THEN cs.proc[e] ELSE NoProc
SetProc(cs, e, state, g, epoch) ==
    [cs EXCEPT !.proc = (e :> [state |-> state, epoch |-> epoch, g |-> g]) @@ @]

\* record_failure: Failed; provided epoch/group else the existing record's
RecordFailure(cs, e, g, epoch) ==
    LET old == ProcOf(cs, e)
        ep  == IF epoch # NoEpoch THEN epoch ELSE old.epoch
        gg  == IF g # "" THEN g ELSE old.g
    IN  SetProc(cs, e, "failed", gg, ep)

Cur(cs, g) == EpochOf(g, cs.g[g].chain)
MlsState(cs, g) == GS(g, cs.g[g].chain)

\* sync_group_metadata_from_mls: record := what the MLS state says
\* When the synced epoch is ahead of the stored record's, the events recorded Failed because they could not be decrypted
\* (no epoch determined) become Retryable: they may have been made for the epoch just reached -- a commit or message handed
\* over ahead of its predecessor.  (before the fix -- deviation UndecryptableNeverRetried -- only a rollback did that)
Sync(cs, g) ==
    LET adv   == Cur(cs, g) > cs.g[g].rec.epoch /\ "UndecryptableNeverRetried" \notin Dev
        retry == {x \in DOMAIN cs.proc : cs.proc[x].g = g /\ cs.proc[x].state = "failed" /\ cs.proc[x].epoch = NoEpoch}
        cs1   == [cs EXCEPT !.g[g].rec.epoch = Cur(cs, g), !.g[g].rec.data = MlsState(cs, g)]
    IN  IF adv THEN [cs1 EXCEPT !.proc = [x \in DOMAIN @ |-> IF x \in retry THEN [@[x] EXCEPT !.state = "retryable"] ELSE @[x]]]
        ELSE cs1

-----------------------------------------------------------------------------
(* Message ordering (C18): default display order created_at, processed_at, id DESC *)
MsgKeyLess(a, b) == \/ a.ca < b.ca
                    \/ a.ca = b.ca /\ a.pa < b.pa
                    \/ a.ca = b.ca /\ a.pa = b.pa /\ a.idr < b.idr

\* Group::update_last_message_if_newer against the cached triple
UpdateLast(cs, g, mid, m) ==
    LET r == cs.g[g].rec
        k == [ca |-> m.ca, pa |-> m.pa, idr |-> m.idr] IN
    IF r.last = NoE \/ MsgKeyLess(r.lkey, k)
    THEN [cs EXCEPT !.g[g].rec.last = mid, !.g[g].rec.lkey = k]
    ELSE cs

-----------------------------------------------------------------------------
(* Snapshot manager (epoch_snapshots.rs)                                    *)

\* ensure_hydrated (persistent backends, first touch of the manager for g after a (re)start): the queue is
\* rebuilt from the stored snapshot names in creation order; the applied commit's timestamp is not stored, so
\* hydrated entries carry ts = 0 ("HydratedNoTimestamp": never comparable), unless the deviation is off
RECURSIVE SeqOfStored(_)
SeqOfStored(S) == IF S = {} THEN <<>>
                  ELSE LET m == CHOOSE x \in S : \A y \in S : x.seq <= y.seq
                       IN  <<m>> \o SeqOfStored(S \ {m})
Hydrate(cs0, g) ==
    IF ~cs0.sql \/ g \in cs0.hyd THEN cs0
    ELSE LET all  == SeqOfStored(cs0.g[g].stored)
             q1   == [i \in DOMAIN all |-> [epoch |-> all[i].epoch, commit |-> all[i].commit,
                                            ts |-> IF "HydratedNoTimestamp" \in Dev THEN 0 ELSE ev[all[i].commit].ts]]
             drop == IF Len(q1) > Retention THEN Len(q1) - Retention ELSE 0
             gone == {<<q1[i].epoch, q1[i].commit>> : i \in 1..drop}
         IN  [cs0 EXCEPT !.q[g] = SubSeq(q1, drop + 1, Len(q1)),
                         !.g[g].stored = {x \in @ : <<x.epoch, x.commit>> \notin gone},
                         !.hyd = @ \cup {g}]

\* create_snapshot: store, push, prune queue to Retention (releasing the pruned ones)
TakeSnapshot(cs00, g, e) ==
    LET cs    == Hydrate(cs00, g)
        gs    == cs.g[g]
        entry == [epoch |-> Cur(cs, g), commit |-> e, ts |-> ev[e].ts]
        nseq  == 1 + (IF gs.stored = {} THEN 0 ELSE CHOOSE m \in {x.seq : x \in gs.stored} : \A y \in gs.stored : y.seq <= m)
        st1   == {s \in gs.stored : ~(s.epoch = entry.epoch /\ s.commit = e)}
                   \cup {[epoch |-> entry.epoch, commit |-> e, seq |-> nseq, snap |-> SnapOf(gs), born |-> cs.now]}
        \* one queue entry per stored snapshot: re-applying the same commit at the same epoch replaces its entry
        q1    == Append(SelectSeq(cs.q[g], LAMBDA x : ~(x.epoch = entry.epoch /\ x.commit = e)), entry)
        drop  == IF Len(q1) > Retention THEN Len(q1) - Retention ELSE 0
        gone  == {<<q1[i].epoch, q1[i].commit>> : i \in 1..drop}
        q2    == SubSeq(q1, drop + 1, Len(q1))
        st2   == {s \in st1 : <<s.epoch, s.commit>> \notin gone}
    IN  [cs EXCEPT !.g[g].stored = st2, !.q[g] = q2]

\* first queue entry for epoch n (0 if none)
SnapIdx(cs, g, n) == LET hits == {i \in DOMAIN cs.q[g] : cs.q[g][i].epoch = n}
                     IN  IF hits = {} THEN 0 ELSE CHOOSE i \in hits : \A j \in hits : i <= j

IsBetterCandidate(cs, g, n, e) ==
    LET i == SnapIdx(cs, g, n) IN
    /\ i # 0
    /\ cs.q[g][i].ts # 0
    /\ \/ ev[e].ts < cs.q[g][i].ts
       \/ ev[e].ts = cs.q[g][i].ts /\ ev[e].rank < ev[cs.q[g][i].commit].rank

\* rollback_to_epoch (precondition: a queue entry for n exists and its snapshot is stored)
HasStored(cs, g, i) == \E s \in cs.g[g].stored : s.epoch = cs.q[g][i].epoch /\ s.commit = cs.q[g][i].commit
RollbackTo(cs, g, n) ==
    LET i     == SnapIdx(cs, g, n)
        ent   == cs.q[g][i]
        sn    == CHOOSE s \in cs.g[g].stored : s.epoch = ent.epoch /\ s.commit = ent.commit
        gone  == {<<cs.q[g][j].epoch, cs.q[g][j].commit>> : j \in i..Len(cs.q[g])}
        gs1   == Restore(cs.g[g], sn.snap)
        gs2   == [gs1 EXCEPT !.stored = {s \in cs.g[g].stored : <<s.epoch, s.commit>> \notin gone}]
    IN  [cs EXCEPT !.g[g] = gs2, !.q[g] = SubSeq(cs.q[g], 1, i - 1)]

-----------------------------------------------------------------------------
(* Commit effects                                                           *)

\* proposals queued by reference contribute their effect to the commit that sweeps them up
\* a queued proposal is identified by its content (two leave events of one member in one epoch are
\* the same MLS proposal: deterministic signature, same ProposalRef)
\* (every Update proposal carries a fresh leaf node, so two of them are never the same proposal: its target is the event itself)
Pid(e) == [a |-> ev[e].author, k |-> ev[e].pkind, t |-> ev[e].target]
PropRemoves(P) == {p.t : p \in {q \in P : q.k \in {"leave", "remove"}}}

ApplyEff(gs0, eff, P) ==
    \* remove_members names identities: every leaf of a removed user goes; proposals (leave / Remove) name single leaves
    LET m1 == (gs0.members \cup eff.add) \ ({x \in gs0.members : U(x) \in eff.rem} \cup PropRemoves(P)) IN
    [ members |-> m1,
      admins  |-> IF eff.kind = "admins" THEN eff.set ELSE gs0.admins,
      name    |-> IF eff.kind = "rename" THEN eff.str ELSE gs0.name,
      desc    |-> IF eff.kind = "redesc" THEN eff.str ELSE gs0.desc,
      nid     |-> IF eff.kind = "rotate" THEN eff.str ELSE gs0.nid,
      relays  |-> IF eff.kind = "relays" THEN eff.set ELSE gs0.relays ]

NoEff == [kind |-> "none", add |-> {}, rem |-> {}, str |-> "", set |-> {}]
Eff(kind, arg) ==
    CASE kind = "self_update" -> [NoEff EXCEPT !.kind = kind]
      [] kind = "propcommit"  -> [NoEff EXCEPT !.kind = kind]
      [] kind = "add"         -> [NoEff EXCEPT !.kind = kind, !.add = arg]
      [] kind = "remove"      -> [NoEff EXCEPT !.kind = kind, !.rem = arg]
      [] kind \in {"rename", "redesc", "rotate"} -> [NoEff EXCEPT !.kind = kind, !.str = arg]
      [] kind \in {"admins", "relays"} -> [NoEff EXCEPT !.kind = kind, !.set = arg]
      \* a leaf update that swaps the committer's Nostr identity for arg.to (raw MLS only): arg = [from, to]
      [] kind = "idchange" -> [NoEff EXCEPT !.kind = kind, !.rem = {arg.from}, !.add = {arg.to}]

PureSelfUpdate(e) == ev[e].eff.kind = "self_update" /\ ev[e].refs = {}
\* what mdk's authorisation check takes for a pure self-update (an identity swap also has an update path only)
LooksLikeSelfUpdate(e) == ev[e].eff.kind \in {"self_update", "idchange"} /\ ev[e].refs = {}

-----------------------------------------------------------------------------
(* Process: the reaction of a client to one event.                          *)
(* cs = [g, proc, msgs, q, notif, out]; result = [cs, res]                  *)

Ret(cs, res) == [cs |-> cs, res |-> res]

\* route by the h tag: the group whose stored record carries that nostr id
RouteSet(cs, nid) == {g \in Groups : cs.g[g].rec.st # "none" /\ cs.g[g].rec.data.nid = nid}

FailUnprocessable(cs, e, g, recEpoch) == Ret(RecordFailure(cs, e, g, recEpoch), "Unprocessable")

\* merging any commit k on the current chain (shared by K, O and merge_pending_commit)
Merged(cs, g, k) ==
    LET gs == cs.g[g] IN
    [cs EXCEPT !.g[g].chain = Append(gs.chain, k),
               !.g[g].pend  = NoE,
               !.g[g].props = {},
               !.g[g].past  = TakeLast(Append(gs.past, gs.chain), MaxPast),
               !.g[g].sentH = 0, !.g[g].sentA = 0]

\* the group data of g's MLS state carries a nostr id that another group's stored record already uses
NidCollides(cs, g) == \E h \in Groups \ {g} : cs.g[h].rec.st # "none" /\ cs.g[h].rec.data.nid = MlsState(cs, g).nid

\* post-merge bookkeeping of process_commit / own-commit echo
AfterMerge(cs0, g, e, oldRecEpoch, c, isSelfUpd) ==
    LET k == cs0.g[g].chain[Len(cs0.g[g].chain)] IN         \* the commit just merged
    \* own leaf gone?  (a committer that swapped its own identity still owns its leaf)
    IF c \notin MlsState(cs0, g).members /\ ~(ev[k].eff.kind = "idchange" /\ ev[k].author = c)
    THEN \* handle_local_member_eviction
         LET cs1 == [cs0 EXCEPT !.g[g].mls = "evicted", !.g[g].rec.st = "inactive"]
         IN  Ret(SetProc(cs1, e, "processed", g, oldRecEpoch), "Commit")
    ELSE LET cs1 == [cs0 EXCEPT !.g[g] = PutSecret(@, Cur(cs0, g), cs0.g[g].chain)]
             cs2 == Sync(cs1, g)
             cs3 == IF isSelfUpd THEN [cs2 EXCEPT !.g[g].rec.su = FALSE] ELSE cs2
         IN  \* finding SyncFailsAfterMerge: the new group data cannot be stored (its nostr id belongs to another group this
             \* client holds): the commit is already merged, the record stays behind and the call is refused
             IF NidCollides(cs1, g)
             THEN Ret([RecordFailure(cs1, e, g, oldRecEpoch) EXCEPT !.syncfail = @ \cup {g}], "Unprocessable")
             ELSE Ret(SetProc(cs3, e, "processed_commit", g, Cur(cs3, g)), "Commit")

\* the id a rumor is stored under: recomputed from its content, unless the (fixed) defect of trusting a pre-set id is on
StoreKey(m) == IF "RumorIdTrusted" \in Dev /\ m.preset # "" THEN m.preset ELSE m.id

\* A: application message accepted by MLS
ProcApp(cs, c, e, g, recEpoch, nm) ==
    LET E    == ev[e]
        m    == E.msg
        cur  == Cur(cs, g) IN
    IF U(m.claimed) # U(E.author) THEN FailUnprocessable(cs, e, g, recEpoch)   \* AuthorMismatch
    ELSE LET filed == IF "AppFiledUnderReceiverEpoch" \in Dev THEN cur ELSE EpochOf(g, E.parent)
             rowm  == [author |-> U(m.claimed), state |-> "processed", epoch |-> filed, w |-> e,
                       content |-> m.content, ca |-> m.ca, pa |-> nm.now, idr |-> m.idr, idok |-> StoreKey(m) = m.id]
             cs1   == [cs EXCEPT !.msgs = (<<g, StoreKey(m)>> :> rowm) @@ @]
             cs2   == SetProc(cs1, e, "processed", g, filed)
         IN  Ret(UpdateLast(cs2, g, StoreKey(m), rowm), "App")

\* P: proposal accepted by MLS
ProcProposal(cs, c, e, g, recEpoch, nm) ==
    LET E == ev[e]
        cur == Cur(cs, g)
        amAdmin == U(c) \in MlsState(cs, g).admins IN
    CASE E.pkind \in {"add", "remove"} \/ (E.pkind = "leave" /\ ~amAdmin) ->
            Ret(SetProc([cs EXCEPT !.g[g].props = @ \cup {Pid(e)}], e, "processed", g, cur), "PendingProposal")
      [] E.pkind = "leave" /\ amAdmin ->
            IF cs.g[g].pend # NoE \/ c \in PropRemoves(cs.g[g].props \cup {Pid(e)})
            THEN \* commit_to_pending_proposals fails (a pending commit exists, or the queue holds the
                 \* committer's own removal); the proposal stays queued and is reported as pending
                 \* (before the fix -- deviation RefusedLeaveStaysQueued -- the call was refused although it had queued it)
                 IF "RefusedLeaveStaysQueued" \in Dev
                 THEN FailUnprocessable([cs EXCEPT !.g[g].props = @ \cup {Pid(e)}], e, g, recEpoch)
                 ELSE Ret(SetProc([cs EXCEPT !.g[g].props = @ \cup {Pid(e)}], e, "processed", g, cur), "PendingProposal")
            ELSE LET cs1 == [cs EXCEPT !.g[g].props = @ \cup {Pid(e)}]
                     cs2 == [cs1 EXCEPT !.g[g].pend = nm.name, !.g[g].sentH = @ + 1,
                                        !.out = Append(@, [name |-> nm.name, kind |-> "commit", g |-> g, author |-> c, gen |-> cs.g[g].sentH,
                                                           parent |-> cs.g[g].chain, ts |-> nm.ts, rank |-> nm.rank,
                                                           tag |-> cs.g[g].rec.data.nid,
                                                           \* (the MLS library drops the committer's own Update proposals)
                                                           eff |-> Eff("propcommit", {}),
                                                           refs |-> {p \in cs1.g[g].props : ~(p.k = "update" /\ p.a = c)},
                                                           result |-> ApplyEff(MlsState(cs, g), Eff("propcommit", {}),
                                                                               {p \in cs1.g[g].props : ~(p.k = "update" /\ p.a = c)})])]
                 IN  Ret(SetProc(cs2, e, "processed", g, cur), "Proposal")
      [] OTHER -> Ret(SetProc(cs, e, "processed", g, cur), "IgnoredProposal")

\* K: staged commit accepted by MLS
ProcCommit(cs, c, e, g, recEpoch) ==
    LET E   == ev[e]
        gs0 == MlsState(cs, g) IN
    IF U(E.author) \notin gs0.admins /\ ~LooksLikeSelfUpdate(e)
    THEN Ret(RecordFailure(cs, e, g, recEpoch), "Err")                      \* CommitFromNonAdmin
    ELSE IF E.eff.kind = "idchange"
    THEN FailUnprocessable(cs, e, g, recEpoch)                               \* IdentityChangeNotAllowed
    ELSE LET cs1 == TakeSnapshot(cs, g, e)
             cs2 == Merged(cs1, g, e)
         IN  AfterMerge(cs2, g, e, recEpoch, c, FALSE)

\* O: echo of an own commit while a pending commit exists: snapshot under e's id, merge the pending one
ProcOwnPending(cs, c, e, g, recEpoch) ==
    LET k   == cs.g[g].pend
        cs1 == TakeSnapshot(cs, g, e)
        cs2 == Merged(cs1, g, k)
    IN  AfterMerge(cs2, g, e, recEpoch, c, ev[k].eff.kind = "self_update" /\ ev[k].refs = {})

\* an own commit met again: the record is re-synced from the MLS group -- which fails, without any effect, while the group's
\* nostr id collides with another held group's (the state the finding SyncFailsAfterMerge leaves behind)
SyncedOwnCommit(cs, g) == IF NidCollides(cs, g) THEN Ret(cs, "Err") ELSE Ret(Sync(cs, g), "Commit")

\* C: own message that MLS cannot decrypt
ProcOwnEcho(cs, c, e, g) ==
    LET r == ProcOf(cs, e) IN
    CASE r.state = "none" -> Ret(cs, "Err")
      [] r.state \in {"created", "retryable"} ->
            LET mk == <<g, StoreKey(ev[e].msg)>> IN
            IF ev[e].kind = "app" /\ mk \in DOMAIN cs.msgs
            THEN Ret(SetProc([cs EXCEPT !.msgs[mk].state = "processed"], e, "processed", r.g, r.epoch), "App")
            ELSE IF r.state = "created" THEN Ret(cs, "Err") ELSE Ret(cs, "Unprocessable")
      [] r.state = "processed_commit" -> SyncedOwnCommit(cs, g)
      [] OTHER -> Ret(cs, "Unprocessable")

RECURSIVE Process(_, _, _, _, _)

\* W: epoch mismatch (isCommit: the MLS framing says "commit")
ProcWrongEpoch(cs0, c, e, g, recEpoch, nm, n, isCommit) ==
    LET cs == IF isCommit THEN Hydrate(cs0, g) ELSE cs0 IN                   \* is_better_candidate hydrates first
    IF (isCommit \/ "StaleHandshakeRollback" \in Dev)                    \* only commits compete for an epoch
       /\ IsBetterCandidate(cs, g, n, e) /\ HasStored(cs, g, SnapIdx(cs, g, n))
    THEN LET cs1 == RollbackTo(cs, g, n)
             inv == {k \in DOMAIN cs1.msgs : k[1] = g /\ cs1.msgs[k].epoch > n}
             cs2a == [cs1 EXCEPT !.msgs = [k \in DOMAIN @ |-> IF k \in inv THEN [@[k] EXCEPT !.state = "epoch_invalidated"] ELSE @[k]]]
             \* the snapshot brought back the pointer cached when it was taken; it is recomputed from the stored messages
             \* (as built before the fix -- deviation RollbackStalePointer -- the restored pointer was kept)
             V     == {k \in DOMAIN cs2a.msgs : k[1] = g /\ cs2a.msgs[k].state # "epoch_invalidated"}
             top   == CHOOSE k \in V : \A j \in V \ {k} : MsgKeyLess(cs2a.msgs[j], cs2a.msgs[k])
             cs2   == IF "RollbackStalePointer" \in Dev THEN cs2a
                      ELSE IF V = {} THEN [cs2a EXCEPT !.g[g].rec.last = NoE, !.g[g].rec.lkey = NoKey]
                      ELSE [cs2a EXCEPT !.g[g].rec.last = top[2],
                                        !.g[g].rec.lkey = [ca |-> cs2a.msgs[top].ca, pa |-> cs2a.msgs[top].pa, idr |-> cs2a.msgs[top].idr]]
             cs3 == [cs2 EXCEPT !.proc = [x \in DOMAIN @ |->
                                   IF @[x].g = g /\ @[x].epoch # NoEpoch /\ @[x].epoch > n
                                   THEN [@[x] EXCEPT !.state = "epoch_invalidated"] ELSE @[x]]]
             retry == {x \in DOMAIN cs3.proc : cs3.proc[x].g = g /\ cs3.proc[x].state = "failed" /\ cs3.proc[x].epoch = NoEpoch}
             cs4 == [cs3 EXCEPT !.proc = [x \in DOMAIN @ |-> IF x \in retry THEN [@[x] EXCEPT !.state = "retryable"] ELSE @[x]]]
             cs5 == [cs4 EXCEPT !.notif = Append(@, [g |-> g, target |-> n, head |-> e,
                                                      invalidated |-> {k[2] : k \in inv}, refetch |-> retry])]
         IN  Process(cs5, c, e, nm, FALSE)
    ELSE IF ProcOf(cs, e).state = "processed_commit" THEN SyncedOwnCommit(cs, g)
    ELSE FailUnprocessable(cs, e, g, recEpoch)

\* c hands itself event e.  nm = [name, ts, rank] for an event the call may create.
Process(cs, c, e, nm, first) ==
    LET E == ev[e]
        r == ProcOf(cs, e) IN
    \* D0: dedup
    IF r.state \in {"failed", "epoch_invalidated"}
    THEN Ret(cs, IF RouteSet(cs, E.tag) # {} THEN "Unprocessable" ELSE "PreviouslyFailed")
    ELSE
    \* V1: event validation (kind, timestamp window, exactly one well-formed h tag)
    IF E.kind = "junk" /\ E.jclass \in {"badkind", "stale", "future", "noh", "multih", "shorth", "nonhexh"}
    THEN Ret(RecordFailure(cs, e, "", NoEpoch), "Err")
    ELSE
    \* G2: find the group by the tag in force
    IF RouteSet(cs, E.tag) = {} THEN Ret(RecordFailure(cs, e, "", NoEpoch), "Err")
    ELSE
    LET g == CHOOSE x \in RouteSet(cs, E.tag) : TRUE
        gs == cs.g[g]
        recEpoch == gs.rec.epoch IN
    IF gs.mls = "none" THEN Ret(RecordFailure(cs, e, g, NoEpoch), "Err")        \* no MLS group yet (pending welcome)
    ELSE IF gs.mls = "evicted" /\ SecretAt(gs, EpochOf(g, gs.chain))[1] = "absent"
    THEN Ret(RecordFailure(cs, e, g, NoEpoch), "Err")                           \* cannot export a secret
    ELSE
    LET cur  == EpochOf(g, gs.chain)
        csS  == [cs EXCEPT !.g[g] = PutSecret(@, cur, gs.chain)]                \* exporter_secret() caches
        gsS  == csS.g[g]
        opens == \E n \in (cur - Lookback)..cur :
                    /\ n >= 0
                    /\ ~(E.kind = "junk" /\ E.jclass \in {"undecryptable", "nogroup"})
                    /\ SecretAt(gsS, n) = <<"chain", E.parent>>
                    /\ E.g = g
        en   == EpochOf(g, E.parent) IN
    IF ~opens THEN Ret(RecordFailure(csS, e, g, NoEpoch), "Err")
    ELSE
    \* M3: the MLS layer.  A tampered copy (bit flipped in the ciphertext) of a real event keeps that event's
    \* framing: epoch, content type and sender data are read before the AEAD check fails.
    LET tampered == E.kind = "junk" /\ E.jclass = "bitflip" /\ E.base # NoE
        K == IF tampered THEN ev[E.base].kind ELSE E.kind             \* effective content type
        A == IF tampered THEN ev[E.base].author ELSE E.author         \* effective MLS sender
    IN
    IF gsS.mls = "evicted" THEN FailUnprocessable(csS, e, g, recEpoch)
    ELSE IF E.kind = "junk" /\ ~tampered THEN FailUnprocessable(csS, e, g, recEpoch)   \* garbage / truncated payload
    ELSE IF (K # "app" /\ en # cur) \/ (K = "app" /\ en > cur)
    THEN IF first THEN ProcWrongEpoch(csS, c, e, g, recEpoch, nm, en, K = "commit")
         ELSE FailUnprocessable(csS, e, g, recEpoch)
    ELSE IF K = "app" /\ en < cur /\ ~(\E i \in DOMAIN gsS.past : gsS.past[i] = E.parent)
    THEN FailUnprocessable(csS, e, g, recEpoch)                                 \* past-epoch secrets gone
    ELSE IF en = cur /\ E.parent # gsS.chain
    THEN FailUnprocessable(csS, e, g, recEpoch)                                 \* same epoch number, other branch
    ELSE IF A = c
    THEN IF K = "commit" /\ gsS.pend # NoE
         THEN ProcOwnPending(csS, c, e, g, recEpoch)     \* (also for a tampered copy: the pending commit is merged)
         ELSE ProcOwnEcho(csS, c, e, g)
    ELSE IF tampered THEN FailUnprocessable(csS, e, g, recEpoch)                \* AEAD failure
    ELSE IF ~Decryptable(gsS, Gen(e)) \/ E.author \notin GS(g, E.parent).members
    THEN FailUnprocessable(csS, e, g, recEpoch)                                 \* ratchet generation already used / unknown sender
    ELSE
    LET csD == [csS EXCEPT !.g[g].consumed = @ \cup {Gen(e)}] IN                    \* decrypting consumes the generation
    IF E.kind = "app" THEN ProcApp(csD, c, e, g, recEpoch, nm)
    ELSE IF E.kind = "prop" THEN ProcProposal(csD, c, e, g, recEpoch, nm)
    ELSE IF ~(E.refs \subseteq gsS.props)
    THEN FailUnprocessable(csD, e, g, recEpoch)                                 \* unknown by-reference proposal
    ELSE ProcCommit(csD, c, e, g, recEpoch)

-----------------------------------------------------------------------------
(* Packing / unpacking one client's state                                   *)

CS(c) == [g |-> cl[c], proc |-> proc[c], msgs |-> msgs[c], q |-> snapq[c], notif |-> <<>>, out |-> <<>>,
          hyd |-> hyd[c], sql |-> c \in Sql, syncfail |-> {}, now |-> 0]

\* hydration of the snapshot queue from storage (persistent backends, first touch after restart)
Persistent(c) == c \in Sql
Hydrated(c, g) == ~Persistent(c) \/ g \in hyd[c]

Publish(out) == ev' = ev @@ [n \in {out[i].name : i \in DOMAIN out} |->
                                (LET i == CHOOSE j \in DOMAIN out : out[j].name = n IN out[i])]

Install(c, cs) ==
    /\ cl' = [cl EXCEPT ![c] = cs.g]
    /\ proc' = [proc EXCEPT ![c] = cs.proc]
    /\ msgs' = [msgs EXCEPT ![c] = cs.msgs]
    /\ snapq' = [snapq EXCEPT ![c] = cs.q]
    /\ hyd' = [hyd EXCEPT ![c] = cs.hyd]
    /\ Publish(cs.out)

-----------------------------------------------------------------------------
(* Actions (one public API call each)                                       *)

InitState == [ ginfo |-> [g \in Groups |-> NoGInfo],
               ev    |-> <<>>,
               cl    |-> [c \in Clients |-> [g \in Groups |-> NoGroup]],
               proc  |-> [c \in Clients |-> <<>>],
               msgs  |-> [c \in Clients |-> <<>>],
               snapq |-> [c \in Clients |-> [g \in Groups |-> <<>>]],
               hyd   |-> [c \in Clients |-> {}],
               withdrawn |-> {},
               wl    |-> <<>>,
               welc  |-> [c \in Clients |-> <<>>],
               pwelc |-> [c \in Clients |-> <<>>],
               hist  |-> [mergedNoSnap |-> {}, lastRes |-> "", notifs |-> <<>>, late |-> {}, tried |-> {}, triedIn |-> {}, q |-> FALSE, aheadOfRefs |-> {}, lostTs |-> {}, ptrStale |-> {}, wreset |-> {}, syncFail |-> {}] ]

Init ==
    /\ ginfo = InitState.ginfo
    /\ ev = InitState.ev
    /\ cl = InitState.cl
    /\ proc = InitState.proc
    /\ msgs = InitState.msgs
    /\ snapq = InitState.snapq
    /\ hyd = InitState.hyd
    /\ withdrawn = InitState.withdrawn
    /\ wl = InitState.wl /\ welc = InitState.welc /\ pwelc = InitState.pwelc
    /\ hist = InitState.hist

Reset ==
    /\ ginfo' = InitState.ginfo
    /\ ev' = InitState.ev
    /\ cl' = InitState.cl
    /\ proc' = InitState.proc
    /\ msgs' = InitState.msgs
    /\ snapq' = InitState.snapq
    /\ hyd' = InitState.hyd
    /\ withdrawn' = InitState.withdrawn
    /\ wl' = InitState.wl /\ welc' = InitState.welc /\ pwelc' = InitState.pwelc
    /\ hist' = InitState.hist

\* create_group + every invited member processes and accepts its welcome (one composite step)
CreateGroup(c, g, members, admins, nid, base) ==
    /\ ~Created(g)
    /\ U(c) \in admins /\ c \notin members /\ admins \subseteq UsersOf(members \cup {c})
    /\ LET init == [members |-> members \cup {c}, admins |-> admins, name |-> "name0-" \o g,
                    desc |-> "desc0-" \o g, nid |-> nid, relays |-> {"wss://r1.example"}]
           gs(su) == [NoGroup EXCEPT !.mls = "ok",
                                     !.rec = [st |-> "active", epoch |-> base, data |-> init, last |-> NoE, lkey |-> NoKey, su |-> su]]
       IN  /\ ginfo' = [ginfo EXCEPT ![g] = [base |-> base, init |-> init]]
           /\ cl' = [x \in Clients |-> IF x = c THEN [cl[x] EXCEPT ![g] = gs(FALSE)]
                                       ELSE IF x \in members THEN [cl[x] EXCEPT ![g] = gs(TRUE)]
                                       ELSE cl[x]]
    /\ UNCHANGED <<ev, proc, msgs, snapq, hyd, withdrawn, wl, welc, pwelc, hist>>

\* add_members / remove_members / update_group_data / self_update: build a pending commit
CanCommit(c, g) == /\ Created(g)
                   /\ cl[c][g].mls = "ok"
                   /\ cl[c][g].pend = NoE
NewCommit(c, g, kind, arg, nm) ==
    LET gs == cl[c][g]
        eff == Eff(kind, arg)
        \* the MLS library drops the committer's own Update proposals, and a queued Remove / leave of a member the commit
        \* removes inline anyway (duplicate removal: the inline one is kept)
        P  == {p \in gs.props : /\ ~(p.k = "update" /\ p.a = c)
                                /\ ~(p.k \in {"remove", "leave"} /\ U(p.t) \in eff.rem)} IN
    [name |-> nm.name, kind |-> "commit", g |-> g, author |-> c, parent |-> gs.chain,
     ts |-> nm.ts, rank |-> nm.rank, tag |-> gs.rec.data.nid, eff |-> eff, refs |-> P, gen |-> gs.sentH,
     result |-> ApplyEff(GS(g, gs.chain), eff, P)]

\* raw: the commit is built directly with the MLS library, bypassing mdk's sender-side admin check
CommitAllowedX(c, g, kind, arg, raw) ==
    LET s == GS(g, cl[c][g].chain) IN
    /\ c \in s.members
    /\ c \notin PropRemoves(cl[c][g].props)      \* a committer cannot commit its own removal
    /\ (kind # "self_update" /\ ~raw) => U(c) \in s.admins
    /\ kind = "idchange" => raw /\ arg.from = c /\ arg.to \in s.members /\ arg.to # c
    /\ kind = "remove" => arg # {} /\ arg \subseteq UsersOf(s.members) /\ U(c) \notin arg
    /\ kind = "add" => arg # {} /\ arg \cap s.members = {}
    /\ kind = "admins" => arg # {} /\ (raw \/ arg \subseteq UsersOf(s.members))
CommitAllowed(c, g, kind, arg) == CommitAllowedX(c, g, kind, arg, FALSE)

\* wn: function from each added user to the name of the welcome produced for it
DoCommitX(c, g, kind, arg, nm, wn, raw) ==
    /\ CanCommit(c, g)
    /\ CommitAllowedX(c, g, kind, arg, raw)
    /\ nm.name \notin DOMAIN ev
    /\ LET E == NewCommit(c, g, kind, arg, nm)
           cs0 == CS(c)
           cs1 == [cs0 EXCEPT !.g[g] = PutSecret(@, EpochOf(g, @.chain), @.chain),   \* build_message_event exports
                              !.g[g].pend = nm.name, !.out = <<E>>, !.g[g].sentH = @ + 1]
           \* (mdk records its own commit as ProcessedCommit; a commit built with the raw MLS library leaves no record)
           cs2 == IF raw THEN cs1
                  ELSE [cs1 EXCEPT !.proc = (nm.name :> [state |-> "processed_commit", epoch |-> EpochOf(g, cl[c][g].chain), g |-> g]) @@ @]
       IN /\ Install(c, cs2)
          /\ wl' = IF kind = "add"
                    THEN wl @@ [w \in {wn[u] : u \in arg} |->
                                  [g |-> g, to |-> CHOOSE u \in arg : wn[u] = w, chain |-> Append(cl[c][g].chain, nm.name),
                                   commit |-> nm.name, inviter |-> c, kp |-> "live"]]
                    ELSE wl
    /\ UNCHANGED <<ginfo, withdrawn, welc, pwelc, hist>>
DoCommit(c, g, kind, arg, nm, wn) == DoCommitX(c, g, kind, arg, nm, wn, FALSE)

\* merge_pending_commit: no snapshot, no exporter secret, no dedup record.
\* Without a pending commit it is a no-op that still re-syncs the record.
MergePending(c, g) ==
    /\ Created(g) /\ cl[c][g].mls = "ok"
    /\ LET k   == cl[c][g].pend
           cs1 == IF k = NoE THEN CS(c) ELSE Merged(CS(c), g, k)
           cs2 == Sync(cs1, g)
           cs3 == IF k # NoE /\ ev[k].eff.kind = "self_update" /\ ev[k].refs = {} THEN [cs2 EXCEPT !.g[g].rec.su = FALSE] ELSE cs2
       IN  /\ Install(c, cs3)
           /\ hist' = IF k = NoE THEN hist ELSE [hist EXCEPT !.mergedNoSnap = @ \cup {<<c, k>>}]
    /\ UNCHANGED <<ginfo, withdrawn, wl, welc, pwelc>>

\* clear_pending_commit is for a commit whose publication failed: the event is withdrawn
ClearPending(c, g) ==
    /\ Created(g) /\ cl[c][g].mls = "ok"
    /\ \A x \in Clients : <<x, cl[c][g].pend>> \notin hist.tried
    /\ Install(c, [CS(c) EXCEPT !.g[g].pend = NoE])
    /\ withdrawn' = IF cl[c][g].pend = NoE THEN withdrawn ELSE withdrawn \cup {cl[c][g].pend}
    /\ UNCHANGED <<ginfo, wl, welc, pwelc, hist>>

\* create_message
CanSend(c, g) == /\ Created(g) /\ cl[c][g].mls = "ok"
                 /\ c \in GS(g, cl[c][g].chain).members
                 /\ cl[c][g].props = {}            \* OpenMLS refuses while proposals are queued

SendMessage(c, g, nm, m) ==
    /\ CanSend(c, g)
    /\ nm.name \notin DOMAIN ev
    /\ LET gs == cl[c][g]
           cur == EpochOf(g, gs.chain)
           E == [name |-> nm.name, kind |-> "app", g |-> g, author |-> c, parent |-> gs.chain,
                 ts |-> nm.ts, rank |-> nm.rank, tag |-> gs.rec.data.nid, msg |-> m, gen |-> gs.sentA]
           rowm == [author |-> U(m.claimed), state |-> "created", epoch |-> cur, w |-> nm.name,
                    content |-> m.content, ca |-> m.ca, pa |-> nm.now, idr |-> m.idr, idok |-> StoreKey(m) = m.id]
           cs0 == CS(c)
           cs1 == [cs0 EXCEPT !.g[g] = PutSecret(@, cur, gs.chain), !.out = <<E>>, !.g[g].sentA = @ + 1,
                              !.msgs = (<<g, StoreKey(m)>> :> rowm) @@ @]
           cs2 == SetProc(cs1, nm.name, "created", g, cur)
       IN  Install(c, UpdateLast(cs2, g, StoreKey(m), rowm))
    /\ UNCHANGED <<ginfo, withdrawn, wl, welc, pwelc, hist>>

\* leave_group: a self-remove proposal (recorded with state ProcessedCommit, as the code does)
CanLeave(c, g) == /\ Created(g) /\ cl[c][g].mls = "ok"
                  /\ c \in GS(g, cl[c][g].chain).members
                  /\ cl[c][g].pend = NoE           \* MLS group must be operational (no pending commit)

Leave(c, g, nm) ==
    /\ CanLeave(c, g)
    /\ nm.name \notin DOMAIN ev
    /\ LET gs == cl[c][g]
           cur == EpochOf(g, gs.chain)
           E == [name |-> nm.name, kind |-> "prop", g |-> g, author |-> c, parent |-> gs.chain,
                 ts |-> nm.ts, rank |-> nm.rank, tag |-> gs.rec.data.nid, pkind |-> "leave", target |-> c, gen |-> gs.sentH]
           cs0 == CS(c)
           cs1 == [cs0 EXCEPT !.g[g] = PutSecret(@, cur, gs.chain), !.out = <<E>>, !.g[g].sentH = @ + 1,
                              !.g[g].props = @ \cup {[a |-> c, k |-> "leave", t |-> c]}]   \* MLS queues the own proposal too
       IN  Install(c, SetProc(cs1, nm.name, "processed_commit", g, cur))
    /\ UNCHANGED <<ginfo, withdrawn, wl, welc, pwelc, hist>>

-----------------------------------------------------------------------------
(* Welcomes (welcomes.rs)                                                   *)

WelcOf(c, w) == IF w \in DOMAIN welc[c] THEN welc[c][w].st ELSE "none"
PWelcOf(c, x) == IF x \in DOMAIN pwelc[c] THEN pwelc[c][x] ELSE "none"

\* the welcome can be staged by c: it was encrypted to one of c's key packages
\* every invitation targets a fresh key package of the invitee; staging needs its private part in the invitee's storage
CanStage(c, w) == wl[w].to = c /\ wl[w].kp = "live"
\* the Marmot data of the group the welcome leads to carries a nostr id that another group held by c already uses:
\* the pending record cannot be stored (unique nostr-id index) and the call fails without leaving any trace
WelcomeNidCollides(c, w) ==
    \E h \in Groups \ {wl[w].g} : cl[c][h].rec.st # "none" /\ cl[c][h].rec.data.nid = GS(wl[w].g, wl[w].chain).nid

\* process_welcome(wrapper id x, rumor of welcome w): result class "Ok" | "Err".
\* Dedup is by WRAPPER id; the stored welcome is keyed by the RUMOR id, so the same rumor under a fresh
\* wrapper is processed in full again (key packages are last-resort and never deleted by joining).
ProcessWelcomeRes(c, w, x) ==
    IF PWelcOf(c, x) = "failed" THEN "Err"
    ELSE IF PWelcOf(c, x) = "processed" THEN (IF WelcOf(c, w) # "none" THEN "Ok" ELSE "Err")
    ELSE IF CanStage(c, w) /\ ~WelcomeNidCollides(c, w) THEN "Ok" ELSE "Err"

ProcessWelcome(c, w, x) ==
    /\ w \in DOMAIN wl
    /\ LET g == wl[w].g IN
       IF PWelcOf(c, x) # "none" THEN UNCHANGED <<cl, welc, pwelc>>
       ELSE IF ~CanStage(c, w)
       THEN /\ pwelc' = [pwelc EXCEPT ![c] = (x :> "failed") @@ @]
            /\ UNCHANGED <<cl, welc>>
       ELSE IF WelcomeNidCollides(c, w)
       THEN UNCHANGED <<cl, welc, pwelc>>                  \* save_group refused: Err, nothing recorded (a retry does the same)
       ELSE \* saves a Pending group record (overwriting whatever record exists for that MLS group id)
            /\ cl' = [cl EXCEPT ![c][g].rec = [st |-> "pending", epoch |-> EpochOf(g, wl[w].chain),
                                               data |-> GS(g, wl[w].chain), last |-> NoE, lkey |-> NoKey, su |-> TRUE]]
            /\ pwelc' = [pwelc EXCEPT ![c] = (x :> "processed") @@ @]
            /\ welc' = [welc EXCEPT ![c] = (w :> [st |-> "pending", x |-> x]) @@ @]
    /\ hist' = [hist EXCEPT !.lastRes = ProcessWelcomeRes(c, w, x),
                            !.wreset = IF PWelcOf(c, x) = "none" /\ CanStage(c, w) /\ ~WelcomeNidCollides(c, w) /\ cl[c][wl[w].g].mls # "none"
                                       THEN @ \cup {<<c, wl[w].g>>} ELSE @]
    /\ UNCHANGED <<ginfo, ev, proc, msgs, snapq, hyd, withdrawn, wl>>

\* accept_welcome on a stored welcome: joins at the inviter's post-commit state
AcceptWelcome(c, w) ==
    /\ w \in DOMAIN wl /\ WelcOf(c, w) # "none" /\ CanStage(c, w)
    /\ LET g == wl[w].g IN
       /\ cl' = [cl EXCEPT ![c][g] = [@ EXCEPT !.mls = "ok", !.chain = wl[w].chain, !.pend = NoE, !.props = {},
                                              !.past = <<>>, !.consumed = {}, !.sentH = 0, !.sentA = 0,
                                              \* rollback snapshots of an earlier membership are released (before the fix --
                                              \* deviation RejoinKeepsSnapshots -- they stayed and a replayed old commit rolled
                                              \* the returning member back into its old branch)
                                              !.stored = IF "RejoinKeepsSnapshots" \in Dev THEN @ ELSE {},
                                              \* state Active, rotation obligation, and the record re-synced from the joined group
                                              !.rec = IF @.st = "none" THEN @
                                                      ELSE [@ EXCEPT !.st = "active", !.su = TRUE,
                                                                     !.epoch = EpochOf(g, wl[w].chain), !.data = GS(g, wl[w].chain)]]]
       /\ welc' = [welc EXCEPT ![c][w].st = "accepted"]
       /\ hist' = [hist EXCEPT !.wreset = IF cl[c][g].mls # "none" THEN @ \cup {<<c, g>>} ELSE @]
       /\ IF "RejoinKeepsSnapshots" \in Dev THEN UNCHANGED <<snapq, hyd>>
          ELSE /\ snapq' = [snapq EXCEPT ![c][g] = <<>>]
               /\ hyd' = [hyd EXCEPT ![c] = @ \cup {g}]
       \* the closing re-sync moves the record to the joined epoch; if that is an advance, undecryptable records become Retryable
       /\ LET adv   == cl[c][g].rec.st # "none" /\ EpochOf(g, wl[w].chain) > cl[c][g].rec.epoch
                       /\ "UndecryptableNeverRetried" \notin Dev
              retry == {x \in DOMAIN proc[c] : proc[c][x].g = g /\ proc[c][x].state = "failed" /\ proc[c][x].epoch = NoEpoch}
          IN  proc' = IF adv THEN [proc EXCEPT ![c] = [x \in DOMAIN @ |-> IF x \in retry THEN [@[x] EXCEPT !.state = "retryable"] ELSE @[x]]]
                      ELSE proc
    /\ UNCHANGED <<ginfo, ev, msgs, withdrawn, wl, pwelc>>

DeclineWelcome(c, w) ==
    /\ w \in DOMAIN wl /\ WelcOf(c, w) # "none" /\ CanStage(c, w)
    /\ LET g == wl[w].g IN
       /\ cl' = [cl EXCEPT ![c][g].rec = IF @.st = "none" THEN @ ELSE [@ EXCEPT !.st = "inactive"]]
       /\ welc' = [welc EXCEPT ![c][w].st = "declined"]
       /\ hist' = [hist EXCEPT !.wreset = IF cl[c][g].mls # "none" THEN @ \cup {<<c, g>>} ELSE @]
    /\ UNCHANGED <<ginfo, ev, proc, msgs, snapq, hyd, withdrawn, wl, pwelc>>

\* accept / decline of a stored welcome whose key package is gone: the staging fails, the wrapper the welcome was last
\* stored under is recorded Failed, nothing else changes (in particular no group becomes active)
WelcomeCallFails(c, w) ==
    /\ w \in DOMAIN wl /\ WelcOf(c, w) # "none" /\ ~CanStage(c, w)
    /\ pwelc' = [pwelc EXCEPT ![c] = (welc[c][w].x :> "failed") @@ @]
    /\ UNCHANGED <<ginfo, ev, cl, proc, msgs, snapq, hyd, withdrawn, wl, welc, hist>>

\* routine key-package rotation: the invitee deletes the key package invitation w was built for from its local storage
DropKeyPackage(c, w) ==
    /\ w \in DOMAIN wl /\ wl[w].to = c
    /\ wl' = [wl EXCEPT ![w].kp = "gone"]
    /\ UNCHANGED <<ginfo, ev, cl, proc, msgs, snapq, hyd, withdrawn, welc, pwelc, hist>>

\* a member proposes the removal of another member directly with the MLS library (mdk has no API for it)
ProposeRemove(c, g, nm, target) ==
    /\ CanLeave(c, g) /\ nm.name \notin DOMAIN ev
    /\ target \in GS(g, cl[c][g].chain).members /\ target # c
    /\ LET gs == cl[c][g]
           cur == EpochOf(g, gs.chain)
           E == [name |-> nm.name, kind |-> "prop", g |-> g, author |-> c, parent |-> gs.chain,
                 ts |-> nm.ts, rank |-> nm.rank, tag |-> gs.rec.data.nid, pkind |-> "remove", target |-> target, gen |-> gs.sentH]
           cs0 == CS(c)
           cs1 == [cs0 EXCEPT !.out = <<E>>, !.g[g].sentH = @ + 1,
                              !.g[g].props = @ \cup {[a |-> c, k |-> "remove", t |-> target]}]
       IN  Install(c, cs1)
    /\ UNCHANGED <<ginfo, withdrawn, wl, welc, pwelc, hist>>

\* a member proposes a refresh of its own leaf directly with the MLS library (mdk ignores Update proposals)
ProposeUpdate(c, g, nm) ==
    /\ CanLeave(c, g) /\ nm.name \notin DOMAIN ev
    /\ LET gs == cl[c][g]
           E == [name |-> nm.name, kind |-> "prop", g |-> g, author |-> c, parent |-> gs.chain,
                 ts |-> nm.ts, rank |-> nm.rank, tag |-> gs.rec.data.nid, pkind |-> "update", target |-> nm.name, gen |-> gs.sentH]
           cs0 == CS(c)
           cs1 == [cs0 EXCEPT !.out = <<E>>, !.g[g].sentH = @ + 1,
                              !.g[g].props = @ \cup {[a |-> c, k |-> "update", t |-> nm.name]}]
       IN  Install(c, cs1)
    /\ UNCHANGED <<ginfo, withdrawn, wl, welc, pwelc, hist>>

\* a hostile or malformed wrapper event appears on the relays (built with knowledge of client c's view of g)
PublishJunk(c, g, nm, class, tag, base, par) ==
    /\ Created(g) /\ nm.name \notin DOMAIN ev
    /\ ev' = ev @@ (nm.name :> [name |-> nm.name, kind |-> "junk", jclass |-> class, g |-> g, author |-> "",
                                parent |-> IF base # NoE THEN ev[base].parent ELSE par, ts |-> nm.ts, rank |-> nm.rank,
                                tag |-> tag, gen |-> 0, base |-> base])
    /\ UNCHANGED <<ginfo, cl, proc, msgs, snapq, hyd, withdrawn, wl, welc, pwelc, hist>>

\* at the moment of a first hand-over: is the event outside the configured windows?
OutsideWindow(c, e) ==
    LET g == ev[e].g
        d == EpochOf(g, cl[c][g].chain) - EpochOf(g, ev[e].parent)
        h == RatchetHead(cl[c][g], Gen(e)) IN
    \/ d > Lookback \/ (ev[e].kind = "app" /\ d > MaxPast)
    \/ ev[e].gen > h + MFD \/ (ev[e].gen < h /\ h - ev[e].gen > OOT)       \* outside the sender-ratchet windows

\* expected pointer computed on a packed client state
ExpectedLastCS(cs, g) ==
    LET V == {k \in DOMAIN cs.msgs : k[1] = g /\ cs.msgs[k].state # "epoch_invalidated"} IN
    IF V = {} THEN NoE
    ELSE (CHOOSE k \in V : \A j \in V \ {k} : MsgKeyLess(cs.msgs[j], cs.msgs[k]))[2]

\* process_message
Deliver(c, e, nm) ==
    /\ e \in DOMAIN ev /\ e \notin withdrawn
    /\ nm.name \notin DOMAIN ev
    /\ LET g0 == ev[e].g
           cs0 == [CS(c) EXCEPT !.now = IF "t" \in DOMAIN nm THEN nm.t ELSE 0]    \* wall clock (seconds) of this call
           \* ensure_hydrated happens lazily inside the snapshot manager; model it up front for the target group
           r == Process(cs0, c, e, nm, TRUE)
       IN  /\ Install(c, r.cs)
           /\ hist' = [hist EXCEPT !.lastRes = r.res, !.notifs = r.cs.notif,
                                   !.tried = @ \cup {<<c, e>>},
                                   \* "late" = outside the windows at the first hand-over at which the receiver was on the event's branch
                                   \* and had reached its epoch (a hand-over ahead of the epoch, or on a competing branch, cannot be
                                   \* decrypted and says nothing about the windows)
                                   !.triedIn = IF IsPrefixEq(ev[e].parent, cl[c][g0].chain) THEN @ \cup {<<c, e>>} ELSE @,
                                   !.late = IF <<c, e>> \notin hist.triedIn /\ IsPrefixEq(ev[e].parent, cl[c][g0].chain)
                                               /\ OutsideWindow(c, e)
                                            THEN @ \cup {<<c, e>>} ELSE @,
                                   !.syncFail = @ \cup {<<c, gg>> : gg \in r.cs.syncfail},
                                   !.ptrStale = IF r.cs.notif # <<>> THEN @ \cup {<<c, g0>>}
                                                ELSE IF r.cs.g[g0].rec.last = ExpectedLastCS(r.cs, g0) THEN @ \ {<<c, g0>>}
                                                ELSE @,
                                   !.aheadOfRefs = IF ev[e].kind = "commit"
                                                      /\ \/ /\ ~(ev[e].refs \subseteq cl[c][g0].props)
                                                            /\ ev[e].parent = cl[c][g0].chain
                                                         \* ... or the call rolled back to e's parent first and the restored queue lacks it
                                                         \/ /\ r.cs.notif # <<>>
                                                            /\ ev[e].parent = r.cs.g[g0].chain
                                                            /\ ~(ev[e].refs \subseteq r.cs.g[g0].props)
                                                   THEN @ \cup {<<c, e>>} ELSE @]
    /\ UNCHANGED <<ginfo, withdrawn, wl, welc, pwelc>>

\* drop the MDK instance and its storage handle, reopen the same database (clean shutdown).
\* MdkBuilder::build first prunes every stored snapshot (of every group) created before now - ttl.
NoTTL == 1000000000
Expired(s, ttl, now) == s.born < now - ttl
RestartT(c, ttl, now) ==
    /\ c \in Sql
    /\ cl' = [cl EXCEPT ![c] = [g \in Groups |-> [@[g] EXCEPT !.stored = {s \in @ : ~Expired(s, ttl, now)}]]]
    /\ snapq' = [snapq EXCEPT ![c] = [g \in Groups |-> <<>>]]
    /\ hyd' = [hyd EXCEPT ![c] = {}]
    /\ hist' = [hist EXCEPT !.lostTs = @ \cup UNION {{<<c, snapq[c][g][i].commit>> : i \in DOMAIN snapq[c][g]} : g \in Groups}]
    /\ UNCHANGED <<ginfo, ev, proc, msgs, withdrawn, wl, welc, pwelc>>
Restart(c) == RestartT(c, NoTTL, 0)

\* the driver declares that every event has been re-offered until nothing changed
Quiesce ==
    /\ hist' = [hist EXCEPT !.q = TRUE]
    /\ UNCHANGED <<ginfo, ev, cl, proc, msgs, snapq, hyd, withdrawn, wl, welc, pwelc>>

-----------------------------------------------------------------------------
(* Properties                                                               *)

\* --- the MIP-03 winner, defined without reference to Process ---
ValidCommit(k) ==
    LET E == ev[k]
        s == GS(E.g, E.parent) IN
    /\ E.kind = "commit" /\ k \notin withdrawn
    /\ E.author \in s.members
    /\ U(E.author) \in s.admins \/ PureSelfUpdate(k)
Cands(g, W) == {k \in DOMAIN ev : ev[k].g = g /\ ev[k].kind = "commit" /\ ev[k].parent = W /\ ValidCommit(k)}
BestOf(S) == CHOOSE k \in S : \A j \in S \ {k} : Better(k, j)
RECURSIVE WinnerFrom(_, _)
WinnerFrom(g, W) == IF Cands(g, W) = {} THEN W ELSE WinnerFrom(g, Append(W, BestOf(Cands(g, W))))
Winner(g) == WinnerFrom(g, <<>>)

RECURSIVE CommonPrefixLen(_, _, _)
CommonPrefixLen(a, b, i) == IF i < Len(a) /\ i < Len(b) /\ a[i + 1] = b[i + 1] THEN CommonPrefixLen(a, b, i + 1) ELSE i

\* remaining members: members of the winner state that still hold an MLS group
Remaining(g) == {c \in GS(g, Winner(g)).members \cap Clients : cl[c][g].mls # "none"}

ConvergedAt(c, g) == cl[c][g].mls = "ok" /\ cl[c][g].chain = Winner(g)

\* the statement's proviso: the fork c would have to cross is at most Retention / Lookback deep
ForkDepth(c, g) == Len(cl[c][g].chain) - CommonPrefixLen(cl[c][g].chain, Winner(g), 0)
\* ... at any time: a client that has once been more than Retention commits past the fork point has lost the rollback point it
\* would need, however far it is rolled back later (history operator, FALSE in the bounded instances, overridden by the trace spec)
EverTooDeep(c, g) == FALSE
InScope(c, g) == ForkDepth(c, g) <= Retention /\ ForkDepth(c, g) <= Lookback /\ ~EverTooDeep(c, g)

\* finding C01-3: the first commit on which c left the winner chain was its own, applied with
\* merge_pending_commit (no rollback point), and a better sibling was published
Excused_MergeNoSnapshot(c, g) ==
    LET ch == cl[c][g].chain
        n  == CommonPrefixLen(ch, Winner(g), 0) IN
    /\ "MergeNoSnapshot" \in Dev
    /\ n < Len(ch)
    /\ <<c, ch[n + 1]>> \in hist.mergedNoSnap

\* finding C01-CommitBeforeProposal: the next winner commit c needs covers a proposal by reference and was
\* handed to c before that proposal; it was recorded Failed and is never retried
NextNeeded(c, g) == LET n == CommonPrefixLen(cl[c][g].chain, Winner(g), 0) IN
                    IF n < Len(Winner(g)) THEN Winner(g)[n + 1] ELSE NoE
Excused_CommitBeforeProposal(c, g) ==
    LET k == NextNeeded(c, g) IN
    /\ "FailedNeverRetried" \in Dev
    /\ k # NoE /\ <<c, k>> \in hist.aheadOfRefs
    /\ k \in DOMAIN proc[c] /\ proc[c][k].state = "failed"

\* finding RollbackBeforeValidation (seen from C01): a wrapper that merely LOOKS like a better commit for an applied epoch
\* (earlier timestamp / smaller id) makes the client roll back before the candidate is validated; when it then turns out
\* not to apply (non-admin author, missing proposal, tampered), the client stays rolled back and the dedup record of the
\* commit it had applied -- the winner -- is EpochInvalidated, so that commit is refused for ever
Excused_RollbackBeforeValidation(c, g) ==
    LET k == NextNeeded(c, g) IN
    /\ "RollbackBeforeValidation" \in Dev
    /\ k # NoE /\ k \in DOMAIN proc[c] /\ proc[c][k].state = "epoch_invalidated"

\* finding RotationDropsInFlight: events tagged with a nostr group id that is no longer in force at c
\* find no group; they are recorded Failed without a group and never retried
Excused_RotationCommit(c, g) ==
    LET k == NextNeeded(c, g) IN
    /\ "RotationDropsInFlight" \in Dev
    /\ k # NoE
    /\ \/ ev[k].tag # cl[c][g].rec.data.nid
       \* ... or it was handed over while its id was NOT YET in force at c (ahead of the rotation commit): same dead end
       \/ /\ k \in DOMAIN proc[c] /\ proc[c][k].state = "failed" /\ proc[c][k].g = ""
          /\ ev[k].tag # ginfo[g].init.nid
Excused_RotationMsg(c, e) ==
    /\ "RotationDropsInFlight" \in Dev
    /\ \/ ev[e].tag # cl[c][ev[e].g].rec.data.nid
       \/ /\ e \in DOMAIN proc[c] /\ proc[c][e].state = "failed" /\ proc[c][e].g = ""       \* met before the rotation commit
          /\ ev[e].tag # ginfo[ev[e].g].init.nid
    /\ e \in DOMAIN proc[c] /\ proc[c][e].state = "failed"

\* finding EvictedNeverRecovers: a member removed by a commit that later loses the MIP-03 race cannot
\* export a secret any more, so the better commit cannot even be unwrapped and the rollback never happens
Excused_Evicted(c, g) == "EvictedNeverRecovers" \in Dev /\ cl[c][g].mls = "evicted"

\* finding OwnCommitNotValidated: a non-admin's self_update sweeps up the proposals queued at it (a member's
\* leave request), which makes it a commit every other member refuses (CommitFromNonAdmin); the author applies
\* it anyway (own commits are never validated) and leaves the group's chain for good
Excused_OwnInvalidCommit(c, g) ==
    LET ch == cl[c][g].chain
        n  == CommonPrefixLen(ch, Winner(g), 0) IN
    /\ "OwnCommitNotValidated" \in Dev
    /\ n < Len(ch)
    /\ ev[ch[n + 1]].author = c /\ ~ValidCommit(ch[n + 1])

\* finding HydratedNoTimestamp: after a restart the snapshot queue is rebuilt without the applied commits'
\* timestamps, so a better competing commit arriving after the restart is refused instead of rolled back to
Excused_RestartLostTimestamp(c, g) ==
    LET ch == cl[c][g].chain
        n  == CommonPrefixLen(ch, Winner(g), 0) IN
    /\ "HydratedNoTimestamp" \in Dev
    /\ n < Len(ch)
    /\ <<c, ch[n + 1]>> \in hist.lostTs

C01_Plain == \A g \in Groups : Created(g) => \A c \in Remaining(g) : InScope(c, g) => ConvergedAt(c, g)
C01_Ex(pr) == \A g \in Groups : Created(g) => \A c \in Remaining(g) :
                  InScope(c, g) => \/ ConvergedAt(c, g)
                                   \/ /\ Excused_MergeNoSnapshot(c, g)
                                      /\ pr => PrintT(<<"KNOWN-FINDING", "C01", "MergeNoSnapshot", c, g>>)
                                   \/ /\ Excused_CommitBeforeProposal(c, g)
                                      /\ pr => PrintT(<<"KNOWN-FINDING", "C01", "CommitBeforeProposal", c, g>>)
                                   \/ /\ Excused_RollbackBeforeValidation(c, g)
                                      /\ pr => PrintT(<<"KNOWN-FINDING", "C01", "RollbackBeforeValidation", c, g>>)
                                   \/ /\ Excused_OwnInvalidCommit(c, g)
                                      /\ pr => PrintT(<<"KNOWN-FINDING", "C01", "OwnCommitNotValidated", c, g>>)
                                   \/ /\ Excused_RestartLostTimestamp(c, g)
                                      /\ pr => PrintT(<<"KNOWN-FINDING", "C11", "HydratedNoTimestamp", c, g>>)
                                   \/ /\ Excused_Evicted(c, g)
                                      /\ pr => PrintT(<<"KNOWN-FINDING", "C01", "EvictedNeverRecovers", c, g>>)
                                   \/ /\ Excused_RotationCommit(c, g)
                                      /\ pr => PrintT(<<"KNOWN-FINDING", "C01", "RotationDropsInFlight", c, g>>)
                                   \/ (pr /\ PrintT("VIOLATION-DETAIL " \o ToString(<<"C01 not converged", c, cl[c][g].chain, "winner", Winner(g)>>)) /\ FALSE)
C01_Excused == C01_Ex(TRUE)
C01_ExcusedQuiet == C01_Ex(FALSE)

\* --- C02: application messages of the winning branch stored exactly once, intact, valid ---
OnWinner(g, ch) == IsPrefixEq(ch, Winner(g))
AppEvents(g) == {e \in DOMAIN ev : ev[e].g = g /\ ev[e].kind = "app" /\ e \notin withdrawn}

Excused_AppFiledUnderReceiverEpoch(c, e) ==
    LET k == <<ev[e].g, ev[e].msg.id>> IN
    /\ "AppFiledUnderReceiverEpoch" \in Dev
    /\ k \in DOMAIN msgs[c]
    /\ msgs[c][k].state = "epoch_invalidated"
    /\ msgs[c][k].epoch > EpochOf(ev[e].g, ev[e].parent)

C02_Ex(pr) ==
    \A g \in Groups : Created(g) => \A e \in AppEvents(g), c \in Clients :
       LET k == <<g, ev[e].msg.id>> IN
       /\ (/\ OnWinner(g, ev[e].parent)
           /\ U(ev[e].msg.claimed) = U(ev[e].author) /\ ev[e].msg.preset = ""      \* honest messages only
           /\ c \in GS(g, ev[e].parent).members
           /\ ConvergedAt(c, g)
           /\ <<c, e>> \in hist.tried /\ <<c, e>> \notin hist.late)
          => \/ /\ k \in DOMAIN msgs[c]
                /\ msgs[c][k].state = "processed"
                /\ msgs[c][k].author = U(ev[e].author)
                /\ msgs[c][k].content = ev[e].msg.content
                /\ msgs[c][k].w = e
             \/ /\ Excused_AppFiledUnderReceiverEpoch(c, e)
                /\ pr => PrintT(<<"KNOWN-FINDING", "C02", "AppFiledUnderReceiverEpoch", c, e>>)
             \/ /\ Excused_RotationMsg(c, e)
                /\ pr => PrintT(<<"KNOWN-FINDING", "C02", "RotationDropsInFlight", c, e>>)
             \/ (pr /\ PrintT("VIOLATION-DETAIL " \o ToString(<<"C02 winning-branch message not stored valid", c, e, IF k \in DOMAIN msgs[c] THEN msgs[c][k].state ELSE "absent">>)) /\ FALSE)
       /\ (~OnWinner(g, ev[e].parent) /\ ConvergedAt(c, g) /\ k \in DOMAIN msgs[c])
          => \/ msgs[c][k].state \notin {"processed", "created"}
             \* finding RejoinKeepsOldBranchMessages: a member that comes back through a welcome while it still held the group
             \* on a branch of its own keeps the messages of that abandoned branch marked valid (nothing invalidates them)
             \/ /\ "RejoinKeepsOldBranchMessages" \in Dev /\ <<c, g>> \in hist.wreset
                /\ pr => PrintT(<<"KNOWN-FINDING", "C02", "RejoinKeepsOldBranchMessages", c, e>>)
             \/ (pr /\ PrintT("VIOLATION-DETAIL " \o ToString(<<"C02 losing-branch message left valid", c, e, msgs[c][k].state>>)) /\ FALSE)
C02_Excused == C02_Ex(TRUE)
C02_ExcusedQuiet == C02_Ex(FALSE)

\* stepwise: a stored message's payload never changes (action property)
C02_ContentImmutable ==
    \A c \in Clients : \A k \in DOMAIN msgs[c] :
        k \in DOMAIN msgs'[c] /\ msgs'[c][k].author = msgs[c][k].author /\ msgs'[c][k].content = msgs[c][k].content

\* --- C07: re-delivering an event that has already taken effect changes nothing observable ---
\* (the listed observables: epoch, MLS state, member set, group data, pending proposals, stored messages;
\*  the last-message pointer and the self-update flag are not among them)
ObsOf(c) == [g |-> [g \in Groups |-> [chain |-> cl[c][g].chain, pend |-> cl[c][g].pend, props |-> cl[c][g].props,
                                       rst |-> cl[c][g].rec.st, repoch |-> cl[c][g].rec.epoch, rdata |-> cl[c][g].rec.data,
                                       mls |-> cl[c][g].mls]],
             msgs |-> [k \in DOMAIN msgs[c] |-> [state |-> msgs[c][k].state, author |-> msgs[c][k].author, content |-> msgs[c][k].content]]]

Handled(c, e) ==
    LET g == ev[e].g
        r == IF e \in DOMAIN proc[c] THEN proc[c][e] ELSE NoProc IN
    \/ \E i \in DOMAIN cl[c][g].chain : cl[c][g].chain[i] = e           \* applied commit
    \/ r.state = "epoch_invalidated"                                     \* superseded commit / message
    \/ ev[e].kind = "prop" /\ Pid(e) \in cl[c][g].props /\ r.state = "processed"   \* queued proposal
    \/ /\ ev[e].kind = "app"
       /\ <<g, ev[e].msg.id>> \in DOMAIN msgs[c]
       /\ msgs[c][<<g, ev[e].msg.id>>].state = "processed"
       /\ msgs[c][<<g, ev[e].msg.id>>].w = e                             \* stored / echoed message

\* --- C03: a client stores a message only if its user was a member in the epoch the message was sent in ---
C03_OnlyMembers == \A c \in Clients : \A k \in DOMAIN msgs[c] :
                      LET e == msgs[c][k].w IN
                      e \in DOMAIN ev => c \in GS(k[1], ev[e].parent).members

\* --- C04: stored messages are bound to their authenticated sender and to their own content ---
\* (a client's copy of a message it created itself is whatever it chose to store; the property is about what
\*  events do to OTHER clients' stores)
C04_Bound == \A c \in Clients : \A k \in DOMAIN msgs[c] :
    LET r == msgs[c][k] IN
    (r.w \in DOMAIN ev /\ ev[r.w].author # c) =>
        /\ r.author = U(ev[r.w].author)                    \* attributed to the identity of the MLS-authenticated sender
        /\ \/ r.idok                                       \* id = hash of the stored fields
           \/ /\ "RumorIdTrusted" \in Dev
              /\ PrintT(<<"KNOWN-FINDING", "C04", "RumorIdTrusted", c, k[2]>>)
\* action property: an event authenticated as x's never touches a stored message of another author
C04_NoForeignWrite(c, e) ==
    \A k \in DOMAIN msgs[c] :
        (msgs[c][k].author # U(ev[e].author)) =>
            /\ k \in DOMAIN msgs'[c]
            /\ \/ msgs'[c][k].author = msgs[c][k].author /\ msgs'[c][k].content = msgs[c][k].content /\ msgs'[c][k].w = msgs[c][k].w
               \/ "RumorIdTrusted" \in Dev /\ ev[e].kind = "app" /\ ev[e].msg.preset = k[2]

\* --- C05: only admins change roster / data ---
\* every commit a client has applied that somebody else authored was authorised in the state it applies to;
\* a client's own commits are covered by the OwnCommitNotValidated finding
C05_ChainAuthorised == \A c \in Clients, g \in Groups : \A i \in DOMAIN cl[c][g].chain :
    LET k == cl[c][g].chain[i] IN
    \/ ValidCommit(k)
    \/ ev[k].author = c /\ "OwnCommitNotValidated" \in Dev
\* an admin's own operation never carries out a roster change merely proposed by someone else
\* (sole exception: a member's own request to leave)
C05_NoSweep == \A k \in DOMAIN ev :
    (ev[k].kind = "commit" /\ k \notin withdrawn) =>
        \A p \in ev[k].refs :
            \/ p.k = "leave"
            \/ /\ "AdminCommitSweepsProposals" \in Dev
               /\ PrintT(<<"KNOWN-FINDING", "C05", "AdminCommitSweepsProposals", k, p.a, p.t>>)

\* --- C06: a refused event has no effect (the dedup record is the only thing allowed to change) ---
Refusals == {"Err", "Unprocessable", "PreviouslyFailed", "IgnoredProposal"}
\* finding RefusedLeaveStaysQueued: an admin that cannot auto-commit a member's leave (it holds a pending commit,
\* or its own removal is queued) answers Unprocessable but has queued the proposal
Excused_RefusedLeaveQueued(c, e) ==
    /\ "RefusedLeaveStaysQueued" \in Dev
    /\ ev[e].kind = "prop" /\ ev[e].pkind = "leave"
    /\ U(c) \in GS(ev[e].g, cl[c][ev[e].g].chain).admins

\* --- C08: the stored record mirrors the MLS state (checked after every call) ---
\* (finding WelcomeOverwritesActiveGroup: a welcome for a group the client already holds rewrites the record /
\*  resets the MLS state; such a client is excused from then on)
C08_Mirror == \A c \in Clients, g \in Groups :
                 (cl[c][g].mls = "ok" /\ cl[c][g].rec.st = "active") =>
                    \/ /\ cl[c][g].rec.epoch = EpochOf(g, cl[c][g].chain)
                       /\ cl[c][g].rec.data = GS(g, cl[c][g].chain)
                    \/ "WelcomeOverwritesActiveGroup" \in Dev /\ <<c, g>> \in hist.wreset
                    \/ /\ "SyncFailsAfterMerge" \in Dev /\ <<c, g>> \in hist.syncFail
                       /\ PrintT(<<"KNOWN-FINDING", "C08", "SyncFailsAfterMerge", c, g>>)

\* --- C16: invitations ---
\* an Active group record comes from creating the group or accepting a welcome for it
C16_ConsentGated == \A c \in Clients, g \in Groups :
    (Created(g) /\ cl[c][g].rec.st = "active") =>
        \/ c \in ginfo[g].init.members
        \/ \E w \in DOMAIN welc[c] : wl[w].g = g /\ welc[c][w].st = "accepted"
\* after accepting, the joiner is in the inviter's post-commit state with the rotation obligation (checked on the step)
GroupObs(c, g) == [chain |-> cl[c][g].chain, mls |-> cl[c][g].mls, pend |-> cl[c][g].pend, props |-> cl[c][g].props,
                   st |-> cl[c][g].rec.st, epoch |-> cl[c][g].rec.epoch, data |-> cl[c][g].rec.data]

\* --- C18 (MDK level): the cached last-message pointer designates the first message of the default order
\*     among the group's messages that are not invalidated, or nothing
ValidMsgs(c, g) == {k \in DOMAIN msgs[c] : k[1] = g /\ msgs[c][k].state # "epoch_invalidated"}
ExpectedLast(c, g) ==
    IF ValidMsgs(c, g) = {} THEN NoE
    ELSE LET top == CHOOSE k \in ValidMsgs(c, g) : \A j \in ValidMsgs(c, g) \ {k} : MsgKeyLess(msgs[c][j], msgs[c][k])
         IN  top[2]
\* finding RollbackStalePointer: a rollback restores the pointer cached in the snapshot; messages stored since
\* (and still valid) are no longer designated, or an invalidated one is
C18_Ex(pr) == \A c \in Clients, g \in Groups :
    cl[c][g].rec.st \in {"active", "inactive"} =>
       \/ cl[c][g].rec.last = ExpectedLast(c, g)
       \/ /\ "RollbackStalePointer" \in Dev /\ <<c, g>> \in hist.ptrStale
          /\ pr => PrintT(<<"KNOWN-FINDING", "C18", "RollbackStalePointer", c, g>>)
       \/ "WelcomeOverwritesActiveGroup" \in Dev /\ <<c, g>> \in hist.wreset
       \/ (pr /\ PrintT("VIOLATION-DETAIL " \o ToString(<<"C18 pointer", c, g, cl[c][g].rec.last, "expected", ExpectedLast(c, g)>>)) /\ FALSE)
C18_Pointer == C18_Ex(TRUE)

\* --- C20: snapshots bounded; storage and queue agree ---
C20_Bounded == \A c \in Clients, g \in Groups :
                 /\ Cardinality(cl[c][g].stored) <= Retention
                 /\ Hydrated(c, g) => {<<s.epoch, s.commit>> : s \in cl[c][g].stored}
                                        = {<<snapq[c][g][i].epoch, snapq[c][g][i].commit>> : i \in DOMAIN snapq[c][g]}

\* --- internal sanity: a stored secret for an epoch belongs to the chain the client is/was on ---
SecretsMatch == \A c \in Clients, g \in Groups :
                  cl[c][g].mls = "ok" =>
                    \* the secret exporter_secret() would hand out NOW for the current epoch is the one of the chain the client is on
                    LET n == EpochOf(g, cl[c][g].chain)
                        s == SecretAt(PutSecret(cl[c][g], n, cl[c][g].chain), n) IN
                    s = <<"chain", cl[c][g].chain>>

=============================================================================
