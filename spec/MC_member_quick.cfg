SPECIFICATION MemberSpec
CONSTANTS
  Clients = {"c1","c2","c3"}
  Groups = {"g1"}
  Sql = {"c3"}
  Retention = 2
  Lookback = 2
  MaxPast = 2
  Dev = {"MergeNoSnapshot"}
  MaxEvents = 2
  MaxCommits = 2
  TsSet = {1}
  Kinds = {"self_update"}
  Admins = {"c1"}
  Members = {"c2"}
  Regime = "causal"
  Immediate = TRUE
  MaxDepth <- D9
VIEW MCView
CONSTRAINT DepthBound
INVARIANT MC_C03
INVARIANT MC_C05
INVARIANT MC_C08
INVARIANT MC_C16
INVARIANT MC_C20
INVARIANT MC_Secrets
CHECK_DEADLOCK FALSE
