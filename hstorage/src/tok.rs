//! Token <-> real value mapping. The model talks about small abstract tokens ("g1", "n2", 3, "p1,p2");
//! the harness turns them into real values for the real storage API and projects real values back.
//! A real value that has no token projects to a "?..." string / negative code, which no model value equals.

use std::collections::BTreeSet;

use mdk_storage_traits::groups::types::{Group, GroupState, SelfUpdateState};
use mdk_storage_traits::messages::types::{Message, MessageState, ProcessedMessage, ProcessedMessageState};
use mdk_storage_traits::welcomes::types::{ProcessedWelcome, ProcessedWelcomeState, Welcome, WelcomeState};
use mdk_storage_traits::{GroupId, Secret};
use nostr::{EventId, Keys, Kind, PublicKey, RelayUrl, SecretKey, Tag, TagKind, Tags, Timestamp, UnsignedEvent};
use serde_json::{Value, json};

pub fn gid(tok: &str) -> GroupId {
    // "g3" -> bytes "grp-3-xxxxxxxxxx"
    let mut b = format!("grp-{}-", &tok[1..]).into_bytes();
    while b.len() < 16 {
        b.push(0x5a);
    }
    GroupId::from_slice(&b)
}
pub fn gid_tok(g: &GroupId) -> String {
    let b = g.as_slice();
    let s = String::from_utf8_lossy(b).to_string();
    if let Some(rest) = s.strip_prefix("grp-") {
        if let Some(i) = rest.find('-') {
            let cand = format!("g{}", &rest[..i]);
            if gid(&cand).as_slice() == b {
                return cand;
            }
        }
    }
    format!("?{}", hex::encode(b))
}

pub fn nid(tok: &str) -> [u8; 32] {
    let k: u8 = tok[1..].parse().unwrap_or(0xEE);
    let mut b = [k; 32];
    b[0] = b'n';
    b
}
pub fn nid_tok(b: &[u8; 32]) -> String {
    let k = b[1];
    let cand = format!("n{}", k);
    if nid(&cand) == *b { cand } else { format!("?{}", hex::encode(b)) }
}

pub fn eid(k: i64) -> EventId {
    // first byte = k so that the byte-wise order of ids is the order of the small integers
    let mut b = [0x11u8; 32];
    b[0] = k as u8;
    EventId::from_slice(&b).unwrap()
}
pub fn eid_tok(e: &EventId) -> i64 {
    let b = e.as_bytes();
    if *e == eid(b[0] as i64) { b[0] as i64 } else { -77 }
}
pub fn opt_eid(k: i64) -> Option<EventId> {
    if k < 0 { None } else { Some(eid(k)) }
}
pub fn opt_eid_tok(e: &Option<EventId>) -> i64 {
    match e {
        None => -1,
        Some(e) => eid_tok(e),
    }
}

pub fn pk(tok: &str) -> PublicKey {
    let k: u8 = tok[1..].parse().unwrap_or(0xEE);
    let sk = SecretKey::from_slice(&[k.max(1); 32]).unwrap();
    Keys::new(sk).public_key()
}
pub fn pk_tok(p: &PublicKey) -> String {
    for k in 1..=6 {
        let t = format!("p{}", k);
        if pk(&t) == *p {
            return t;
        }
    }
    format!("?{}", p.to_hex())
}
pub fn pkset(tok: &str) -> BTreeSet<PublicKey> {
    tok.split(',').filter(|x| !x.is_empty()).map(pk).collect()
}
pub fn pkset_tok(s: &BTreeSet<PublicKey>) -> String {
    let mut v: Vec<String> = s.iter().map(pk_tok).collect();
    v.sort();
    v.join(",")
}

pub fn relay(tok: &str) -> RelayUrl {
    RelayUrl::parse(&format!("wss://{}.example.com", tok)).unwrap()
}
pub fn relay_tok(r: &RelayUrl) -> String {
    let s = r.as_str().to_string();
    let s2 = s.trim_end_matches('/');
    match s2.strip_prefix("wss://").and_then(|x| x.strip_suffix(".example.com")) {
        Some(t) => t.to_string(),
        None => format!("?{}", s),
    }
}
pub fn relayset(tok: &str) -> BTreeSet<RelayUrl> {
    tok.split(',').filter(|x| !x.is_empty()).map(relay).collect()
}
pub fn relayset_tok<'a, I: Iterator<Item = &'a RelayUrl>>(it: I) -> String {
    let mut v: Vec<String> = it.map(relay_tok).collect();
    v.sort();
    v.join(",")
}

pub fn ts(n: i64) -> Timestamp {
    Timestamp::from_secs(n as u64)
}
pub fn opt_ts(n: i64) -> Option<Timestamp> {
    if n < 0 { None } else { Some(ts(n)) }
}
pub fn opt_ts_tok(t: &Option<Timestamp>) -> i64 {
    match t {
        None => -1,
        Some(t) => t.as_secs() as i64,
    }
}
pub fn opt_u64(n: i64) -> Option<u64> {
    if n < 0 { None } else { Some(n as u64) }
}
pub fn opt_u64_tok(n: &Option<u64>) -> i64 {
    match n {
        None => -1,
        Some(n) => *n as i64,
    }
}

fn s<'a>(v: &'a Value, k: &str) -> &'a str {
    v.get(k).and_then(|x| x.as_str()).unwrap_or_else(|| panic!("missing string field {} in {}", k, v))
}
fn i(v: &Value, k: &str) -> i64 {
    v.get(k).and_then(|x| x.as_i64()).unwrap_or_else(|| panic!("missing int field {} in {}", k, v))
}

fn img_of(k: i64) -> (Option<[u8; 32]>, Option<Secret<[u8; 32]>>, Option<Secret<[u8; 12]>>) {
    if k <= 0 {
        (None, None, None)
    } else {
        let a = k as u8;
        (Some([a; 32]), Some(Secret::new([a + 1; 32])), Some(Secret::new([a + 2; 12])))
    }
}
fn img_tok(h: &Option<[u8; 32]>, k: &Option<Secret<[u8; 32]>>, n: &Option<Secret<[u8; 12]>>) -> i64 {
    match (h, k, n) {
        (None, None, None) => 0,
        (Some(h), Some(k), Some(n)) => {
            let a = h[0];
            if *h == [a; 32] && **k == [a + 1; 32] && **n == [a + 2; 12] { a as i64 } else { -99 }
        }
        _ => -98,
    }
}

pub fn gstate(x: &str) -> GroupState {
    match x {
        "active" => GroupState::Active,
        "inactive" => GroupState::Inactive,
        _ => GroupState::Pending,
    }
}

/// abstract group record -> Group
pub fn group(g: &str, r: &Value) -> Group {
    let (image_hash, image_key, image_nonce) = img_of(i(r, "img"));
    let su = i(r, "su");
    Group {
        mls_group_id: gid(g),
        nostr_group_id: nid(s(r, "nid")),
        name: s(r, "name").to_string(),
        description: s(r, "desc").to_string(),
        image_hash,
        image_key,
        image_nonce,
        admin_pubkeys: pkset(s(r, "admins")),
        last_message_id: opt_eid(i(r, "lmid")),
        last_message_at: opt_ts(i(r, "lmat")),
        last_message_processed_at: opt_ts(i(r, "lmpat")),
        epoch: i(r, "epoch") as u64,
        state: gstate(s(r, "st")),
        self_update_state: if su == 0 { SelfUpdateState::Required } else { SelfUpdateState::CompletedAt(ts(su)) },
    }
}
pub fn group_tok(g: &Group) -> Value {
    json!({
        "g": gid_tok(&g.mls_group_id),
        "nid": nid_tok(&g.nostr_group_id),
        "name": g.name, "desc": g.description,
        "img": img_tok(&g.image_hash, &g.image_key, &g.image_nonce),
        "admins": pkset_tok(&g.admin_pubkeys),
        "lmid": opt_eid_tok(&g.last_message_id),
        "lmat": opt_ts_tok(&g.last_message_at),
        "lmpat": opt_ts_tok(&g.last_message_processed_at),
        "epoch": g.epoch as i64,
        "st": g.state.as_str(),
        "su": match g.self_update_state { SelfUpdateState::Required => 0, SelfUpdateState::CompletedAt(t) => t.as_secs() as i64 },
    })
}

pub fn mstate(x: &str) -> MessageState {
    match x {
        "created" => MessageState::Created,
        "processed" => MessageState::Processed,
        "deleted" => MessageState::Deleted,
        _ => MessageState::EpochInvalidated,
    }
}
fn tags_of(t: &str) -> Tags {
    if t.is_empty() { Tags::new() } else { Tags::from_list(vec![Tag::custom(TagKind::custom("x"), [t.to_string()])]) }
}
fn tags_tok(t: &Tags) -> String {
    match t.len() {
        0 => String::new(),
        1 => {
            let v = t.first().unwrap().as_slice();
            if v.len() == 2 && v[0] == "x" { v[1].clone() } else { format!("?{:?}", v) }
        }
        _ => "?many".to_string(),
    }
}

/// abstract message record -> Message
pub fn message(g: &str, id: i64, r: &Value) -> Message {
    let pubkey = pk(s(r, "pk"));
    let created_at = ts(i(r, "ca"));
    let kind = Kind::from(i(r, "k") as u16);
    let tags = tags_of(s(r, "t"));
    Message {
        id: eid(id),
        pubkey,
        kind,
        mls_group_id: gid(g),
        created_at,
        processed_at: ts(i(r, "pa")),
        content: s(r, "c").to_string(),
        tags: tags.clone(),
        event: UnsignedEvent::new(pubkey, created_at, kind, tags, s(r, "ev").to_string()),
        wrapper_event_id: eid(i(r, "w")),
        epoch: opt_u64(i(r, "ep")),
        state: mstate(s(r, "st")),
    }
}
pub fn message_tok(m: &Message) -> Value {
    // the stored inner event was built from the message's own fields; it must come back that way
    let ev_ok = m.event.pubkey == m.pubkey && m.event.created_at == m.created_at && m.event.kind == m.kind && m.event.tags == m.tags;
    let ev = if ev_ok { m.event.content.clone() } else { format!("?event differs from message: {}", m.event.content) };
    json!({
        "g": gid_tok(&m.mls_group_id), "id": eid_tok(&m.id), "pk": pk_tok(&m.pubkey), "k": m.kind.as_u16() as i64,
        "ca": m.created_at.as_secs() as i64, "pa": m.processed_at.as_secs() as i64, "c": m.content, "t": tags_tok(&m.tags),
        "ev": ev, "w": eid_tok(&m.wrapper_event_id), "ep": opt_u64_tok(&m.epoch), "st": m.state.as_str(),
    })
}

pub fn pmstate(x: &str) -> ProcessedMessageState {
    match x {
        "created" => ProcessedMessageState::Created,
        "processed" => ProcessedMessageState::Processed,
        "processed_commit" => ProcessedMessageState::ProcessedCommit,
        "failed" => ProcessedMessageState::Failed,
        "retryable" => ProcessedMessageState::Retryable,
        _ => ProcessedMessageState::EpochInvalidated,
    }
}
pub fn processed(w: i64, r: &Value) -> ProcessedMessage {
    let g = s(r, "g");
    let fr = s(r, "fr");
    ProcessedMessage {
        wrapper_event_id: eid(w),
        message_event_id: opt_eid(i(r, "mid")),
        processed_at: ts(i(r, "pa")),
        epoch: opt_u64(i(r, "ep")),
        mls_group_id: if g.is_empty() { None } else { Some(gid(g)) },
        state: pmstate(s(r, "st")),
        failure_reason: if fr.is_empty() { None } else { Some(fr.to_string()) },
    }
}
pub fn processed_tok(p: &ProcessedMessage) -> Value {
    json!({
        "w": eid_tok(&p.wrapper_event_id), "mid": opt_eid_tok(&p.message_event_id), "pa": p.processed_at.as_secs() as i64,
        "ep": opt_u64_tok(&p.epoch), "g": p.mls_group_id.as_ref().map(gid_tok).unwrap_or_default(),
        "st": p.state.as_str(), "fr": p.failure_reason.clone().unwrap_or_default(),
    })
}

pub fn wstate(x: &str) -> WelcomeState {
    match x {
        "pending" => WelcomeState::Pending,
        "accepted" => WelcomeState::Accepted,
        "declined" => WelcomeState::Declined,
        _ => WelcomeState::Ignored,
    }
}
pub fn welcome(id: i64, r: &Value) -> Welcome {
    let welcomer = pk(s(r, "by"));
    let (group_image_hash, group_image_key, group_image_nonce) = img_of(i(r, "img"));
    Welcome {
        id: eid(id),
        event: UnsignedEvent::new(welcomer, ts(5), Kind::from(444u16), Tags::new(), s(r, "ev").to_string()),
        mls_group_id: gid(s(r, "g")),
        nostr_group_id: nid(s(r, "nid")),
        group_name: s(r, "name").to_string(),
        group_description: s(r, "desc").to_string(),
        group_image_hash,
        group_image_key,
        group_image_nonce,
        group_admin_pubkeys: pkset(s(r, "admins")),
        group_relays: relayset(s(r, "relays")),
        welcomer,
        member_count: i(r, "mc") as u32,
        state: wstate(s(r, "st")),
        wrapper_event_id: eid(i(r, "w")),
    }
}
pub fn welcome_tok(w: &Welcome) -> Value {
    let ev_ok = w.event.pubkey == w.welcomer && w.event.created_at == ts(5) && w.event.kind == Kind::from(444u16) && w.event.tags.is_empty();
    let ev = if ev_ok { w.event.content.clone() } else { format!("?event differs: {}", w.event.content) };
    json!({
        "id": eid_tok(&w.id), "ev": ev, "g": gid_tok(&w.mls_group_id), "nid": nid_tok(&w.nostr_group_id),
        "name": w.group_name, "desc": w.group_description,
        "img": img_tok(&w.group_image_hash, &w.group_image_key, &w.group_image_nonce),
        "admins": pkset_tok(&w.group_admin_pubkeys), "relays": relayset_tok(w.group_relays.iter()),
        "by": pk_tok(&w.welcomer), "mc": w.member_count as i64, "st": w.state.as_str(), "w": eid_tok(&w.wrapper_event_id),
    })
}
pub fn pwstate(x: &str) -> ProcessedWelcomeState {
    match x {
        "processed" => ProcessedWelcomeState::Processed,
        _ => ProcessedWelcomeState::Failed,
    }
}
pub fn pwelcome(w: i64, r: &Value) -> ProcessedWelcome {
    let fr = s(r, "fr");
    ProcessedWelcome {
        wrapper_event_id: eid(w),
        welcome_event_id: opt_eid(i(r, "wid")),
        processed_at: ts(i(r, "pa")),
        state: pwstate(s(r, "st")),
        failure_reason: if fr.is_empty() { None } else { Some(fr.to_string()) },
    }
}
pub fn pwelcome_tok(p: &ProcessedWelcome) -> Value {
    json!({
        "w": eid_tok(&p.wrapper_event_id), "wid": opt_eid_tok(&p.welcome_event_id), "pa": p.processed_at.as_secs() as i64,
        "st": p.state.as_str(), "fr": p.failure_reason.clone().unwrap_or_default(),
    })
}
