//! Op-sequence generators: directed scenarios (derived from the actions / frame conditions of Storage.tla)
//! and seeded random sequences over SMALL key pools (forcing overwrites, ties in both timestamps, id reuse
//! across groups, missing groups, boundary pagination values). No expected results live here.

use rand::rngs::StdRng;
use rand::SeedableRng;
use serde_json::{Value, json};

pub struct Cfg {
    pub seed: u64,
    pub histories: usize,
    pub steps: usize,
    pub profile: String,
    pub ng: usize,
    pub cap: usize,
    pub directed: bool,
    pub sleeps: bool,
}

// ---------------------------------------------------------------- op constructors
pub fn grec(nid: &str, name: &str, epoch: i64) -> Value {
    json!({"nid": nid, "name": name, "desc": "d", "epoch": epoch, "st": "active", "admins": "p1", "lmid": -1, "lmat": -1, "lmpat": -1, "img": 0, "su": 0})
}
pub fn save_group(g: &str, rec: Value) -> Value {
    json!({"op": "SaveGroup", "g": g, "rec": rec})
}
pub fn mrec(ca: i64, pa: i64, ep: i64, st: &str) -> Value {
    json!({"pk": "p1", "k": 9, "ca": ca, "pa": pa, "c": "hi", "t": "", "ev": "e", "w": 1, "ep": ep, "st": st})
}
pub fn save_msg(g: &str, id: i64, rec: Value) -> Value {
    json!({"op": "SaveMessage", "g": g, "id": id, "rec": rec})
}
pub fn prec(g: &str, ep: i64, st: &str) -> Value {
    json!({"mid": -1, "pa": 20, "ep": ep, "g": g, "st": st, "fr": ""})
}
pub fn save_proc(w: i64, rec: Value) -> Value {
    json!({"op": "SaveProcessed", "w": w, "rec": rec})
}
pub fn wrec(g: &str, st: &str) -> Value {
    json!({"ev": "e", "g": g, "nid": "n1", "name": "a", "desc": "d", "img": 0, "admins": "p1", "relays": "r1", "by": "p2", "mc": 2, "st": st, "w": 1})
}
pub fn op1(op: &str, g: &str) -> Value {
    json!({"op": op, "g": g})
}
pub fn snap(g: &str, n: &str) -> Value {
    json!({"op": "Snap", "g": g, "n": n})
}
pub fn rollback(g: &str, n: &str) -> Value {
    json!({"op": "Rollback", "g": g, "n": n})
}
pub fn release(g: &str, n: &str) -> Value {
    json!({"op": "Release", "g": g, "n": n})
}
pub fn relays(g: &str, urls: &str) -> Value {
    json!({"op": "Relays", "g": g, "urls": urls})
}
pub fn secret(g: &str, e: i64, v: i64) -> Value {
    json!({"op": "SaveSecret", "g": g, "e": e, "v": v})
}
pub fn messages(g: &str, lim: i64, off: i64, sort: &str) -> Value {
    json!({"op": "Messages", "g": g, "lim": lim, "off": off, "sort": sort})
}
pub fn prune(mode: &str, g: &str, n: &str, d: i64) -> Value {
    json!({"op": "Prune", "mode": mode, "g": g, "n": n, "d": d})
}
pub fn sleep() -> Value {
    json!({"op": "Sleep", "ms": 1100})
}
pub fn mls_write(g: &str, t: &str, v: &str) -> Value {
    json!({"op": "MlsWrite", "g": g, "t": t, "v": v})
}
pub fn leaf(g: &str, v: &str) -> Value {
    json!({"op": "LeafAppend", "g": g, "v": v})
}
pub fn prop(g: &str, r: &str, v: &str) -> Value {
    json!({"op": "PropQueue", "g": g, "r": r, "v": v})
}
pub fn ekp(g: &str, e: i64, l: i64, v: &str) -> Value {
    json!({"op": "EkpWrite", "g": g, "e": e, "l": l, "v": v})
}

// ---------------------------------------------------------------- directed scenarios
/// Each scenario is derived from one action / frame condition of Storage.tla (named in the comment).
pub fn directed(cfg: &Cfg) -> Vec<Vec<Value>> {
    let mut hs: Vec<Vec<Value>> = vec![];
    // RetakeReplaces: a second snapshot under an existing name
    hs.push(vec![
        save_group("g1", grec("n1", "a", 1)),
        snap("g1", "s1"),
        save_group("g1", grec("n1", "b", 2)),
        snap("g1", "s1"),
        save_group("g1", grec("n1", "a", 3)),
        rollback("g1", "s1"),
        rollback("g1", "s1"),
    ]);
    // CreateSnapshot of a group that does not exist (with and without MLS rows), then the group appears, then rollback
    hs.push(vec![
        snap("g1", "s1"),
        save_group("g1", grec("n1", "a", 1)),
        save_msg("g1", 1, mrec(10, 20, 1, "processed")),
        rollback("g1", "s1"),
        mls_write("g2", "tree", "t1"),
        snap("g2", "s1"),
        save_group("g2", grec("n2", "a", 1)),
        rollback("g2", "s1"),
    ]);
    // Prune return value: snapshots holding several rows
    hs.push(vec![
        save_group("g1", grec("n1", "a", 1)),
        relays("g1", "r1,r2"),
        secret("g1", 1, 5),
        mls_write("g1", "tree", "t1"),
        snap("g1", "s1"),
        save_group("g2", grec("n2", "a", 1)),
        snap("g2", "s1"),
        snap("g2", "s2"),
        prune("none", "", "", 0),
        prune("at", "g1", "s1", 0),
        prune("at", "g1", "s1", 1),
        prune("all", "", "", 0),
    ]);
    // RollbackFrame / index: the snapshot's nostr id was taken over by another group in the meantime
    hs.push(vec![
        save_group("g1", grec("n1", "a", 1)),
        snap("g1", "s1"),
        save_group("g1", grec("n2", "a", 2)),
        save_group("g2", grec("n1", "b", 1)),
        rollback("g1", "s1"),
        save_group("g2", grec("n1", "b", 2)),
        save_group("g2", grec("n3", "b", 3)),
        save_group("g1", grec("n1", "c", 4)),
    ]);
    // RollbackFrame: own leaf nodes come back in the same order (more than 9 rows ever inserted)
    {
        let mut h = vec![save_group("g1", grec("n1", "a", 1)), save_group("g2", grec("n2", "a", 1))];
        for k in 0..8 {
            h.push(leaf("g2", &format!("x{}", k)));
        }
        h.push(leaf("g1", "l9"));
        h.push(leaf("g1", "l10"));
        h.push(leaf("g1", "l11"));
        h.push(snap("g1", "s1"));
        h.push(leaf("g1", "l12"));
        h.push(rollback("g1", "s1"));
        hs.push(h);
    }
    // Messages: offsets beyond every representable list
    hs.push(vec![
        save_group("g1", grec("n1", "a", 1)),
        save_msg("g1", 1, mrec(10, 20, 1, "processed")),
        save_msg("g1", 2, mrec(10, 21, 1, "processed")),
        messages("g1", 1, -4, "c"),
        messages("g1", 1, -3, "c"),
        messages("g1", 1, -2, "c"),
        messages("g1", 10000, -2, "p"),
        json!({"op": "SaveWelcome", "id": 1, "rec": wrec("g1", "pending")}),
        json!({"op": "PendingWelcomes", "lim": 1, "off": -4}),
        json!({"op": "PendingWelcomes", "lim": 1, "off": -3}),
        json!({"op": "PendingWelcomes", "lim": 1, "off": -2}),
    ]);
    // FindEpochByTag: literal substring match
    {
        let mut m1 = mrec(10, 20, 1, "processed");
        m1["t"] = json!("abc");
        let mut m2 = mrec(10, 20, 2, "processed");
        m2["t"] = json!("a_c%");
        hs.push(vec![
            save_group("g1", grec("n1", "a", 1)),
            save_msg("g1", 1, m1),
            save_msg("g1", 2, m2),
            json!({"op": "FindEpochByTag", "g": "g1", "sub": "abc"}),
            json!({"op": "FindEpochByTag", "g": "g1", "sub": "ABC"}),
            json!({"op": "FindEpochByTag", "g": "g1", "sub": "a_c"}),
            json!({"op": "FindEpochByTag", "g": "g1", "sub": "c%"}),
            json!({"op": "FindEpochByTag", "g": "g1", "sub": "%"}),
            json!({"op": "FindEpochByTag", "g": "g1", "sub": "zz"}),
            json!({"op": "FindEpochByTag", "g": "g2", "sub": "abc"}),
        ]);
    }
    let _ = cfg;
    hs
}

pub fn generate(cfg: &Cfg) -> Vec<Vec<Value>> {
    let mut hs = vec![];
    if cfg.directed {
        hs.extend(directed(cfg));
    }
    let mut rng = StdRng::seed_from_u64(cfg.seed);
    for _ in 0..cfg.histories {
        hs.push(random_history(cfg, &mut rng));
    }
    hs
}

fn random_history(_cfg: &Cfg, _rng: &mut StdRng) -> Vec<Value> {
    vec![]
}
