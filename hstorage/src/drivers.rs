//! Op-sequence generators: directed scenarios (derived from the actions / frame conditions of Storage.tla)
//! and seeded random sequences over SMALL key pools (forcing overwrites, ties in both timestamps, id reuse
//! across groups, missing groups, boundary pagination values). No expected results live here.

use rand::rngs::StdRng;
use rand::{Rng, SeedableRng};
use serde_json::{Value, json};

pub struct Cfg {
    pub seed: u64,
    pub histories: usize,
    pub steps: usize,
    pub profile: String,
    pub ng: usize,
    pub cap: usize,
    pub directed: bool,
    pub sleeps: bool,
}

// ---------------------------------------------------------------- op constructors
pub fn grec(nid: &str, name: &str, epoch: i64) -> Value {
    json!({"nid": nid, "name": name, "desc": "d", "epoch": epoch, "st": "active", "admins": "p1", "lmid": -1, "lmat": -1, "lmpat": -1, "img": 0, "su": 0})
}
pub fn save_group(g: &str, rec: Value) -> Value {
    json!({"op": "SaveGroup", "g": g, "rec": rec})
}
pub fn mrec(ca: i64, pa: i64, ep: i64, st: &str) -> Value {
    json!({"pk": "p1", "k": 9, "ca": ca, "pa": pa, "c": "hi", "t": "", "ev": "e", "w": 1, "ep": ep, "st": st})
}
pub fn save_msg(g: &str, id: i64, rec: Value) -> Value {
    json!({"op": "SaveMessage", "g": g, "id": id, "rec": rec})
}
pub fn prec(g: &str, ep: i64, st: &str) -> Value {
    json!({"mid": -1, "pa": 20, "ep": ep, "g": g, "st": st, "fr": ""})
}
pub fn save_proc(w: i64, rec: Value) -> Value {
    json!({"op": "SaveProcessed", "w": w, "rec": rec})
}
pub fn wrec(g: &str, st: &str) -> Value {
    json!({"ev": "e", "g": g, "nid": "n1", "name": "a", "desc": "d", "img": 0, "admins": "p1", "relays": "r1", "by": "p2", "mc": 2, "st": st, "w": 1})
}
pub fn op1(op: &str, g: &str) -> Value {
    json!({"op": op, "g": g})
}
pub fn snap(g: &str, n: &str) -> Value {
    json!({"op": "Snap", "g": g, "n": n})
}
pub fn rollback(g: &str, n: &str) -> Value {
    json!({"op": "Rollback", "g": g, "n": n})
}
pub fn release(g: &str, n: &str) -> Value {
    json!({"op": "Release", "g": g, "n": n})
}
pub fn relays(g: &str, urls: &str) -> Value {
    let u: Vec<&str> = urls.split(',').filter(|x| !x.is_empty()).collect();
    json!({"op": "Relays", "g": g, "urls": u})
}
pub fn secret(g: &str, e: i64, v: i64) -> Value {
    json!({"op": "SaveSecret", "g": g, "e": e, "v": v})
}
pub fn messages(g: &str, lim: i64, off: i64, sort: &str) -> Value {
    json!({"op": "Messages", "g": g, "lim": lim, "off": off, "sort": sort})
}
pub fn prune(mode: &str, g: &str, n: &str, d: i64) -> Value {
    json!({"op": "Prune", "mode": mode, "g": g, "n": n, "d": d})
}
pub fn sleep() -> Value {
    json!({"op": "Sleep", "ms": 1100})
}
pub fn mls_write(g: &str, t: &str, v: &str) -> Value {
    json!({"op": "MlsWrite", "g": g, "t": t, "v": v})
}
pub fn leaf(g: &str, v: &str) -> Value {
    json!({"op": "LeafAppend", "g": g, "v": v})
}
pub fn prop(g: &str, r: &str, v: &str) -> Value {
    json!({"op": "PropQueue", "g": g, "r": r, "v": v})
}
pub fn ekp(g: &str, e: i64, l: i64, v: &str) -> Value {
    json!({"op": "EkpWrite", "g": g, "e": e, "l": l, "v": v})
}

// ---------------------------------------------------------------- directed scenarios
/// Each scenario is derived from one action / frame condition of Storage.tla (named in the comment).
pub fn directed(cfg: &Cfg) -> Vec<Vec<Value>> {
    let mut hs: Vec<Vec<Value>> = vec![];
    // RetakeReplaces: a second snapshot under an existing name
    hs.push(vec![
        save_group("g1", grec("n1", "a", 1)),
        snap("g1", "s1"),
        save_group("g1", grec("n1", "b", 2)),
        snap("g1", "s1"),
        save_group("g1", grec("n1", "a", 3)),
        rollback("g1", "s1"),
        rollback("g1", "s1"),
    ]);
    // CreateSnapshot of a group that does not exist (with and without MLS rows), then the group appears, then rollback
    hs.push(vec![
        snap("g1", "s1"),
        save_group("g1", grec("n1", "a", 1)),
        save_msg("g1", 1, mrec(10, 20, 1, "processed")),
        rollback("g1", "s1"),
        mls_write("g2", "tree", "t1"),
        snap("g2", "s1"),
        save_group("g2", grec("n2", "a", 1)),
        rollback("g2", "s1"),
    ]);
    // Prune return value: snapshots holding several rows
    hs.push(vec![
        save_group("g1", grec("n1", "a", 1)),
        relays("g1", "r1,r2"),
        secret("g1", 1, 5),
        mls_write("g1", "tree", "t1"),
        snap("g1", "s1"),
        save_group("g2", grec("n2", "a", 1)),
        snap("g2", "s1"),
        snap("g2", "s2"),
        prune("none", "", "", 0),
        prune("at", "g1", "s1", 0),
        prune("at", "g1", "s1", 1),
        prune("all", "", "", 0),
    ]);
    // RollbackFrame / index: the snapshot's nostr id was taken over by another group in the meantime
    hs.push(vec![
        save_group("g1", grec("n1", "a", 1)),
        snap("g1", "s1"),
        save_group("g1", grec("n2", "a", 2)),
        save_group("g2", grec("n1", "b", 1)),
        rollback("g1", "s1"),
        save_group("g2", grec("n1", "b", 2)),
        save_group("g2", grec("n3", "b", 3)),
        save_group("g1", grec("n1", "c", 4)),
    ]);
    // RollbackFrame: own leaf nodes come back in the same order (more than 9 rows ever inserted)
    {
        let mut h = vec![save_group("g1", grec("n1", "a", 1)), save_group("g2", grec("n2", "a", 1))];
        for k in 0..8 {
            h.push(leaf("g2", &format!("x{}", k)));
        }
        h.push(leaf("g1", "l9"));
        h.push(leaf("g1", "l10"));
        h.push(leaf("g1", "l11"));
        h.push(snap("g1", "s1"));
        h.push(leaf("g1", "l12"));
        h.push(rollback("g1", "s1"));
        hs.push(h);
    }
    // Messages: offsets beyond every representable list
    hs.push(vec![
        save_group("g1", grec("n1", "a", 1)),
        save_msg("g1", 1, mrec(10, 20, 1, "processed")),
        save_msg("g1", 2, mrec(10, 21, 1, "processed")),
        messages("g1", 1, -4, "c"),
        messages("g1", 1, -3, "c"),
        messages("g1", 1, -2, "c"),
        messages("g1", 10000, -2, "p"),
        json!({"op": "SaveWelcome", "id": 1, "rec": wrec("g1", "pending")}),
        json!({"op": "PendingWelcomes", "lim": 1, "off": -4}),
        json!({"op": "PendingWelcomes", "lim": 1, "off": -3}),
        json!({"op": "PendingWelcomes", "lim": 1, "off": -2}),
    ]);
    // FindEpochByTag: literal substring match
    {
        let mut m1 = mrec(10, 20, 1, "processed");
        m1["t"] = json!("abc");
        let mut m2 = mrec(10, 20, 2, "processed");
        m2["t"] = json!("a_c%");
        hs.push(vec![
            save_group("g1", grec("n1", "a", 1)),
            save_msg("g1", 1, m1),
            save_msg("g1", 2, m2),
            json!({"op": "FindEpochByTag", "g": "g1", "sub": "abc"}),
            json!({"op": "FindEpochByTag", "g": "g1", "sub": "ABC"}),
            json!({"op": "FindEpochByTag", "g": "g1", "sub": "a_c"}),
            json!({"op": "FindEpochByTag", "g": "g1", "sub": "c%"}),
            json!({"op": "FindEpochByTag", "g": "g1", "sub": "%"}),
            json!({"op": "FindEpochByTag", "g": "g1", "sub": "zz"}),
            json!({"op": "FindEpochByTag", "g": "g2", "sub": "abc"}),
        ]);
    }
    // Rollback consumes only (g, n): the same name live for two groups (and a sibling snapshot of the same group)
    hs.push(vec![
        save_group("g1", grec("n1", "a", 1)),
        save_group("g2", grec("n2", "a", 1)),
        snap("g1", "s1"),
        snap("g2", "s1"),
        snap("g1", "s2"),
        save_group("g1", grec("n1", "b", 2)),
        save_group("g2", grec("n2", "b", 2)),
        rollback("g1", "s1"),
        rollback("g2", "s1"),
        rollback("g1", "s2"),
    ]);
    // RollbackExact: a snapshot taken while the relay set / secrets / MLS rows were EMPTY removes what was added later
    hs.push(vec![
        save_group("g1", grec("n1", "a", 1)),
        snap("g1", "s1"),
        relays("g1", "r1,r2"),
        secret("g1", 1, 7),
        mls_write("g1", "tree", "t1"),
        leaf("g1", "a"),
        prop("g1", "q1", "t1"),
        ekp("g1", 0, 0, "k1"),
        rollback("g1", "s1"),
    ]);
    // RollbackExact + index: the nostr id rotated after the snapshot; another group then wants the rotated id
    hs.push(vec![
        save_group("g1", grec("n1", "a", 1)),
        snap("g1", "s1"),
        save_group("g1", grec("n2", "b", 2)),
        rollback("g1", "s1"),
        save_group("g2", grec("n2", "c", 1)),
        save_group("g2", grec("n1", "c", 2)),
    ]);
    // RollbackExact: same nostr id before and after, the record changed (every reader must see the restored record)
    hs.push(vec![
        save_group("g1", grec("n1", "a", 1)),
        snap("g1", "s1"),
        save_group("g1", grec("n1", "b", 2)),
        rollback("g1", "s1"),
        save_group("g2", grec("n2", "a", 1)),
    ]);
    // RollbackExact: the last-message pointer of the record is part of the record
    {
        let mut r0 = grec("n1", "a", 1);
        r0["lmid"] = json!(1);
        r0["lmat"] = json!(10);
        r0["lmpat"] = json!(20);
        let mut r1 = grec("n1", "a", 2);
        r1["lmid"] = json!(2);
        r1["lmat"] = json!(11);
        r1["lmpat"] = json!(21);
        hs.push(vec![
            save_group("g1", r0),
            save_msg("g1", 1, mrec(10, 20, 1, "processed")),
            snap("g1", "s1"),
            save_msg("g1", 2, mrec(11, 21, 2, "processed")),
            save_group("g1", r1),
            rollback("g1", "s1"),
            json!({"op": "InvalidateMsgs", "g": "g1", "e": 1}),
        ]);
    }
    // Sorted / LastMessage: ties on created_at, processed_at order opposite to id order; both sort modes; every page
    hs.push(vec![
        save_group("g1", grec("n1", "a", 1)),
        save_msg("g1", 1, mrec(10, 21, 1, "processed")),
        save_msg("g1", 3, mrec(10, 20, 1, "processed")),
        save_msg("g1", 2, mrec(10, 20, 1, "processed")),
        save_msg("g1", 4, mrec(9, 22, 1, "processed")),
        messages("g1", 1, 0, "c"),
        messages("g1", 1, 1, "c"),
        messages("g1", 2, 2, "c"),
        messages("g1", 3, 3, "p"),
        messages("g1", 0, 0, "c"),
        messages("g1", 10000, 0, "p"),
        messages("g1", 10001, 0, "p"),
        messages("g2", 1, 0, "c"),
        messages("g1", -1, -1, ""),
        json!({"op": "Messages", "g": "g1", "lim": -1, "off": -1, "sort": "", "nopg": 1}),
        messages("g1", 2, 1000000, "c"),
    ]);
    // SaveMessage is an upsert on (group, id): every field of a re-saved message is the new one (incl. processed_at)
    hs.push(vec![
        save_group("g1", grec("n1", "a", 1)),
        save_msg("g1", 1, mrec(10, 20, 1, "created")),
        save_msg("g1", 2, mrec(10, 21, 1, "processed")),
        save_msg("g1", 1, json!({"pk": "p2", "k": 7, "ca": 11, "pa": 22, "c": "yo", "t": "abc", "ev": "f", "w": 2, "ep": 2, "st": "processed"})),
        save_msg("g1", 1, mrec(10, 22, 1, "processed")),
    ]);
    // InvalidateMsgs / InvalidateProc select exactly epoch > n of THAT group: same ids and wrappers live in two groups
    hs.push(vec![
        save_group("g1", grec("n1", "a", 1)),
        save_group("g2", grec("n2", "a", 1)),
        save_msg("g1", 1, mrec(10, 20, 2, "processed")),
        save_msg("g2", 1, mrec(10, 20, 2, "processed")),
        save_msg("g1", 2, mrec(10, 20, 1, "processed")),
        save_msg("g2", 2, mrec(10, 20, -1, "processed")),
        save_proc(1, prec("g1", 2, "processed")),
        save_proc(2, prec("g2", 2, "processed")),
        save_proc(3, prec("", 2, "processed")),
        json!({"op": "InvalidateMsgs", "g": "g1", "e": 1}),
        json!({"op": "InvalidateProc", "g": "g1", "e": 1}),
        json!({"op": "InvalidateMsgs", "g": "g3", "e": 0}),
        save_msg("g1", 1, mrec(10, 20, 2, "processed")),
        json!({"op": "InvalidateMsgs", "g": "g2", "e": 2}),
        json!({"op": "InvalidateMsgs", "g": "g2", "e": 0}),
    ]);
    // MarkRetryable only from Failed; FailedForRetry = Failed, no epoch, that group
    hs.push(vec![
        save_group("g1", grec("n1", "a", 1)),
        save_proc(1, prec("g1", -1, "failed")),
        save_proc(2, prec("g1", 1, "failed")),
        save_proc(3, prec("g2", -1, "failed")),
        json!({"op": "MarkRetryable", "w": 1}),
        json!({"op": "MarkRetryable", "w": 1}),
        json!({"op": "MarkRetryable", "w": 4}),
        save_proc(2, prec("g1", -1, "processed")),
        json!({"op": "MarkRetryable", "w": 2}),
        save_proc(2, prec("", -1, "failed")),
    ]);
    // SaveGroup: re-save with another nostr id (rotation), and a nostr id held by another group (refused, nothing lost)
    hs.push(vec![
        save_group("g1", grec("n1", "a", 1)),
        relays("g1", "r1"),
        secret("g1", 0, 3),
        save_msg("g1", 1, mrec(10, 20, 1, "processed")),
        save_group("g2", grec("n1", "b", 1)),
        save_group("g2", grec("n2", "b", 1)),
        save_group("g1", grec("n3", "a", 2)),
        save_group("g2", grec("n1", "b", 2)),
        save_group("g1", grec("n1", "a", 3)),
    ]);
    // queued proposals / leaf nodes / epoch key pairs / group data are part of the copy
    hs.push(vec![
        save_group("g1", grec("n1", "a", 1)),
        prop("g1", "q1", "t1"),
        prop("g1", "q2", "t2"),
        leaf("g1", "a"),
        ekp("g1", 1, 0, "k1,k2"),
        mls_write("g1", "group_state", "t1"),
        mls_write("g2", "group_state", "t2"),
        snap("g1", "s1"),
        op1("PropClear", "g1"),
        prop("g1", "q1", "t2"),
        op1("LeafDelete", "g1"),
        json!({"op": "EkpDelete", "g": "g1", "e": 1, "l": 0}),
        json!({"op": "MlsDelete", "g": "g1", "t": "group_state"}),
        json!({"op": "GWrite", "tbl": "kp", "k": "k1", "v": "t1"}),
        json!({"op": "GWrite", "tbl": "sig", "k": "k1", "v": "t2"}),
        rollback("g1", "s1"),
        json!({"op": "PropRemove", "g": "g1", "r": "q2"}),
        json!({"op": "GDelete", "tbl": "kp", "k": "k1"}),
    ]);
    // nested snapshots in both orders; release; other tables are never touched
    hs.push(vec![
        save_group("g1", grec("n1", "a", 1)),
        json!({"op": "SaveWelcome", "id": 2, "rec": wrec("g1", "pending")}),
        json!({"op": "SaveWelcome", "id": 1, "rec": wrec("g2", "pending")}),
        json!({"op": "SaveWelcome", "id": 3, "rec": wrec("g1", "accepted")}),
        json!({"op": "SaveProcessedWelcome", "w": 1, "rec": {"wid": 1, "pa": 20, "st": "processed", "fr": ""}}),
        json!({"op": "PendingWelcomes", "lim": 1, "off": 0}),
        json!({"op": "PendingWelcomes", "lim": 1, "off": 1}),
        json!({"op": "PendingWelcomes", "lim": 0, "off": 0}),
        json!({"op": "PendingWelcomes", "lim": 10001, "off": 0}),
        json!({"op": "PendingWelcomes", "lim": -1, "off": -1, "nopg": 1}),
        snap("g1", "s1"),
        save_group("g1", grec("n1", "a", 2)),
        snap("g1", "s2"),
        save_group("g1", grec("n1", "a", 3)),
        rollback("g1", "s1"),
        rollback("g1", "s2"),
        snap("g1", "s1"),
        release("g1", "s1"),
        release("g1", "s1"),
        rollback("g1", "s1"),
    ]);
    if cfg.sleeps {
        // Prune by age: snapshots one second apart (created_at is read back, never predicted)
        hs.push(vec![
            save_group("g1", grec("n1", "a", 1)),
            save_group("g2", grec("n2", "a", 1)),
            snap("g1", "s1"),
            sleep(),
            snap("g2", "s1"),
            snap("g1", "s2"),
            prune("at", "g2", "s1", 0),
            snap("g1", "s1"),
            prune("at", "g1", "s1", 1),
        ]);
    }
    if cfg.cap > 0 {
        // per-group cap (memory backend knob): only a NEW id at a full group evicts, and then an oldest message
        hs.push(vec![
            save_group("g1", grec("n1", "a", 1)),
            save_msg("g1", 1, mrec(10, 20, 1, "created")),
            save_msg("g1", 2, mrec(11, 20, 1, "created")),
            save_msg("g1", 3, mrec(12, 20, 1, "created")),
            save_msg("g1", 2, mrec(11, 21, 1, "processed")),
            save_msg("g1", 3, mrec(12, 21, 1, "processed")),
            save_msg("g1", 4, mrec(9, 21, 1, "processed")),
            save_msg("g1", 1, mrec(13, 21, 1, "processed")),
        ]);
    }
    hs
}

pub fn generate(cfg: &Cfg) -> Vec<Vec<Value>> {
    let mut hs = vec![];
    if cfg.directed {
        hs.extend(directed(cfg));
    }
    let mut rng = StdRng::seed_from_u64(cfg.seed);
    for _ in 0..cfg.histories {
        hs.push(random_history(cfg, &mut rng));
    }
    hs
}

// ---------------------------------------------------------------- seeded random histories
fn pick<'a, T: Clone>(rng: &mut StdRng, xs: &'a [T]) -> T {
    xs[rng.gen_range(0..xs.len())].clone()
}

struct Gen<'a> {
    rng: &'a mut StdRng,
    groups: Vec<String>,
    exists: Vec<bool>, // optimistic bookkeeping to bias choices only (never used to judge a result)
}

impl Gen<'_> {
    fn g(&mut self) -> String {
        pick(self.rng, &self.groups)
    }
    /// mostly a group believed to exist
    fn ge(&mut self) -> String {
        let ex: Vec<String> = self.groups.iter().zip(&self.exists).filter(|(_, e)| **e).map(|(g, _)| g.clone()).collect();
        if !ex.is_empty() && self.rng.gen_bool(0.85) { pick(self.rng, &ex) } else { self.g() }
    }
    fn name(&mut self) -> String {
        pick(self.rng, &["s1", "s1", "s2"]).to_string()
    }
    fn group_rec(&mut self, g: &str) -> Value {
        let own = format!("n{}", &g[1..]);
        let nid = if self.rng.gen_bool(0.7) && g != "g4" { own } else { pick(self.rng, &["n1", "n2", "n3"]).to_string() };
        let lm = self.rng.gen_bool(0.5);
        json!({"nid": nid, "name": pick(self.rng, &["a", "b"]), "desc": pick(self.rng, &["d", ""]), "epoch": self.rng.gen_range(0..4),
               "st": pick(self.rng, &["active", "active", "inactive", "pending"]), "admins": pick(self.rng, &["", "p1", "p1,p2"]),
               "lmid": if lm { pick(self.rng, &[1, 2, 3]) } else { -1 }, "lmat": if lm { pick(self.rng, &[10, 11]) } else { pick(self.rng, &[-1, -1, 10]) },
               "lmpat": if lm { pick(self.rng, &[20, 21]) } else { -1 }, "img": pick(self.rng, &[0, 0, 3]), "su": pick(self.rng, &[0, 50])})
    }
    fn msg_rec(&mut self) -> Value {
        json!({"pk": pick(self.rng, &["p1", "p2"]), "k": pick(self.rng, &[9, 9, 7]), "ca": pick(self.rng, &[10, 10, 11]), "pa": pick(self.rng, &[20, 21, 21, 22]),
               "c": pick(self.rng, &["hi", "yo"]), "t": pick(self.rng, &["", "", "abc", "a_c%"]), "ev": pick(self.rng, &["e", "f"]), "w": pick(self.rng, &[1, 2, 3]),
               "ep": pick(self.rng, &[-1, 0, 1, 2, 3]), "st": pick(self.rng, &["created", "processed", "processed", "deleted", "epoch_invalidated"])})
    }
    fn proc_rec(&mut self) -> Value {
        let g = if self.rng.gen_bool(0.2) { String::new() } else { self.g() };
        json!({"mid": pick(self.rng, &[-1, 1, 2]), "pa": pick(self.rng, &[20, 21]), "ep": pick(self.rng, &[-1, -1, 0, 1, 2]), "g": g,
               "st": pick(self.rng, &["created", "processed", "processed_commit", "failed", "failed", "epoch_invalidated", "retryable"]),
               "fr": pick(self.rng, &["", "boom"])})
    }
    fn welcome_rec(&mut self) -> Value {
        let g = self.g();
        json!({"ev": pick(self.rng, &["e", "f"]), "g": g, "nid": pick(self.rng, &["n1", "n2"]), "name": pick(self.rng, &["a", "b"]), "desc": "d",
               "img": pick(self.rng, &[0, 3]), "admins": pick(self.rng, &["", "p1", "p1,p2"]), "relays": pick(self.rng, &["", "r1", "r1,r2"]),
               "by": pick(self.rng, &["p1", "p2"]), "mc": pick(self.rng, &[2, 3]), "st": pick(self.rng, &["pending", "pending", "accepted", "declined", "ignored"]),
               "w": pick(self.rng, &[1, 2, 3])})
    }
    fn lim(&mut self) -> i64 {
        pick(self.rng, &[-1, 0, 1, 1, 2, 2, 3, 10000, 10001])
    }
    fn off(&mut self) -> i64 {
        pick(self.rng, &[-1, 0, 0, 1, 1, 2, 3, 5, 1000000, -4, -4, -3, -2])
    }

    fn op(&mut self, kind: &str) -> Value {
        match kind {
            "group" => {
                let g = if self.rng.gen_bool(0.6) { self.g() } else { self.ge() };
                let rec = self.group_rec(&g);
                if let Some(i) = self.groups.iter().position(|x| *x == g) {
                    self.exists[i] = true;
                }
                save_group(&g, rec)
            }
            "relays" => {
                let g = self.ge();
                relays(&g, pick(self.rng, &["", "r1", "r2", "r1,r2"]))
            }
            "secret" => {
                let g = self.ge();
                secret(&g, pick(self.rng, &[0, 1, 2]), pick(self.rng, &[1, 2, 3]))
            }
            "msg" => {
                let g = self.ge();
                let rec = self.msg_rec();
                save_msg(&g, pick(self.rng, &[1, 1, 2, 2, 3, 4]), rec)
            }
            "proc" => {
                let rec = self.proc_rec();
                save_proc(pick(self.rng, &[1, 2, 3]), rec)
            }
            "inval" => {
                let g = self.ge();
                json!({"op": pick(self.rng, &["InvalidateMsgs", "InvalidateMsgs", "InvalidateProc"]), "g": g, "e": pick(self.rng, &[0, 1, 2])})
            }
            "retry" => json!({"op": "MarkRetryable", "w": pick(self.rng, &[1, 2, 3])}),
            "tag" => {
                let g = self.ge();
                json!({"op": "FindEpochByTag", "g": g, "sub": pick(self.rng, &["abc", "b", "a_c", "c%", "%", "zz", "ABC", "B"])})
            }
            "list" => {
                let g = self.ge();
                let (l, o) = (self.lim(), self.off());
                if self.rng.gen_bool(0.05) {
                    json!({"op": "Messages", "g": g, "lim": -1, "off": -1, "sort": "", "nopg": 1})
                } else {
                    messages(&g, l, o, pick(self.rng, &["", "c", "c", "p", "p"]))
                }
            }
            "welcome" => {
                let rec = self.welcome_rec();
                json!({"op": "SaveWelcome", "id": pick(self.rng, &[1, 2, 3]), "rec": rec})
            }
            "pwelcome" => json!({"op": "SaveProcessedWelcome", "w": pick(self.rng, &[1, 2, 3]),
                                 "rec": {"wid": pick(self.rng, &[-1, 1, 2]), "pa": pick(self.rng, &[20, 21]), "st": pick(self.rng, &["processed", "failed"]), "fr": pick(self.rng, &["", "boom"])}}),
            "pending" => {
                let (l, o) = (self.lim(), self.off());
                if self.rng.gen_bool(0.1) { json!({"op": "PendingWelcomes", "lim": -1, "off": -1, "nopg": 1}) } else { json!({"op": "PendingWelcomes", "lim": l, "off": o}) }
            }
            "snap" => {
                let g = if self.rng.gen_bool(0.9) { self.ge() } else { self.g() };
                let n = self.name();
                snap(&g, &n)
            }
            "rollback" => {
                let g = self.ge();
                let n = self.name();
                rollback(&g, &n)
            }
            "release" => {
                let g = self.ge();
                let n = self.name();
                release(&g, &n)
            }
            "prune" => {
                let g = self.ge();
                let n = self.name();
                match self.rng.gen_range(0..6) {
                    0 => prune("none", "", "", 0),
                    1 => prune("all", "", "", 0),
                    2 | 3 => prune("at", &g, &n, 0),
                    _ => prune("at", &g, &n, 1),
                }
            }
            "gd" => {
                let g = self.ge();
                let t = if self.rng.gen_bool(0.8) { pick(self.rng, &["tree", "group_state", "context"]) } else { pick(self.rng, &crate::store::MLS_TYPES) };
                if self.rng.gen_bool(0.75) { mls_write(&g, t, pick(self.rng, &["t1", "t2"])) } else { json!({"op": "MlsDelete", "g": g, "t": t}) }
            }
            "leaf" => {
                let g = self.ge();
                if self.rng.gen_bool(0.9) { leaf(&g, pick(self.rng, &["a", "b", "c"])) } else { op1("LeafDelete", &g) }
            }
            "prop" => {
                let g = self.ge();
                match self.rng.gen_range(0..5) {
                    0 => op1("PropClear", &g),
                    1 => json!({"op": "PropRemove", "g": g, "r": pick(self.rng, &["q1", "q2"])}),
                    _ => prop(&g, pick(self.rng, &["q1", "q2"]), pick(self.rng, &["t1", "t2"])),
                }
            }
            "ekp" => {
                let g = self.ge();
                let (e, l) = (pick(self.rng, &[0, 1]), pick(self.rng, &[0, 1]));
                if self.rng.gen_bool(0.75) { ekp(&g, e, l, pick(self.rng, &["k1", "k1,k2", "k2"])) } else { json!({"op": "EkpDelete", "g": g, "e": e, "l": l}) }
            }
            "glob" => {
                let tbl = pick(self.rng, &["kp", "sig", "enc", "psk"]);
                let k = pick(self.rng, &["k1", "k2"]);
                if self.rng.gen_bool(0.75) { json!({"op": "GWrite", "tbl": tbl, "k": k, "v": pick(self.rng, &["t1", "t2"])}) } else { json!({"op": "GDelete", "tbl": tbl, "k": k}) }
            }
            _ => unreachable!(),
        }
    }
}

/// (kind, weight) per profile
fn weights(profile: &str) -> Vec<(&'static str, u32)> {
    match profile {
        // C09: group-scoped tables + snapshot calls, with the other tables populated so that their loss would show
        "snap" => vec![("group", 14), ("relays", 6), ("secret", 6), ("gd", 5), ("leaf", 7), ("prop", 5), ("ekp", 4), ("glob", 3),
                       ("msg", 8), ("proc", 4), ("welcome", 3), ("pwelcome", 1), ("inval", 2),
                       ("snap", 14), ("rollback", 12), ("release", 3), ("prune", 3)],
        // C18 / C10 listing: messages with colliding timestamps, every pagination value, invalidation, pointer fields
        "msgs" => vec![("group", 10), ("msg", 30), ("list", 22), ("inval", 7), ("proc", 6), ("retry", 3), ("tag", 4),
                       ("snap", 4), ("rollback", 4), ("prune", 1)],
        // C10: everything
        _ => vec![("group", 10), ("relays", 4), ("secret", 4), ("gd", 3), ("leaf", 4), ("prop", 3), ("ekp", 2), ("glob", 3),
                  ("msg", 14), ("proc", 8), ("inval", 5), ("retry", 4), ("tag", 3), ("list", 8),
                  ("welcome", 6), ("pwelcome", 3), ("pending", 5), ("snap", 6), ("rollback", 5), ("release", 2), ("prune", 2)],
    }
}

fn random_history(cfg: &Cfg, rng: &mut StdRng) -> Vec<Value> {
    let ng = rng.gen_range(1..=cfg.ng);
    let groups: Vec<String> = (1..=ng).map(|k| format!("g{}", k)).collect();
    let w = weights(&cfg.profile);
    let total: u32 = w.iter().map(|x| x.1).sum();
    let mut g = Gen { rng, exists: vec![false; groups.len()], groups };
    let mut h = vec![];
    // most histories start by creating a group, so that they do not spend their steps on refusals
    if g.rng.gen_bool(0.8) {
        let rec = g.group_rec("g1");
        g.exists[0] = true;
        h.push(save_group("g1", rec));
    }
    while h.len() < cfg.steps {
        let mut x = g.rng.gen_range(0..total);
        let mut kind = w[0].0;
        for (k, wt) in &w {
            if x < *wt {
                kind = k;
                break;
            }
            x -= wt;
        }
        h.push(g.op(kind));
    }
    h
}
