//! Executes one abstract storage operation against a REAL backend through the public traits and
//! projects the observable store (every read method, over fixed key pools) after it.
//! Nothing in here decides whether a result is right: that is StorageTrace.tla's job.

use std::panic::{AssertUnwindSafe, catch_unwind};

use mdk_memory_storage::{MdkMemoryStorage, ValidationLimits};
use mdk_sqlite_storage::{EncryptionConfig, MdkSqliteStorage};
use mdk_storage_traits::MdkStorageProvider;
use mdk_storage_traits::groups::types::GroupExporterSecret;
use mdk_storage_traits::groups::{MessageSortOrder, Pagination};
use mdk_storage_traits::welcomes::Pagination as WPagination;
use mdk_storage_traits::Secret;
use openmls_traits::storage::{Entity, Key, traits};
use serde::{Deserialize, Serialize};
use serde_json::{Value, json};

use crate::tok;

type OG = openmls::group::GroupId;

/// opaque MLS row content / key
#[derive(Serialize, Deserialize, Clone, PartialEq, Eq, Debug)]
pub struct Blob(pub Vec<u8>);
impl Key<1> for Blob {}
impl Entity<1> for Blob {}
impl traits::SignaturePublicKey<1> for Blob {}
impl traits::HashReference<1> for Blob {}
impl traits::PskId<1> for Blob {}
impl traits::EncryptionKey<1> for Blob {}
impl traits::QueuedProposal<1> for Blob {}
impl traits::TreeSync<1> for Blob {}
impl traits::GroupContext<1> for Blob {}
impl traits::InterimTranscriptHash<1> for Blob {}
impl traits::ConfirmationTag<1> for Blob {}
impl traits::SignatureKeyPair<1> for Blob {}
impl traits::PskBundle<1> for Blob {}
impl traits::HpkeKeyPair<1> for Blob {}
impl traits::GroupState<1> for Blob {}
impl traits::GroupEpochSecrets<1> for Blob {}
impl traits::LeafNodeIndex<1> for Blob {}
impl traits::MessageSecrets<1> for Blob {}
impl traits::ResumptionPskStore<1> for Blob {}
impl traits::KeyPackage<1> for Blob {}
impl traits::MlsGroupJoinConfig<1> for Blob {}
impl traits::LeafNode<1> for Blob {}
impl traits::ProposalRef<1> for Blob {}

#[derive(Serialize, Deserialize, Clone, PartialEq, Eq, Debug)]
pub struct EKey(pub u64);
impl Key<1> for EKey {}
impl traits::EpochKey<1> for EKey {}

fn blob(s: &str) -> Blob {
    Blob(s.as_bytes().to_vec())
}
fn blob_tok(b: &Blob) -> String {
    String::from_utf8_lossy(&b.0).to_string()
}

pub const MLS_TYPES: [&str; 10] = ["join_group_config", "tree", "interim_transcript_hash", "context", "confirmation_tag",
    "group_state", "message_secrets", "resumption_psk_store", "own_leaf_index", "group_epoch_secrets"];

pub struct Pools {
    pub groups: Vec<String>,
    pub nids: Vec<String>,
    pub ids: Vec<i64>,      // message ids
    pub ws: Vec<i64>,       // wrapper ids (processed messages / processed welcomes)
    pub wids: Vec<i64>,     // welcome ids
    pub epochs: Vec<i64>,   // exporter-secret epochs, epoch-key-pair epochs
    pub leaves: Vec<i64>,   // leaf indexes for epoch key pairs
    pub gkeys: Vec<String>, // keys of the global MLS tables
    pub names: Vec<String>, // snapshot names
}

impl Pools {
    pub fn standard(ng: usize) -> Pools {
        Pools {
            groups: (1..=ng).map(|k| format!("g{}", k)).collect(),
            nids: vec!["n1".into(), "n2".into(), "n3".into()],
            ids: vec![1, 2, 3, 4],
            ws: vec![1, 2, 3],
            wids: vec![1, 2, 3],
            epochs: vec![0, 1, 2],
            leaves: vec![0, 1],
            gkeys: vec!["k1".into(), "k2".into()],
            names: vec!["s1".into(), "s2".into()],
        }
    }
    pub fn to_json(&self) -> Value {
        json!({"groups": self.groups, "nids": self.nids, "ids": self.ids, "ws": self.ws, "wids": self.wids,
               "epochs": self.epochs, "leaves": self.leaves, "gkeys": self.gkeys, "names": self.names})
    }
}

pub enum Store {
    Mem(MdkMemoryStorage),
    Sql(MdkSqliteStorage, tempfile::TempDir),
}

impl Store {
    pub fn open(backend: &str, cap: usize) -> Store {
        match backend {
            "mem" => {
                if cap > 0 {
                    Store::Mem(MdkMemoryStorage::with_limits(ValidationLimits::default().with_max_messages_per_group(cap)))
                } else {
                    Store::Mem(MdkMemoryStorage::new())
                }
            }
            _ => {
                let dir = tempfile::tempdir().expect("tempdir");
                let p = dir.path().join("db.sqlite");
                let st = MdkSqliteStorage::new_with_key(&p, EncryptionConfig::new([7u8; 32])).expect("open sqlite");
                Store::Sql(st, dir)
            }
        }
    }
    pub fn exec(&self, op: &Value, pools: &Pools, base: i64) -> Value {
        match self {
            Store::Mem(s) => exec(s, op, pools, base),
            Store::Sql(s, _) => exec(s, op, pools, base),
        }
    }
}

fn s<'a>(v: &'a Value, k: &str) -> &'a str {
    v.get(k).and_then(|x| x.as_str()).unwrap_or_else(|| panic!("missing string field {} in {}", k, v))
}
fn i(v: &Value, k: &str) -> i64 {
    v.get(k).and_then(|x| x.as_i64()).unwrap_or_else(|| panic!("missing int field {} in {}", k, v))
}

fn variant<E: std::fmt::Debug>(e: &E) -> String {
    let d = format!("{:?}", e);
    d.split(|c: char| !c.is_alphanumeric()).next().unwrap_or("").to_string()
}

/// limit / offset codes: -1 = not given (None); offsets -2 = usize::MAX, -3 = 2^63, -4 = 2^63-1
fn lim_of(c: i64) -> Option<usize> {
    if c == -1 { None } else { Some(c as usize) }
}
fn off_of(c: i64) -> Option<usize> {
    match c {
        -1 => None,
        -2 => Some(usize::MAX),
        -3 => Some(1usize << 63),
        -4 => Some((1usize << 63) - 1),
        n => Some(n as usize),
    }
}
fn sort_of(c: &str) -> Option<MessageSortOrder> {
    match c {
        "c" => Some(MessageSortOrder::CreatedAtFirst),
        "p" => Some(MessageSortOrder::ProcessedAtFirst),
        _ => None,
    }
}

fn snap_at<S: MdkStorageProvider>(st: &S, g: &str, n: &str, base: i64) -> i64 {
    match st.list_group_snapshots(&tok::gid(g)) {
        Ok(l) => l.iter().find(|(name, _)| name == n).map(|(_, at)| *at as i64 - base).unwrap_or(-1),
        Err(_) => -1,
    }
}

macro_rules! res {
    ($out:ident, $r:expr) => {
        match $r {
            Ok(_) => {
                $out["res"] = json!("ok");
            }
            Err(e) => {
                $out["res"] = json!("err");
                $out["ek"] = json!(variant(&e));
            }
        }
    };
}

pub fn exec<S>(st: &S, op: &Value, pools: &Pools, base: i64) -> Value
where
    S: MdkStorageProvider,
{
    let mut out = op.clone();
    let name = s(op, "op").to_string();
    let r = catch_unwind(AssertUnwindSafe(|| {
        let mut out = json!({});
        match name.as_str() {
            "SaveGroup" => res!(out, st.save_group(tok::group(s(op, "g"), &op["rec"]))),
            "Relays" => {
                let urls = op["urls"].as_array().unwrap().iter().map(|u| tok::relay(u.as_str().unwrap())).collect();
                res!(out, st.replace_group_relays(&tok::gid(s(op, "g")), urls))
            }
            "SaveSecret" => res!(out, st.save_group_exporter_secret(GroupExporterSecret {
                mls_group_id: tok::gid(s(op, "g")),
                epoch: i(op, "e") as u64,
                secret: Secret::new([i(op, "v") as u8; 32]),
            })),
            "Messages" => {
                let (l, o, so) = (i(op, "lim"), i(op, "off"), s(op, "sort"));
                let pg = if l == -1 && o == -1 && so.is_empty() && op.get("nopg").is_some() {
                    None
                } else {
                    Some(Pagination { limit: lim_of(l), offset: off_of(o), sort_order: sort_of(so) })
                };
                match st.messages(&tok::gid(s(op, "g")), pg) {
                    Ok(v) => {
                        out["res"] = json!("ok");
                        out["ret"] = Value::Array(v.iter().map(tok::message_tok).collect());
                    }
                    Err(e) => {
                        out["res"] = json!("err");
                        out["ek"] = json!(variant(&e));
                        out["ret"] = json!([]);
                    }
                }
            }
            "SaveMessage" => res!(out, st.save_message(tok::message(s(op, "g"), i(op, "id"), &op["rec"]))),
            "SaveProcessed" => res!(out, st.save_processed_message(tok::processed(i(op, "w"), &op["rec"]))),
            "InvalidateMsgs" => match st.invalidate_messages_after_epoch(&tok::gid(s(op, "g")), i(op, "e") as u64) {
                Ok(v) => {
                    out["res"] = json!("ok");
                    out["ret"] = Value::Array(v.iter().map(|e| json!(tok::eid_tok(e))).collect());
                }
                Err(e) => {
                    out["res"] = json!("err");
                    out["ek"] = json!(variant(&e));
                    out["ret"] = json!([]);
                }
            },
            "InvalidateProc" => match st.invalidate_processed_messages_after_epoch(&tok::gid(s(op, "g")), i(op, "e") as u64) {
                Ok(v) => {
                    out["res"] = json!("ok");
                    out["ret"] = Value::Array(v.iter().map(|e| json!(tok::eid_tok(e))).collect());
                }
                Err(e) => {
                    out["res"] = json!("err");
                    out["ek"] = json!(variant(&e));
                    out["ret"] = json!([]);
                }
            },
            "MarkRetryable" => res!(out, st.mark_processed_message_retryable(&tok::eid(i(op, "w")))),
            "FindEpochByTag" => match st.find_message_epoch_by_tag_content(&tok::gid(s(op, "g")), s(op, "sub")) {
                Ok(v) => {
                    out["res"] = json!("ok");
                    out["ret"] = json!(tok::opt_u64_tok(&v));
                }
                Err(e) => {
                    out["res"] = json!("err");
                    out["ek"] = json!(variant(&e));
                    out["ret"] = json!(-1);
                }
            },
            "SaveWelcome" => res!(out, st.save_welcome(tok::welcome(i(op, "id"), &op["rec"]))),
            "SaveProcessedWelcome" => res!(out, st.save_processed_welcome(tok::pwelcome(i(op, "w"), &op["rec"]))),
            "PendingWelcomes" => {
                let (l, o) = (i(op, "lim"), i(op, "off"));
                let pg = if op.get("nopg").is_some() { None } else { Some(WPagination { limit: lim_of(l), offset: off_of(o) }) };
                match st.pending_welcomes(pg) {
                    Ok(v) => {
                        out["res"] = json!("ok");
                        out["ret"] = Value::Array(v.iter().map(tok::welcome_tok).collect());
                    }
                    Err(e) => {
                        out["res"] = json!("err");
                        out["ek"] = json!(variant(&e));
                        out["ret"] = json!([]);
                    }
                }
            }
            "Snap" => {
                let (g, n) = (s(op, "g"), s(op, "n"));
                res!(out, st.create_group_snapshot(&tok::gid(g), n));
                // created_at is wall-clock: it is read back and logged, never predicted
                out["at"] = json!(snap_at(st, g, n, base));
            }
            "Rollback" => res!(out, st.rollback_group_to_snapshot(&tok::gid(s(op, "g")), s(op, "n"))),
            "Release" => res!(out, st.release_group_snapshot(&tok::gid(s(op, "g")), s(op, "n"))),
            "Prune" => {
                // min_timestamp: "none" = 0, "all" = far future, "at" = created_at of snapshot (g, n) + d
                let min: i64 = match s(op, "mode") {
                    "none" => 0,
                    "all" => 1_000_000,
                    _ => {
                        let a = snap_at(st, s(op, "g"), s(op, "n"), base);
                        if a < 0 { 0 } else { a + i(op, "d") }
                    }
                };
                out["min"] = json!(min);
                let abs = if min == 0 { 0 } else { (min + base) as u64 };
                match st.prune_expired_snapshots(abs) {
                    Ok(n) => {
                        out["res"] = json!("ok");
                        out["ret"] = json!(n as i64);
                    }
                    Err(e) => {
                        out["res"] = json!("err");
                        out["ek"] = json!(variant(&e));
                        out["ret"] = json!(-1);
                    }
                }
            }
            "Sleep" => {
                std::thread::sleep(std::time::Duration::from_millis(i(op, "ms") as u64));
                out["res"] = json!("ok");
            }
            // ---- OpenMLS StorageProvider, group-scoped rows ----
            "MlsWrite" => {
                let g: OG = tok::gid(s(op, "g")).into();
                let v = blob(s(op, "v"));
                let r = match s(op, "t") {
                    "join_group_config" => st.write_mls_join_config(&g, &v),
                    "tree" => st.write_tree(&g, &v),
                    "interim_transcript_hash" => st.write_interim_transcript_hash(&g, &v),
                    "context" => st.write_context(&g, &v),
                    "confirmation_tag" => st.write_confirmation_tag(&g, &v),
                    "group_state" => st.write_group_state(&g, &v),
                    "message_secrets" => st.write_message_secrets(&g, &v),
                    "resumption_psk_store" => st.write_resumption_psk_store(&g, &v),
                    "own_leaf_index" => st.write_own_leaf_index(&g, &v),
                    _ => st.write_group_epoch_secrets(&g, &v),
                };
                res!(out, r)
            }
            "MlsDelete" => {
                let g: OG = tok::gid(s(op, "g")).into();
                let r = match s(op, "t") {
                    "join_group_config" => st.delete_group_config(&g),
                    "tree" => st.delete_tree(&g),
                    "interim_transcript_hash" => st.delete_interim_transcript_hash(&g),
                    "context" => st.delete_context(&g),
                    "confirmation_tag" => st.delete_confirmation_tag(&g),
                    "group_state" => st.delete_group_state(&g),
                    "message_secrets" => st.delete_message_secrets(&g),
                    "resumption_psk_store" => st.delete_all_resumption_psk_secrets(&g),
                    "own_leaf_index" => st.delete_own_leaf_index(&g),
                    _ => st.delete_group_epoch_secrets(&g),
                };
                res!(out, r)
            }
            "LeafAppend" => {
                let g: OG = tok::gid(s(op, "g")).into();
                res!(out, st.append_own_leaf_node(&g, &blob(s(op, "v"))))
            }
            "LeafDelete" => {
                let g: OG = tok::gid(s(op, "g")).into();
                res!(out, st.delete_own_leaf_nodes(&g))
            }
            "PropQueue" => {
                let g: OG = tok::gid(s(op, "g")).into();
                res!(out, st.queue_proposal(&g, &blob(s(op, "r")), &blob(s(op, "v"))))
            }
            "PropRemove" => {
                let g: OG = tok::gid(s(op, "g")).into();
                res!(out, st.remove_proposal(&g, &blob(s(op, "r"))))
            }
            "PropClear" => {
                let g: OG = tok::gid(s(op, "g")).into();
                res!(out, st.clear_proposal_queue::<OG, Blob>(&g))
            }
            "EkpWrite" => {
                let g: OG = tok::gid(s(op, "g")).into();
                let v: Vec<Blob> = s(op, "v").split(',').filter(|x| !x.is_empty()).map(blob).collect();
                res!(out, st.write_encryption_epoch_key_pairs(&g, &EKey(i(op, "e") as u64), i(op, "l") as u32, &v))
            }
            "EkpDelete" => {
                let g: OG = tok::gid(s(op, "g")).into();
                res!(out, st.delete_encryption_epoch_key_pairs(&g, &EKey(i(op, "e") as u64), i(op, "l") as u32))
            }
            // ---- OpenMLS StorageProvider, global rows ----
            "GWrite" => {
                let (k, v) = (blob(s(op, "k")), blob(s(op, "v")));
                let r = match s(op, "tbl") {
                    "kp" => st.write_key_package(&k, &v),
                    "sig" => st.write_signature_key_pair(&k, &v),
                    "enc" => st.write_encryption_key_pair(&k, &v),
                    _ => st.write_psk(&k, &v),
                };
                res!(out, r)
            }
            "GDelete" => {
                let k = blob(s(op, "k"));
                let r = match s(op, "tbl") {
                    "kp" => st.delete_key_package(&k),
                    "sig" => st.delete_signature_key_pair(&k),
                    "enc" => st.delete_encryption_key_pair(&k),
                    _ => st.delete_psk(&k),
                };
                res!(out, r)
            }
            other => panic!("unknown op {}", other),
        }
        out
    }));
    match r {
        Ok(v) => {
            for (k, val) in v.as_object().unwrap() {
                out[k] = val.clone();
            }
        }
        Err(p) => {
            let msg = p.downcast_ref::<String>().cloned().or_else(|| p.downcast_ref::<&str>().map(|x| x.to_string())).unwrap_or_default();
            if msg.starts_with("unknown op") || msg.starts_with("missing ") {
                panic!("{}", msg);
            }
            out["res"] = json!("panic");
            out["ek"] = json!(msg.chars().take(80).collect::<String>());
            if matches!(name.as_str(), "Messages" | "PendingWelcomes" | "InvalidateMsgs" | "InvalidateProc") {
                out["ret"] = json!([]);
            }
        }
    }
    out["post"] = dump(st, pools, base);
    out
}

/// Every read method of the four traits over the fixed key pools.
pub fn dump<S>(st: &S, pools: &Pools, base: i64) -> Value
where
    S: MdkStorageProvider,
{
    let mut d = json!({});
    // --- groups
    d["groups"] = match st.all_groups() {
        Ok(v) => Value::Array(v.iter().map(tok::group_tok).collect()),
        Err(_) => json!([{"g": "!err"}]),
    };
    let mut gf = vec![];
    let mut pg = vec![];
    let mut fm = vec![];
    for g in &pools.groups {
        let gid = tok::gid(g);
        if let Ok(Some(r)) = st.find_group_by_mls_group_id(&gid) {
            gf.push(tok::group_tok(&r));
        }
        let mut e = json!({"g": g});
        match st.group_relays(&gid) {
            Ok(v) => {
                let mut u: Vec<String> = v.iter().map(|x| tok::relay_tok(&x.relay_url)).collect();
                u.sort();
                // every returned relay must carry the group it was asked for
                e["rlok"] = json!(if v.iter().all(|x| x.mls_group_id == gid) { 1 } else { -9 });
                e["rl"] = json!(u);
            }
            Err(_) => {
                e["rlok"] = json!(0);
                e["rl"] = json!([]);
            }
        }
        e["ad"] = match st.admins(&gid) {
            Ok(v) => json!(tok::pkset_tok(&v)),
            Err(_) => json!("!"),
        };
        let mut sec = vec![];
        let mut secerr = 0;
        for ep in &pools.epochs {
            match st.get_group_exporter_secret(&gid, *ep as u64) {
                Ok(Some(x)) => {
                    let b: &[u8; 32] = x.secret.as_ref();
                    let v = if *b == [b[0]; 32] && x.epoch == *ep as u64 && x.mls_group_id == gid { b[0] as i64 } else { -99 };
                    sec.push(json!({"e": ep, "v": v}));
                }
                Ok(None) => {}
                Err(_) => secerr += 1,
            }
        }
        e["sec"] = Value::Array(sec);
        e["secerr"] = json!(secerr);
        // listings: default order with the largest legal limit, and processed-at-first order
        match st.messages(&gid, Some(Pagination { limit: Some(10000), offset: Some(0), sort_order: Some(MessageSortOrder::CreatedAtFirst) })) {
            Ok(v) => {
                e["mok"] = json!(1);
                e["mc"] = Value::Array(v.iter().map(tok::message_tok).collect());
            }
            Err(_) => {
                e["mok"] = json!(0);
                e["mc"] = json!([]);
            }
        }
        e["mp"] = match st.messages(&gid, Some(Pagination { limit: Some(10000), offset: Some(0), sort_order: Some(MessageSortOrder::ProcessedAtFirst) })) {
            Ok(v) => Value::Array(v.iter().map(|m| json!(tok::eid_tok(&m.id))).collect()),
            Err(_) => json!([]),
        };
        e["lc"] = match st.last_message(&gid, MessageSortOrder::CreatedAtFirst) {
            Ok(Some(m)) => tok::message_tok(&m),
            Ok(None) => json!({"id": -1}),
            Err(_) => json!({"id": -2}),
        };
        e["lp"] = match st.last_message(&gid, MessageSortOrder::ProcessedAtFirst) {
            Ok(Some(m)) => tok::message_tok(&m),
            Ok(None) => json!({"id": -1}),
            Err(_) => json!({"id": -2}),
        };
        e["inv"] = match st.find_invalidated_messages(&gid) {
            Ok(v) => Value::Array(v.iter().map(tok::message_tok).collect()),
            Err(_) => json!([{"id": -2}]),
        };
        e["invp"] = match st.find_invalidated_processed_messages(&gid) {
            Ok(v) => Value::Array(v.iter().map(tok::processed_tok).collect()),
            Err(_) => json!([{"w": -2}]),
        };
        e["fail"] = match st.find_failed_messages_for_retry(&gid) {
            Ok(v) => Value::Array(v.iter().map(|x| json!(tok::eid_tok(x))).collect()),
            Err(_) => json!([-2]),
        };
        e["snaps"] = match st.list_group_snapshots(&gid) {
            Ok(v) => Value::Array(v.iter().map(|(n, at)| json!({"n": n, "at": *at as i64 - base})).collect()),
            Err(_) => json!([{"n": "!err", "at": -1}]),
        };
        for id in &pools.ids {
            if let Ok(Some(m)) = st.find_message_by_event_id(&gid, &tok::eid(*id)) {
                fm.push(tok::message_tok(&m));
            }
        }
        // OpenMLS group-scoped rows through the real trait
        let og: OG = gid.clone().into();
        let mut gd = vec![];
        for t in MLS_TYPES {
            let r: Result<Option<Blob>, _> = match t {
                "join_group_config" => st.mls_group_join_config(&og),
                "tree" => st.tree(&og),
                "interim_transcript_hash" => st.interim_transcript_hash(&og),
                "context" => st.group_context(&og),
                "confirmation_tag" => st.confirmation_tag(&og),
                "group_state" => st.group_state(&og),
                "message_secrets" => st.message_secrets(&og),
                "resumption_psk_store" => st.resumption_psk_store(&og),
                "own_leaf_index" => st.own_leaf_index(&og),
                _ => st.group_epoch_secrets(&og),
            };
            match r {
                Ok(Some(b)) => gd.push(json!({"t": t, "v": blob_tok(&b)})),
                Ok(None) => {}
                Err(_) => gd.push(json!({"t": t, "v": "!err"})),
            }
        }
        e["gd"] = Value::Array(gd);
        e["lv"] = match st.own_leaf_nodes::<OG, Blob>(&og) {
            Ok(v) => Value::Array(v.iter().map(|b| json!(blob_tok(b))).collect()),
            Err(_) => json!(["!err"]),
        };
        e["pr"] = match st.queued_proposals::<OG, Blob, Blob>(&og) {
            Ok(v) => Value::Array(v.iter().map(|(r, p)| json!({"r": blob_tok(r), "v": blob_tok(p)})).collect()),
            Err(_) => json!([{"r": "!err", "v": ""}]),
        };
        e["prr"] = match st.queued_proposal_refs::<OG, Blob>(&og) {
            Ok(v) => Value::Array(v.iter().map(|r| json!(blob_tok(r))).collect()),
            Err(_) => json!(["!err"]),
        };
        let mut ekp = vec![];
        for ep in &pools.epochs {
            for l in &pools.leaves {
                match st.encryption_epoch_key_pairs::<OG, EKey, Blob>(&og, &EKey(*ep as u64), *l as u32) {
                    Ok(v) if v.is_empty() => {}
                    Ok(v) => ekp.push(json!({"e": ep, "l": l, "v": v.iter().map(blob_tok).collect::<Vec<_>>().join(",")})),
                    Err(_) => ekp.push(json!({"e": ep, "l": l, "v": "!err"})),
                }
            }
        }
        e["ekp"] = Value::Array(ekp);
        pg.push(e);
    }
    d["gfind"] = Value::Array(gf);
    d["pg"] = Value::Array(pg);
    d["fm"] = Value::Array(fm);
    let mut bn = vec![];
    for n in &pools.nids {
        if let Ok(Some(r)) = st.find_group_by_nostr_group_id(&tok::nid(n)) {
            let mut v = tok::group_tok(&r);
            v["n"] = json!(n);
            bn.push(v);
        }
    }
    d["bn"] = Value::Array(bn);
    // --- processed messages, welcomes
    let mut pm = vec![];
    let mut pw = vec![];
    for w in &pools.ws {
        if let Ok(Some(p)) = st.find_processed_message_by_event_id(&tok::eid(*w)) {
            pm.push(tok::processed_tok(&p));
        }
        if let Ok(Some(p)) = st.find_processed_welcome_by_event_id(&tok::eid(*w)) {
            pw.push(tok::pwelcome_tok(&p));
        }
    }
    d["pm"] = Value::Array(pm);
    d["pw"] = Value::Array(pw);
    let mut wl = vec![];
    for id in &pools.wids {
        if let Ok(Some(w)) = st.find_welcome_by_event_id(&tok::eid(*id)) {
            wl.push(tok::welcome_tok(&w));
        }
    }
    d["wl"] = Value::Array(wl);
    d["pend"] = match st.pending_welcomes(None) {
        Ok(v) => Value::Array(v.iter().map(|w| json!(tok::eid_tok(&w.id))).collect()),
        Err(_) => json!([-2]),
    };
    // --- global MLS rows
    let mut gl = vec![];
    for k in &pools.gkeys {
        let kb = blob(k);
        let reads: [(&str, Result<Option<Blob>, _>); 4] = [
            ("kp", st.key_package(&kb)),
            ("sig", st.signature_key_pair(&kb)),
            ("enc", st.encryption_key_pair(&kb)),
            ("psk", st.psk(&kb)),
        ];
        for (tbl, r) in reads {
            match r {
                Ok(Some(b)) => gl.push(json!({"tbl": tbl, "k": k, "v": blob_tok(&b)})),
                Ok(None) => {}
                Err(_) => gl.push(json!({"tbl": tbl, "k": k, "v": "!err"})),
            }
        }
    }
    d["gl"] = Value::Array(gl);
    d
}
