//! mdk-verif-hstorage: drives BOTH real storage backends (MdkMemoryStorage, MdkSqliteStorage) through the
//! public storage traits and records one NDJSON line per call (op, args, result class, full observable dump).
//! The recorded traces are validated by TLC against spec/StorageTrace.tla; this program holds no oracle.
//!
//!   hstorage rand <out-prefix> key=value...   seeded random + directed histories; writes <prefix>_mem.ndjson,
//!                                             <prefix>_sql.ndjson (same op sequences) and <prefix>_ops.json
//!   hstorage run <ops.json> <out-prefix>      re-executes recorded op sequences (replay)

mod drivers;
mod store;
mod tok;

use std::io::Write;

use serde_json::{Value, json};
use store::{Pools, Store};

fn now_secs() -> i64 {
    std::time::SystemTime::now().duration_since(std::time::UNIX_EPOCH).unwrap().as_secs() as i64
}

pub struct Run {
    pub backend: String,
    pub cap: usize,
    pub ng: usize,
}

/// Execute histories (lists of ops) on a fresh store each; returns the NDJSON lines.
pub fn execute(run: &Run, histories: &[Vec<Value>], out: &mut dyn Write) {
    let pools = Pools::standard(run.ng);
    // snapshot times are logged relative to `base`, so that the trace holds small integers only
    let base = now_secs() - 1000;
    let dev: Vec<String> = std::env::var("VERIF_DEV").unwrap_or_default().split(',').filter(|x| !x.is_empty()).map(|x| x.to_string()).collect();
    let meta = json!({"op": "Meta", "backend": run.backend, "cap": run.cap, "pools": pools.to_json(), "dev": dev,
                      "maxlimit": 10000, "deflimit": 1000});
    writeln!(out, "{}", meta).unwrap();
    for h in histories {
        let st = Store::open(&run.backend, run.cap);
        writeln!(out, "{}", json!({"op": "Reset"})).unwrap();
        for op in h {
            let line = st.exec(op, &pools, base);
            writeln!(out, "{}", line).unwrap();
        }
    }
}

fn main() {
    // silence the default panic message for panics raised inside the code under test (they are recorded as data)
    std::panic::set_hook(Box::new(|info| {
        let msg = info.to_string();
        if msg.contains("unknown op") || msg.contains("missing ") || msg.contains("hstorage") {
            eprintln!("{}", msg);
        }
    }));
    let args: Vec<String> = std::env::args().collect();
    match args.get(1).map(|s| s.as_str()) {
        Some("rand") => {
            let prefix = args.get(2).expect("out prefix");
            let mut kv = std::collections::HashMap::new();
            for a in &args[3..] {
                if let Some((k, v)) = a.split_once('=') {
                    kv.insert(k.to_string(), v.to_string());
                }
            }
            let get = |k: &str, d: &str| kv.get(k).cloned().unwrap_or(d.to_string());
            let cfg = drivers::Cfg {
                seed: get("seed", "1").parse().unwrap(),
                histories: get("n", "10").parse().unwrap(),
                steps: get("steps", "40").parse().unwrap(),
                profile: get("profile", "mixed"),
                // the directed scenarios use g1..g3
                ng: get("ng", "3").parse::<usize>().unwrap().max(if get("directed", "1") == "1" { 3 } else { 1 }),
                cap: get("cap", "0").parse().unwrap(),
                directed: get("directed", "1") == "1",
                sleeps: get("sleeps", "0") == "1",
            };
            let hs = drivers::generate(&cfg);
            let backends = get("backends", "mem,sql");
            std::fs::write(format!("{}_ops.json", prefix), serde_json::to_string(&json!({"ng": cfg.ng, "cap": cfg.cap, "histories": hs})).unwrap()).unwrap();
            for b in backends.split(',') {
                let f = std::fs::File::create(format!("{}_{}.ndjson", prefix, b)).expect("create out");
                let mut w = std::io::BufWriter::new(f);
                execute(&Run { backend: b.to_string(), cap: if b == "mem" { cfg.cap } else { 0 }, ng: cfg.ng }, &hs, &mut w);
            }
        }
        Some("run") => {
            let ops: Value = serde_json::from_str(&std::fs::read_to_string(args.get(2).expect("ops file")).unwrap()).unwrap();
            let prefix = args.get(3).expect("out prefix");
            let hs: Vec<Vec<Value>> = ops["histories"].as_array().unwrap().iter().map(|h| h.as_array().unwrap().clone()).collect();
            let ng = ops["ng"].as_u64().unwrap_or(3) as usize;
            let cap = ops["cap"].as_u64().unwrap_or(0) as usize;
            let backends = args.get(4).cloned().unwrap_or("mem,sql".to_string());
            for b in backends.split(',') {
                let f = std::fs::File::create(format!("{}_{}.ndjson", prefix, b)).expect("create out");
                let mut w = std::io::BufWriter::new(f);
                execute(&Run { backend: b.to_string(), cap: if b == "mem" { cap } else { 0 }, ng }, &hs, &mut w);
            }
        }
        _ => eprintln!("usage: hstorage rand <prefix> key=value... | run <ops.json> <prefix> [backends]"),
    }
}
