#!/bin/bash
# usage: tools_try_seed.sh <seed dir> <check ids...>
# Applies the seeded patch in a scratch worktree of /repo (never in /repo itself), runs the quick checks against it
# through VERIF_REPO, and reverts. Slot (scratch worktree) selectable with SLOT=n for parallel use.
D=$1; shift
SLOT=${SLOT:-0}; WT=/tmp/seedtest_$SLOT
if [ ! -d $WT ]; then git -C /repo worktree add -q --detach $WT HEAD || exit 2; fi
cd $WT && git checkout -q --detach $(git -C /repo rev-parse HEAD) && git checkout -q -- . && git clean -fdq crates
git apply --check $D/patch.diff || { echo "$(basename $D): patch does not apply on current HEAD"; exit 2; }
git apply $D/patch.diff
for c in "$@"; do
  B=$(basename $D); LOG=/verif/out/try_${B}_$c.log
  ( cd /verif && VERIF_REPO=$WT timeout 3000 ./check $c --tier ${TIER:-quick} > $LOG 2>&1; RC=$?; echo "$B $c exit=$RC $(grep -c '^VIOLATION' $LOG) violation-lines; $(grep 'violation detail' $LOG | head -1 | cut -c1-220)" )
done
cd $WT && git checkout -q -- . && git clean -fdq crates; true
