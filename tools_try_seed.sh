#!/bin/bash
# usage: tools_try_seed.sh <seed dir> <check ids...>   (applies the patch to /repo, runs the quick checks, reverts)
D=$1; shift
cd /repo && git apply --check $D/patch.diff || { echo "patch does not apply"; exit 2; }
git apply $D/patch.diff
for c in "$@"; do
  B=$(basename $D); LOG=/verif/out/try_${B}_$c.log
  ( cd /verif && timeout 1500 ./check $c --tier ${TIER:-quick} > $LOG 2>&1; RC=$?; echo "$B $c exit=$RC $(grep -c '^VIOLATION' $LOG) violation-lines; $(grep 'violation detail' $LOG | head -1 | cut -c1-220)" )
done
cd /repo && git checkout -- . && git status --short | head -3
