//! C13 conformance (a)+(b): constructor x file-state x keyring matrix and racing first-opens, recorded as traces of
//! Open.tla. Rust only executes and projects: which result class / mode / data is *right* is decided by the spec.

use std::collections::BTreeSet;
use std::os::unix::fs::PermissionsExt;
use std::panic::{AssertUnwindSafe, catch_unwind};
use std::path::{Path, PathBuf};
use std::sync::{Arc, Barrier};

use mdk_sqlite_storage::error::Error as SqlError;
use mdk_sqlite_storage::{EncryptionConfig, MdkSqliteStorage};
use mdk_storage_traits::GroupId;
use mdk_storage_traits::groups::GroupStorage;
use mdk_storage_traits::groups::types::{Group, GroupState, SelfUpdateState};
use rand::rngs::StdRng;
use rand::{Rng, SeedableRng};
use serde_json::{Value, json};

use crate::store::{self, shared};

pub const SVC: &str = "verif.mdk.open";

pub fn classify(e: &SqlError) -> &'static str {
    match e {
        SqlError::WrongEncryptionKey => "WrongKey",
        SqlError::UnencryptedDatabaseWithEncryption => "UnencNeedsEnc",
        SqlError::KeyringEntryMissingForExistingDatabase { .. } => "KeyMissing",
        SqlError::Keyring(_) => "Keyring",
        SqlError::KeyringNotInitialized(_) => "KeyringNotInit",
        _ => "Other",
    }
}

pub fn token_group(tok: &str) -> Group {
    let mut nid = [0u8; 32];
    let b = tok.as_bytes();
    nid[..b.len().min(32)].copy_from_slice(&b[..b.len().min(32)]);
    Group {
        mls_group_id: GroupId::from_slice(tok.as_bytes()),
        nostr_group_id: nid,
        name: tok.to_string(),
        description: String::new(),
        admin_pubkeys: BTreeSet::new(),
        last_message_id: None,
        last_message_at: None,
        last_message_processed_at: None,
        epoch: 0,
        state: GroupState::Active,
        image_hash: None,
        image_key: None,
        image_nonce: None,
        self_update_state: SelfUpdateState::Required,
    }
}

fn tokens_of(st: &MdkSqliteStorage) -> Vec<String> {
    let mut v: Vec<String> = st.all_groups().map(|g| g.into_iter().map(|x| x.name).collect()).unwrap_or_else(|_| vec!["?unreadable".into()]);
    v.sort();
    v
}

fn mode_class(m: u32) -> &'static str {
    if m & 0o077 == 0 { "secure" } else { "loose" }
}

/// (mode of the database file, mode of the sidecars next to it): "none" | "secure" | "loose"
pub fn files_modes(p: &Path) -> (String, String) {
    let Some(dir) = p.parent() else { return ("none".into(), "none".into()) };
    let stem = p.file_name().unwrap().to_string_lossy().to_string();
    let mut main = "none".to_string();
    let mut side = "none".to_string();
    if let Ok(rd) = std::fs::read_dir(dir) {
        for e in rd.flatten() {
            let n = e.file_name().to_string_lossy().to_string();
            if n.starts_with(&stem) {
                if let Ok(md) = e.metadata() {
                    let m = mode_class(md.permissions().mode());
                    if n == stem {
                        main = m.to_string();
                    } else if side != "loose" {
                        side = m.to_string();
                    }
                }
            }
        }
    }
    (main, side)
}

/// "secure" iff the database file and all its sidecars are owner-only
pub fn files_mode(p: &Path) -> String {
    let (m, s) = files_modes(p);
    if m == "none" { "none".into() } else if m == "loose" || s == "loose" { "loose".into() } else { "secure".into() }
}

pub fn dir_mode(p: &Path, pre: bool) -> String {
    if pre {
        return "pre".into();
    }
    match p.parent().and_then(|d| std::fs::metadata(d).ok()) {
        Some(md) => mode_class(md.permissions().mode()).into(),
        None => "none".into(),
    }
}

/// Independent probe of a database file (raw rusqlite/SQLCipher, not the code under test).
pub fn probe_file(p: &Path) -> (String, String, Vec<String>) {
    let Ok(bytes) = std::fs::read(p) else { return ("missing".into(), "".into(), vec![]) };
    if bytes.is_empty() {
        return ("empty".into(), "".into(), vec![]);
    }
    let read_tokens = |c: &rusqlite::Connection| -> Option<Vec<String>> {
        let mut st = c.prepare("SELECT name FROM groups ORDER BY name").ok()?;
        let rows = st.query_map([], |r| r.get::<_, String>(0)).ok()?;
        Some(rows.flatten().collect())
    };
    if bytes.len() >= 16 && &bytes[..16] == b"SQLite format 3\0" {
        let c = rusqlite::Connection::open_with_flags(p, rusqlite::OpenFlags::SQLITE_OPEN_READ_ONLY).unwrap();
        let t = read_tokens(&c).unwrap_or_else(|| vec!["?unreadable".into()]);
        return ("plain".into(), "".into(), t);
    }
    for (k, name) in shared().known_keys() {
        let c = rusqlite::Connection::open_with_flags(p, rusqlite::OpenFlags::SQLITE_OPEN_READ_ONLY).unwrap();
        let _ = c.execute_batch(&format!("PRAGMA key = \"x'{}'\"; PRAGMA cipher_compatibility = 4;", hex::encode(&k)));
        if c.query_row("SELECT count(*) FROM sqlite_master", [], |r| r.get::<_, i64>(0)).is_ok() {
            let t = read_tokens(&c).unwrap_or_else(|| vec!["?unreadable".into()]);
            return ("enc".into(), name, t);
        }
    }
    ("enc".into(), "?unknown".into(), vec![])
}

#[derive(Clone, Debug)]
pub struct FileInit {
    pub p: String,
    pub st: String,   // missing | empty | plain | enc
    pub key: String,  // key name for enc
    pub mode: String, // secure | loose | none
    pub dir: String,  // none | pre
}

pub struct Hist {
    pub dir: tempfile::TempDir,
    pub id: String,
    pub lines: Vec<Value>,
    pub keys: Vec<(String, [u8; 32])>, // named caller-side keys
    pub paths: Vec<(String, PathBuf, bool)>, // name, path, dir pre-existing
    pub handles: Vec<(String, String, MdkSqliteStorage)>, // thread, path name, handle
    pub watch: Option<(Arc<std::sync::atomic::AtomicBool>, std::thread::JoinHandle<()>)>,
}

/// watcher thread: stat()s the database paths in a tight loop and logs every change of (existence, mode) it sees.
/// A sighting is logged only if no other event took an order stamp between the stat and the logging, so its place
/// in the log is the instant it was made.
fn spawn_watcher(paths: Vec<(String, PathBuf)>) -> (Arc<std::sync::atomic::AtomicBool>, std::thread::JoinHandle<()>) {
    use std::sync::atomic::{AtomicBool, Ordering};
    let stop = Arc::new(AtomicBool::new(false));
    let s2 = stop.clone();
    let stat = |pb: &Path| -> String {
        match std::fs::metadata(pb) {
            Ok(md) => mode_class(md.permissions().mode()).to_string(),
            Err(_) => "none".to_string(),
        }
    };
    let mut last: Vec<String> = paths.iter().map(|(_, pb)| stat(pb)).collect();
    let h = std::thread::spawn(move || {
        let sh = shared();
        while !s2.load(Ordering::SeqCst) {
            for (i, (name, pb)) in paths.iter().enumerate() {
                let before = sh.stamp.load(Ordering::SeqCst);
                let m = stat(pb);
                if m != last[i] && sh.stamp.compare_exchange(before, before + 1, Ordering::SeqCst, Ordering::SeqCst).is_ok() {
                    sh.log.lock().unwrap().push((before, json!({"op":"Sight","p":name,"mode":m})));
                    last[i] = m;
                }
            }
        }
    });
    (stop, h)
}

fn rand_key(rng: &mut StdRng) -> [u8; 32] {
    let mut k = [0u8; 32];
    rng.fill(&mut k);
    k
}

impl Hist {
    /// fresh history: store reset, `nkeys` caller-known keys named k1..kn
    pub fn new(rng: &mut StdRng, hid: usize, nkeys: usize) -> Hist {
        let sh = shared();
        sh.reset();
        let mut keys = vec![];
        for _ in 0..nkeys {
            let k = rand_key(rng);
            let n = sh.key_name(&k);
            keys.push((n, k));
        }
        Hist { dir: tempfile::tempdir().unwrap(), id: format!("mdk.db.key.h{hid}"), lines: vec![], keys, paths: vec![], handles: vec![], watch: None }
    }
    pub fn key(&self, name: &str) -> [u8; 32] {
        self.keys.iter().find(|(n, _)| n == name).map(|(_, k)| *k).expect("key name")
    }
    pub fn path(&self, p: &str) -> PathBuf {
        self.paths.iter().find(|(n, _, _)| n == p).map(|(_, pb, _)| pb.clone()).expect("path name")
    }
    fn pre(&self, p: &str) -> bool {
        self.paths.iter().find(|(n, _, _)| n == p).map(|(_, _, pre)| *pre).unwrap()
    }

    /// put the file system + keyring in the initial state and emit the Reset line
    pub fn init(&mut self, files: &[FileInit], kr: &str) {
        let sh = shared();
        for f in files {
            let sub = self.dir.path().join(format!("d_{}", f.p));
            let pb = sub.join("mdk.db");
            let pre = f.dir == "pre" || f.st != "missing";
            if pre {
                std::fs::create_dir_all(&sub).unwrap();
                std::fs::set_permissions(&sub, std::fs::Permissions::from_mode(0o755)).unwrap();
            }
            match f.st.as_str() {
                "missing" => {}
                "empty" => {
                    std::fs::File::create(&pb).unwrap();
                }
                "plain" => {
                    let st = MdkSqliteStorage::new_unencrypted(&pb).expect("setup plain");
                    st.save_group(token_group("d0")).unwrap();
                }
                "enc" => {
                    let st = MdkSqliteStorage::new_with_key(&pb, EncryptionConfig::new(self.key(&f.key))).expect("setup enc");
                    st.save_group(token_group("d0")).unwrap();
                }
                _ => panic!("bad st"),
            }
            if f.st != "missing" {
                let m = if f.mode == "loose" { 0o644 } else { 0o600 };
                std::fs::set_permissions(&pb, std::fs::Permissions::from_mode(m)).unwrap();
            }
            self.paths.push((f.p.clone(), pb, pre));
        }
        let krk = if kr.is_empty() { None } else { Some(self.key(kr)) };
        sh.set_kr(SVC, &self.id, krk.as_ref().map(|k| &k[..]));
        let _ = sh.take_log();
        let fl: Vec<Value> = files
            .iter()
            .map(|f| {
                let data: Vec<&str> = if f.st == "plain" || f.st == "enc" { vec!["d0"] } else { vec![] };
                json!({"p":f.p,"st":f.st,"key":f.key,"mode":if f.st=="missing" {"none"} else {f.mode.as_str()},
                       "dmode": if f.st != "missing" || f.dir == "pre" {"pre"} else {"none"}, "data":data})
            })
            .collect();
        self.lines.push(json!({"op":"Reset","files":fl,"kr":kr,"lock":"free"}));
        self.watch = Some(spawn_watcher(self.paths.iter().map(|(n, pb, _)| (n.clone(), pb.clone())).collect()));
    }

    /// stop the watcher and collect every event of the history in stamp order
    pub fn finish(&mut self) {
        if let Some((stop, h)) = self.watch.take() {
            stop.store(true, std::sync::atomic::Ordering::SeqCst);
            let _ = h.join();
        }
        self.lines.extend(shared().take_log());
    }

    /// run one constructor on the current thread (thread name must be set); returns result class
    pub fn ctor_call(id: &str, t: &str, ctor: &str, pname: &str, pb: &Path, pre: bool, key: Option<(String, [u8; 32])>) -> (String, Option<MdkSqliteStorage>) {
        let sh = shared();
        store::set_thread_name(t);
        sh.emit(json!({"op":"Begin","t":t,"ctor":ctor,"p":pname,"key":key.as_ref().map(|k| k.0.clone()).unwrap_or_default()}));
        let r = catch_unwind(AssertUnwindSafe(|| match ctor {
            "new" => MdkSqliteStorage::new(pb, SVC, id),
            "with_key" => MdkSqliteStorage::new_with_key(pb, EncryptionConfig::new(key.as_ref().unwrap().1)),
            "unenc" => MdkSqliteStorage::new_unencrypted(pb),
            _ => panic!("ctor"),
        }));
        let (cls, h, detail) = match r {
            Err(_) => ("Panic".to_string(), None, String::new()),
            Ok(Err(e)) => (classify(&e).to_string(), None, format!("{e}").chars().take(80).collect()),
            Ok(Ok(h)) => ("Ok".to_string(), Some(h), String::new()),
        };
        let data = h.as_ref().map(tokens_of).unwrap_or_default();
        sh.emit_measured(|| {
            let (mm, sm) = files_modes(pb);
            json!({"op":"End","t":t,"p":pname,"res":cls,"mode":mm,"smode":sm,"dmode":dir_mode(pb, pre),"data":data,"detail":detail})
        });
        (cls, h)
    }

    pub fn call(&mut self, t: &str, ctor: &str, p: &str, key: &str) -> String {
        let k = if key.is_empty() { None } else { Some((key.to_string(), self.key(key))) };
        let (cls, h) = Hist::ctor_call(&self.id, t, ctor, p, &self.path(p), self.pre(p), k);
        if let Some(h) = h {
            self.handles.push((t.to_string(), p.to_string(), h));
        }
        self.flush();
        cls
    }

    pub fn flush(&mut self) {}

    pub fn write(&mut self, t: &str, tok: &str) {
        let (_, p, h) = self.handles.iter().find(|(tt, _, _)| tt == t).expect("handle");
        let r = h.save_group(token_group(tok));
        let data = tokens_of(h);
        shared().emit(json!({"op":"Write","t":t,"p":p,"tok":tok,"res":if r.is_ok() {"Ok"} else {"Err"},"data":data}));
    }

    pub fn close_all(&mut self) {
        let hs = std::mem::take(&mut self.handles);
        for (t, p, h) in hs {
            drop(h);
            shared().emit(json!({"op":"Close","t":t,"p":p}));
        }
    }

    pub fn probe(&mut self) {
        let sh = shared();
        let kr = sh.kr(SVC, &self.id).map(|k| sh.key_name(&k)).unwrap_or_default();
        let mut fl = vec![];
        for (n, pb, pre) in &self.paths {
            let (st, key, data) = probe_file(pb);
            fl.push(json!({"p":n,"st":st,"key":key,"mode":files_mode(pb),"dmode":dir_mode(pb, *pre),"data":data}));
        }
        sh.emit(json!({"op":"Probe","files":fl,"kr":kr}));
    }

    /// several threads call constructors at the same instant
    pub fn race(&mut self, calls: &[(String, String, String, String)], jitter_us: &[u64]) -> Vec<String> {
        let n = calls.len();
        let bar = Arc::new(Barrier::new(n));
        let mut hs = vec![];
        for (i, (t, ctor, p, key)) in calls.iter().enumerate() {
            let bar = bar.clone();
            let (t, ctor, p) = (t.clone(), ctor.clone(), p.clone());
            let k = if key.is_empty() { None } else { Some((key.clone(), self.key(key))) };
            let pb = self.path(&p);
            let pre = self.pre(&p);
            let id = self.id.clone();
            let j = jitter_us.get(i).copied().unwrap_or(0);
            hs.push(std::thread::spawn(move || {
                store::set_thread_name(&t);
                bar.wait();
                if j > 0 {
                    std::thread::sleep(std::time::Duration::from_micros(j));
                }
                let (cls, h) = Hist::ctor_call(&id, &t, &ctor, &p, &pb, pre, k);
                (t, p, cls, h)
            }));
        }
        let mut out = vec![];
        for h in hs {
            match h.join() {
                Ok((t, p, cls, h)) => {
                    if let Some(h) = h {
                        self.handles.push((t, p, h));
                    }
                    out.push(cls);
                }
                Err(_) => out.push("ThreadPanic".into()),
            }
        }
        self.flush();
        out
    }
}

pub fn meta(threads: usize, paths: &[&str], nkeys: usize, dev: &[String]) -> Value {
    let th: Vec<String> = (1..=threads).map(|i| format!("t{i}")).collect();
    let ks: Vec<String> = (1..=nkeys).map(|i| format!("k{i}")).collect();
    json!({"op":"Meta","threads":th,"paths":paths,"keys":ks,"dev":dev})
}

fn fi(p: &str, st: &str, key: &str, mode: &str, dir: &str) -> FileInit {
    FileInit { p: p.into(), st: st.into(), key: key.into(), mode: mode.into(), dir: dir.into() }
}

/// (a) every cell of constructor x file state x keyring, each followed by write / close / reopen / probe
pub fn run_matrix(seed: u64) -> (Vec<Value>, usize) {
    let mut rng = StdRng::seed_from_u64(seed);
    let mut out = vec![];
    let mut cells = 0;
    let mut hid = 0;
    let file_states: Vec<(&str, &str, &str)> = vec![
        ("missing", "none", "none"),
        ("missing", "none", "pre"),
        ("empty", "secure", "pre"),
        ("empty", "loose", "pre"),
        ("plain", "secure", "pre"),
        ("plain", "loose", "pre"),
        ("enc", "secure", "pre"),
        ("enc", "loose", "pre"),
    ];
    // k1 = the key the encrypted file was made with; k2 = another key
    let ctors: Vec<(&str, &str)> = vec![("new", ""), ("with_key", "k1"), ("with_key", "k2"), ("unenc", "")];
    for (st, mode, dir) in &file_states {
        for kr in ["", "k1", "k2"] {
            for (ctor, key) in &ctors {
                hid += 1;
                cells += 1;
                let mut h = Hist::new(&mut rng, hid, 2);
                h.init(&[fi("p1", st, if *st == "enc" { "k1" } else { "" }, mode, dir)], kr);
                let r = h.call("t1", ctor, "p1", key);
                if r == "Ok" {
                    h.write("t1", &format!("w{hid}"));
                }
                h.close_all();
                h.probe();
                // reopen the same way: must give the same data (or the same refusal)
                let r2 = h.call("t1", ctor, "p1", key);
                let _ = r2;
                h.close_all();
                h.probe();
                h.finish();
                out.extend(h.lines.drain(..));
            }
        }
    }
    // shared key id across two database paths (documented default id used for two files), then reopen the first
    for (st2, kr) in [("missing", ""), ("missing", "k1"), ("empty", "k1")] {
        hid += 1;
        cells += 1;
        let mut h = Hist::new(&mut rng, hid, 2);
        h.init(&[fi("p1", "missing", "", "none", "none"), fi("p2", st2, "", if st2 == "empty" { "loose" } else { "none" }, "none")], kr);
        if h.call("t1", "new", "p1", "") == "Ok" {
            h.write("t1", "wa");
        }
        h.close_all();
        if h.call("t1", "new", "p2", "") == "Ok" {
            h.write("t1", "wb");
        }
        h.close_all();
        h.probe();
        h.call("t1", "new", "p1", "");
        h.close_all();
        h.call("t1", "new", "p2", "");
        h.close_all();
        h.probe();
        h.finish();
        out.extend(h.lines.drain(..));
    }
    (out, cells)
}

/// (b) racing first-opens: 2..8 real threads, same key id, same or different paths, seeded mixes
pub fn run_races(seed: u64, n: usize, min_threads: usize, max_threads: usize) -> Vec<Value> {
    let mut rng = StdRng::seed_from_u64(seed ^ 0x5eed);
    let mut out = vec![];
    for i in 0..n {
        let nt = min_threads + (i % (max_threads - min_threads + 1));
        let mut h = Hist::new(&mut rng, 1000 + i, 2);
        let shape = rng.gen_range(0..6);
        // initial state
        let (files, kr): (Vec<FileInit>, &str) = match shape {
            0 | 1 => (vec![fi("p1", "missing", "", "none", "none")], ""),
            2 => (vec![fi("p1", "missing", "", "none", "none"), fi("p2", "missing", "", "none", "pre")], ""),
            3 => (vec![fi("p1", "empty", "", "loose", "pre")], "k1"),
            4 => (vec![fi("p1", "enc", "k1", "loose", "pre")], "k1"),
            _ => (vec![fi("p1", "missing", "", "none", "none")], "k1"),
        };
        let np = files.len();
        h.init(&files, kr);
        let sh = shared();
        sh.set_latency_us.store([0u64, 0, 200, 2000][rng.gen_range(0..4)], std::sync::atomic::Ordering::SeqCst);
        sh.get_latency_us.store([0u64, 0, 100, 500][rng.gen_range(0..4)], std::sync::atomic::Ordering::SeqCst);
        let mut calls = vec![];
        let mut jit = vec![];
        for t in 1..=nt {
            let p = format!("p{}", 1 + rng.gen_range(0..np));
            // mostly the keyring-managed constructor; sometimes a caller key / the unencrypted constructor joins the race
            let (ctor, key) = match rng.gen_range(0..10) {
                0 => ("with_key", "k1"),
                1 => ("with_key", "k2"),
                2 if shape == 1 => ("unenc", ""),
                _ => ("new", ""),
            };
            calls.push((format!("t{t}"), ctor.to_string(), p, key.to_string()));
            jit.push([0u64, 0, 0, 50, 300][rng.gen_range(0..5)]);
        }
        h.race(&calls, &jit);
        h.close_all();
        h.probe();
        // afterwards, alone: the keyring-managed constructor on every path
        for p in 1..=np {
            h.call("t1", "new", &format!("p{p}"), "");
            h.close_all();
        }
        h.probe();
        h.finish();
        out.extend(h.lines.drain(..));
    }
    out
}

/// fault history (own process: the key-generation lock is process-wide and stays poisoned):
/// the platform keystore crashes once inside set_secret; afterwards several threads make first requests.
pub fn run_poison(seed: u64) -> Vec<Value> {
    let mut rng = StdRng::seed_from_u64(seed ^ 0x9015);
    let mut out = vec![];
    let mut h = Hist::new(&mut rng, 5000, 2);
    let nt = 3 + (seed as usize % 3);
    let mut files = vec![fi("p1", "missing", "", "none", "none")];
    for t in 2..=nt {
        files.push(fi(&format!("p{t}"), "missing", "", "none", "none"));
    }
    h.init(&files, "");
    let sh = shared();
    sh.panic_next_set.store(true, std::sync::atomic::Ordering::SeqCst);
    h.call("t1", "new", "p1", "");
    sh.set_latency_us.store(3000, std::sync::atomic::Ordering::SeqCst);
    let calls: Vec<_> = (2..=nt).map(|t| (format!("t{t}"), "new".to_string(), format!("p{t}"), String::new())).collect();
    h.race(&calls, &[]);
    h.close_all();
    h.probe();
    // a later sequential request
    h.call("t1", "new", "p2", "");
    h.close_all();
    h.probe();
    h.finish();
    out.extend(h.lines.drain(..));
    out
}
