//! C19 conformance: real threads share ONE storage instance; every call is logged with a global atomic order stamp
//! taken just before the call and just after it returned. LinTrace.tla searches for a linearisation.
//! Values carry a version counter in several fields, so a torn read is visible as an unexplainable result.

use std::collections::BTreeSet;
use std::panic::{AssertUnwindSafe, catch_unwind};
use std::sync::atomic::{AtomicU64, Ordering};
use std::sync::mpsc;
use std::sync::{Arc, Barrier};
use std::time::Duration;

use mdk_memory_storage::MdkMemoryStorage;
use mdk_sqlite_storage::{EncryptionConfig, MdkSqliteStorage};
use mdk_storage_traits::groups::types::{Group, GroupExporterSecret, GroupState, SelfUpdateState};
use mdk_storage_traits::groups::{GroupStorage, Pagination};
use mdk_storage_traits::messages::MessageStorage;
use mdk_storage_traits::messages::types::{Message, MessageState};
use mdk_storage_traits::{GroupId, MdkStorageProvider, Secret};
use nostr::{EventId, Keys, Kind, PublicKey, RelayUrl, Tags, Timestamp, UnsignedEvent};
use rand::rngs::StdRng;
use rand::{Rng, SeedableRng};
use serde_json::{Value, json};

pub const TORN: u64 = 999_999;

pub trait Store: GroupStorage + MessageStorage + MdkStorageProvider + Send + Sync + 'static {}
impl<T: GroupStorage + MessageStorage + MdkStorageProvider + Send + Sync + 'static> Store for T {}

fn gid(g: &str) -> GroupId {
    GroupId::from_slice(format!("lin-{g}").as_bytes())
}
fn nid_bytes(n: &str) -> [u8; 32] {
    let mut b = [0x5au8; 32];
    let s = n.as_bytes();
    b[..s.len().min(32)].copy_from_slice(&s[..s.len().min(32)]);
    b
}
fn nid_name(b: &[u8; 32]) -> String {
    let end = b.iter().position(|&x| x == 0x5a).unwrap_or(32);
    String::from_utf8_lossy(&b[..end]).to_string()
}
fn group_of(g: &str, ver: u64, nid: &str) -> Group {
    Group {
        mls_group_id: gid(g),
        nostr_group_id: nid_bytes(nid),
        name: format!("v{ver}"),
        description: format!("v{ver}"),
        admin_pubkeys: BTreeSet::new(),
        last_message_id: None,
        last_message_at: None,
        last_message_processed_at: None,
        epoch: ver,
        state: GroupState::Active,
        image_hash: None,
        image_key: None,
        image_nonce: None,
        self_update_state: SelfUpdateState::Required,
    }
}
fn group_ver(g: &Group) -> u64 {
    let a = g.name.trim_start_matches('v').parse::<u64>().unwrap_or(TORN);
    let b = g.description.trim_start_matches('v').parse::<u64>().unwrap_or(TORN);
    if a == b && b == g.epoch { a } else { TORN }
}
fn group_name_of(id: &GroupId) -> String {
    String::from_utf8_lossy(id.as_slice()).trim_start_matches("lin-").to_string()
}
fn relay_url(r: &str) -> RelayUrl {
    RelayUrl::parse(&format!("wss://{r}.example.com")).unwrap()
}
fn relay_name(u: &RelayUrl) -> String {
    u.as_str().trim_start_matches("wss://").split('.').next().unwrap_or("?").to_string()
}
fn secret_of(g: &str, e: u64, ver: u64) -> GroupExporterSecret {
    let mut s = [0u8; 32];
    for c in 0..4 {
        s[c * 8..c * 8 + 8].copy_from_slice(&ver.to_le_bytes());
    }
    GroupExporterSecret { mls_group_id: gid(g), epoch: e, secret: Secret::new(s) }
}
fn secret_ver(s: &GroupExporterSecret) -> u64 {
    let b: &[u8; 32] = &s.secret;
    let v: Vec<u64> = (0..4).map(|c| u64::from_le_bytes(b[c * 8..c * 8 + 8].try_into().unwrap())).collect();
    if v.iter().all(|x| *x == v[0]) { v[0] } else { TORN }
}
fn msg_id(g: &str, m: &str) -> EventId {
    let mut b = [0x11u8; 32];
    let s = format!("{g}/{m}");
    b[..s.len()].copy_from_slice(s.as_bytes());
    EventId::from_slice(&b).unwrap()
}
fn msg_name(id: &EventId) -> String {
    let b = id.as_bytes();
    let end = b.iter().position(|&x| x == 0x11).unwrap_or(32);
    String::from_utf8_lossy(&b[..end]).split('/').nth(1).unwrap_or("?").to_string()
}
fn message_of(g: &str, m: &str, ver: u64, pk: PublicKey) -> Message {
    let ts = Timestamp::from(ver);
    let content = format!("v{ver}");
    Message {
        id: msg_id(g, m),
        pubkey: pk,
        kind: Kind::from(9u16),
        mls_group_id: gid(g),
        created_at: ts,
        processed_at: ts,
        content: content.clone(),
        tags: Tags::new(),
        event: UnsignedEvent::new(pk, ts, Kind::from(9u16), vec![], content),
        wrapper_event_id: EventId::from_slice(&[200u8; 32]).unwrap(),
        epoch: Some(ver),
        state: MessageState::Created,
    }
}
fn message_ver(m: &Message) -> u64 {
    let a = m.content.trim_start_matches('v').parse::<u64>().unwrap_or(TORN);
    if a == m.created_at.as_secs() && Some(a) == m.epoch && m.event.content == m.content { a } else { TORN }
}

fn ret(res: &str) -> Value {
    json!({"res":res,"ver":0,"nid":"","g":"","sset":[],"rset":[]})
}

#[derive(Clone, Debug)]
pub struct Op {
    pub k: &'static str,
    pub g: String,
    pub ver: u64,
    pub nid: String,
    pub sset: Vec<String>,
    pub e: u64,
    pub m: String,
    pub name: String,
    pub sync: bool, // wait on the round barrier before this op
}

impl Op {
    fn new(k: &'static str, g: &str) -> Op {
        Op { k, g: g.into(), ver: 0, nid: String::new(), sset: vec![], e: 1, m: "m1".into(), name: "s1".into(), sync: false }
    }
    fn json(&self, t: &str, i: usize) -> Value {
        json!({"op":"Inv","t":t,"i":i,"k":self.k,"g":self.g,"ver":self.ver,"nid":self.nid,"sset":self.sset,"e":self.e,"m":self.m,"name":self.name})
    }
}

fn exec<S: Store>(st: &S, o: &Op, pk: PublicKey) -> Value {
    let g = gid(&o.g);
    let okerr = |b: bool| ret(if b { "Ok" } else { "Err" });
    match o.k {
        "save_group" => okerr(st.save_group(group_of(&o.g, o.ver, &o.nid)).is_ok()),
        "find_group" => match st.find_group_by_mls_group_id(&g) {
            Ok(Some(x)) => {
                let mut r = ret("Ok");
                r["ver"] = json!(group_ver(&x));
                r["nid"] = json!(nid_name(&x.nostr_group_id));
                r
            }
            Ok(None) => ret("Ok"),
            Err(_) => ret("Err"),
        },
        "find_by_nid" => match st.find_group_by_nostr_group_id(&nid_bytes(&o.nid)) {
            Ok(Some(x)) => {
                let mut r = ret("Ok");
                r["ver"] = json!(group_ver(&x));
                r["nid"] = json!(nid_name(&x.nostr_group_id));
                r["g"] = json!(group_name_of(&x.mls_group_id));
                r
            }
            Ok(None) => ret("Ok"),
            Err(_) => ret("Err"),
        },
        "all_groups" => match st.all_groups() {
            Ok(v) => {
                let mut r = ret("Ok");
                let mut rs: Vec<(String, u64)> = v.iter().map(|x| (group_name_of(&x.mls_group_id), group_ver(x))).collect();
                rs.sort();
                r["rset"] = json!(rs.iter().map(|(a, v)| json!({"a":a,"v":v})).collect::<Vec<_>>());
                r
            }
            Err(_) => ret("Err"),
        },
        "replace_relays" => okerr(st.replace_group_relays(&g, o.sset.iter().map(|r| relay_url(r)).collect()).is_ok()),
        "group_relays" => match st.group_relays(&g) {
            Ok(v) => {
                let mut r = ret("Ok");
                let mut ss: Vec<String> = v.iter().map(|x| relay_name(&x.relay_url)).collect();
                ss.sort();
                r["sset"] = json!(ss);
                r
            }
            Err(_) => ret("Err"),
        },
        "save_secret" => okerr(st.save_group_exporter_secret(secret_of(&o.g, o.e, o.ver)).is_ok()),
        "get_secret" => match st.get_group_exporter_secret(&g, o.e) {
            Ok(Some(s)) => {
                let mut r = ret("Ok");
                r["ver"] = json!(secret_ver(&s));
                r
            }
            Ok(None) => ret("Ok"),
            Err(_) => ret("Err"),
        },
        "save_message" => okerr(st.save_message(message_of(&o.g, &o.m, o.ver, pk)).is_ok()),
        "find_message" => match st.find_message_by_event_id(&g, &msg_id(&o.g, &o.m)) {
            Ok(Some(m)) => {
                let mut r = ret("Ok");
                r["ver"] = json!(message_ver(&m));
                r
            }
            Ok(None) => ret("Ok"),
            Err(_) => ret("Err"),
        },
        "messages" => match st.messages(&g, Some(Pagination::new(Some(100), Some(0)))) {
            Ok(v) => {
                let mut r = ret("Ok");
                let mut rs: Vec<(String, u64)> = v.iter().map(|m| (msg_name(&m.id), message_ver(m))).collect();
                rs.sort();
                r["rset"] = json!(rs.iter().map(|(a, v)| json!({"a":a,"v":v})).collect::<Vec<_>>());
                r
            }
            Err(_) => ret("Err"),
        },
        "snap_create" => okerr(st.create_group_snapshot(&g, &o.name).is_ok()),
        "snap_rollback" => okerr(st.rollback_group_to_snapshot(&g, &o.name).is_ok()),
        "snap_release" => okerr(st.release_group_snapshot(&g, &o.name).is_ok()),
        "snap_list" => match st.list_group_snapshots(&g) {
            Ok(v) => {
                let mut r = ret("Ok");
                let ss: BTreeSet<String> = v.into_iter().map(|(n, _)| n).collect();
                r["sset"] = json!(ss);
                r
            }
            Err(_) => ret("Err"),
        },
        _ => panic!("unknown op {}", o.k),
    }
}

pub const GROUPS_A: [&str; 2] = ["g1", "g2"];
pub const GROUPS_B: [&str; 2] = ["g3", "g4"];
pub const NIDS_B: [&str; 3] = ["nb1", "nb2", "nb3"];
const RELAY_SETS: [&[&str]; 6] = [&["r1", "r2", "r3"], &["r4", "r5", "r6"], &["r2", "r5"], &[], &["r1"], &["r3", "r4", "r5", "r6"]];

fn fixed_nid(g: &str) -> String {
    format!("na{}", &g[1..])
}

fn to_read(o: Op, rng: &mut StdRng) -> Op {
    let k: &'static str = match o.k {
        "save_group" => ["find_group", "find_by_nid", "all_groups"][rng.gen_range(0..3)],
        "replace_relays" => "group_relays",
        "save_secret" => "get_secret",
        "save_message" => ["find_message", "messages"][rng.gen_range(0..2)],
        "snap_create" | "snap_rollback" | "snap_release" => "snap_list",
        other => other,
    };
    Op { k, sync: false, ver: 0, ..o }
}

/// seeded plan: per-thread op lists; versions are unique per history
pub fn plan(rng: &mut StdRng, profile: &str, threads: usize, total: usize) -> Vec<Vec<Op>> {
    let mut ver = 1u64;
    let mut nv = || {
        ver += 1;
        ver
    };
    let per = (total / threads).max(1);
    let mut out = vec![];
    for t in 0..threads {
        let mut ops = vec![];
        for i in 0..per {
            let ga = GROUPS_A[rng.gen_range(0..2)].to_string();
            let o = match profile {
                "relays" => {
                    let g = "g1";
                    match rng.gen_range(0..10) {
                        0..=3 => {
                            let mut o = Op::new("replace_relays", g);
                            // writers alternate between disjoint sets
                            o.sset = RELAY_SETS[(t + rng.gen_range(0..2) * 2) % 6].iter().map(|s| s.to_string()).collect();
                            o
                        }
                        4..=7 => Op::new("group_relays", g),
                        8 => {
                            let mut o = Op::new("snap_create", g);
                            o.name = format!("s{}", 1 + (t % 2));
                            o
                        }
                        _ => {
                            let mut o = Op::new("snap_rollback", g);
                            o.name = format!("s{}", 1 + (t % 2));
                            o
                        }
                    }
                }
                "nid" => {
                    // threads fight for fresh nostr ids with different groups; a round barrier lines the saves up
                    let gb = GROUPS_B[t % 2];
                    if i % 2 == 0 {
                        let mut o = Op::new("save_group", gb);
                        o.ver = nv();
                        o.nid = NIDS_B[(i / 2) % 3].to_string();
                        o.sync = true;
                        o
                    } else {
                        match rng.gen_range(0..3) {
                            0 => {
                                let mut o = Op::new("find_by_nid", gb);
                                o.nid = NIDS_B[(i / 2) % 3].to_string();
                                o
                            }
                            1 => Op::new("find_group", GROUPS_B[rng.gen_range(0..2)]),
                            _ => Op::new("all_groups", gb),
                        }
                    }
                }
                "snap" => {
                    let g = "g1";
                    if t == 0 {
                        let mut o = Op::new(["snap_create", "snap_rollback", "snap_list", "snap_create", "snap_release"][rng.gen_range(0..5)], g);
                        o.name = format!("s{}", rng.gen_range(1..3));
                        o
                    } else {
                        match rng.gen_range(0..6) {
                            0 | 1 => {
                                let mut o = Op::new("save_group", g);
                                o.ver = nv();
                                o.nid = fixed_nid(g);
                                o
                            }
                            2 => Op::new("snap_list", g),
                            3 => Op::new("find_group", g),
                            4 => {
                                let mut o = Op::new("save_secret", g);
                                o.ver = nv();
                                o.e = rng.gen_range(1..3);
                                o
                            }
                            _ => {
                                let mut o = Op::new("get_secret", g);
                                o.e = rng.gen_range(1..3);
                                o
                            }
                        }
                    }
                }
                _ => {
                    // mix: everything, over existing (A) and initially absent (B) groups
                    let any = if rng.gen_range(0..4) == 0 { GROUPS_B[rng.gen_range(0..2)].to_string() } else { ga.clone() };
                    match rng.gen_range(0..17) {
                        0 | 1 => {
                            let mut o = Op::new("save_group", &any);
                            o.ver = nv();
                            o.nid = if GROUPS_A.contains(&any.as_str()) { fixed_nid(&any) } else { NIDS_B[rng.gen_range(0..2)].to_string() };
                            o
                        }
                        2 => Op::new("find_group", &any),
                        3 => {
                            let mut o = Op::new("find_by_nid", &any);
                            o.nid = if rng.gen_bool(0.5) { fixed_nid(&ga) } else { NIDS_B[rng.gen_range(0..2)].to_string() };
                            o
                        }
                        4 => Op::new("all_groups", &any),
                        5 | 6 => {
                            let mut o = Op::new("replace_relays", &any);
                            o.sset = RELAY_SETS[rng.gen_range(0..6)].iter().map(|s| s.to_string()).collect();
                            o
                        }
                        7 => Op::new("group_relays", &any),
                        8 => {
                            let mut o = Op::new("save_secret", &any);
                            o.ver = nv();
                            o.e = rng.gen_range(1..3);
                            o
                        }
                        9 => {
                            let mut o = Op::new("get_secret", &any);
                            o.e = rng.gen_range(1..3);
                            o
                        }
                        10 | 11 => {
                            let mut o = Op::new("save_message", &any);
                            o.ver = nv();
                            o.m = format!("m{}", rng.gen_range(1..3));
                            o
                        }
                        12 => {
                            let mut o = Op::new("find_message", &any);
                            o.m = format!("m{}", rng.gen_range(1..3));
                            o
                        }
                        13 => Op::new("messages", &any),
                        14 => {
                            let mut o = Op::new("snap_create", &ga);
                            o.name = format!("s{}", rng.gen_range(1..3));
                            o
                        }
                        15 => {
                            let mut o = Op::new(if rng.gen_bool(0.7) { "snap_rollback" } else { "snap_release" }, &ga);
                            o.name = format!("s{}", rng.gen_range(1..3));
                            o
                        }
                        _ => Op::new("snap_list", &ga),
                    }
                }
            };
            // with many threads only the first four write (the search over pending writes is exponential);
            // the others issue the corresponding reads, which is where torn states would be seen
            let o = if threads > 6 && t >= 4 { to_read(o, rng) } else { o };
            ops.push(o);
        }
        out.push(ops);
    }
    out
}

/// barrier that releases all waiters at (nearly) the same instant: they spin instead of sleeping on a condvar
pub struct SpinBarrier {
    n: usize,
    count: std::sync::atomic::AtomicUsize,
    generation: std::sync::atomic::AtomicUsize,
}
impl SpinBarrier {
    pub fn new(n: usize) -> Self {
        SpinBarrier { n, count: Default::default(), generation: Default::default() }
    }
    pub fn wait(&self) {
        let g = self.generation.load(Ordering::SeqCst);
        if self.count.fetch_add(1, Ordering::SeqCst) + 1 == self.n {
            self.count.store(0, Ordering::SeqCst);
            self.generation.fetch_add(1, Ordering::SeqCst);
        } else {
            let mut spins = 0u64;
            while self.generation.load(Ordering::SeqCst) == g {
                std::hint::spin_loop();
                spins += 1;
                if spins % 50_000 == 0 {
                    std::thread::yield_now();
                }
            }
        }
    }
}

pub enum Outcome {
    Done(Vec<Value>),
    Hang(Vec<Value>),
}

/// run one history on one storage instance
pub fn run_history<S: Store>(st: Arc<S>, backend: &str, plans: Vec<Vec<Op>>, yields: Vec<Vec<u8>>, timeout: Duration) -> Outcome {
    let pk = Keys::generate().public_key();
    // sequential setup: the A groups exist with version 1 and one relay
    let mut init_grp = vec![];
    let mut init_rel = vec![];
    for g in GROUPS_A {
        st.save_group(group_of(g, 1, &fixed_nid(g))).expect("setup save_group");
        st.replace_group_relays(&gid(g), [relay_url("r1")].into_iter().collect()).expect("setup relays");
        init_grp.push(json!({"g":g,"ver":1,"nid":fixed_nid(g)}));
        init_rel.push(json!({"g":g,"sset":["r1"]}));
    }
    let mut lines = vec![json!({"op":"Reset","backend":backend,"init":{"grp":init_grp,"rel":init_rel}})];
    let n = plans.len();
    let stamp = Arc::new(AtomicU64::new(0));
    let start = Arc::new(Barrier::new(n));
    let round = Arc::new(SpinBarrier::new(n));
    let syncs: Vec<usize> = plans.iter().map(|p| p.iter().filter(|o| o.sync).count()).collect();
    let uniform_sync = syncs.iter().all(|s| *s == syncs[0]);
    let (tx, rx) = mpsc::channel::<(usize, Vec<(u64, Value)>)>();
    for (ti, ops) in plans.into_iter().enumerate() {
        let (st, stamp, start, round, tx) = (st.clone(), stamp.clone(), start.clone(), round.clone(), tx.clone());
        let ys = yields.get(ti).cloned().unwrap_or_default();
        std::thread::spawn(move || {
            let t = format!("t{}", ti + 1);
            let mut log: Vec<(u64, Value)> = vec![];
            start.wait();
            for (i, o) in ops.iter().enumerate() {
                for _ in 0..ys.get(i).copied().unwrap_or(0) {
                    std::thread::yield_now();
                }
                if o.sync && uniform_sync {
                    round.wait();
                }
                let s1 = stamp.fetch_add(1, Ordering::SeqCst);
                let r = catch_unwind(AssertUnwindSafe(|| exec(&*st, o, pk)));
                let s2 = stamp.fetch_add(1, Ordering::SeqCst);
                let rv = match r {
                    Ok(v) => v,
                    Err(_) => ret("Panic"),
                };
                let mut inv = o.json(&t, i + 1);
                inv["exp"] = rv;
                log.push((s1, inv));
                log.push((s2, json!({"op":"Res","t":t,"i":i + 1})));
            }
            let _ = tx.send((ti, log));
        });
    }
    drop(tx);
    let mut all: Vec<(u64, Value)> = vec![];
    let mut got = 0;
    let deadline = std::time::Instant::now() + timeout;
    while got < n {
        let left = deadline.saturating_duration_since(std::time::Instant::now());
        match rx.recv_timeout(left) {
            Ok((_, log)) => {
                all.extend(log);
                got += 1;
            }
            Err(_) => {
                lines.push(json!({"op":"Hang","backend":backend,"finished":got,"threads":n}));
                return Outcome::Hang(lines);
            }
        }
    }
    all.sort_by_key(|(s, _)| *s);
    lines.extend(all.into_iter().map(|(_, v)| v));
    Outcome::Done(lines)
}

pub fn open_store(backend: &str, dir: &tempfile::TempDir, rng: &mut StdRng) -> (Option<Arc<MdkMemoryStorage>>, Option<Arc<MdkSqliteStorage>>) {
    if backend == "mem" {
        (Some(Arc::new(MdkMemoryStorage::default())), None)
    } else {
        let mut k = [0u8; 32];
        rng.fill(&mut k);
        let p = dir.path().join("lin.db");
        (None, Some(Arc::new(MdkSqliteStorage::new_with_key(p, EncryptionConfig::new(k)).expect("open lin db"))))
    }
}

/// unlogged volume stress with a watchdog: snapshot create/release/rollback on one group while other threads write
/// (any group). A hang or a panic is reported as a line the spec has no step for.
pub fn stress<S: Store>(st: Arc<S>, backend: &str, threads: usize, millis: u64) -> Value {
    let pk = Keys::generate().public_key();
    for g in GROUPS_A {
        st.save_group(group_of(g, 1, &fixed_nid(g))).expect("setup");
        st.replace_group_relays(&gid(g), [relay_url("r1")].into_iter().collect()).expect("setup relays");
    }
    let stop = Arc::new(std::sync::atomic::AtomicBool::new(false));
    let (tx, rx) = mpsc::channel::<(u64, u64)>();
    for ti in 0..threads {
        let (st, stop, tx) = (st.clone(), stop.clone(), tx.clone());
        std::thread::spawn(move || {
            let mut calls = 0u64;
            let mut panics = 0u64;
            let mut i = 0u64;
            while !stop.load(Ordering::Relaxed) {
                i += 1;
                let r = catch_unwind(AssertUnwindSafe(|| {
                    if ti == 0 {
                        let name = format!("s{}", i % 3);
                        let _ = st.create_group_snapshot(&gid("g1"), &name);
                        if i % 2 == 0 {
                            let _ = st.release_group_snapshot(&gid("g1"), &name);
                        } else {
                            let _ = st.rollback_group_to_snapshot(&gid("g1"), &name);
                        }
                        let _ = st.list_group_snapshots(&gid("g1"));
                    } else {
                        let g = GROUPS_A[(ti + i as usize) % 2];
                        let _ = st.save_group(group_of(g, i + 1, &fixed_nid(g)));
                        let _ = st.replace_group_relays(&gid(g), RELAY_SETS[(i % 6) as usize].iter().map(|r| relay_url(r)).collect());
                        let _ = st.save_group_exporter_secret(secret_of(g, i % 3, i));
                        let _ = st.save_message(message_of(g, "m1", i, pk));
                        let _ = st.group_relays(&gid(g));
                    }
                }));
                calls += 1;
                if r.is_err() {
                    panics += 1;
                }
            }
            let _ = tx.send((calls, panics));
        });
    }
    drop(tx);
    std::thread::sleep(Duration::from_millis(millis));
    stop.store(true, Ordering::SeqCst);
    let mut calls = 0;
    let mut panics = 0;
    let mut got = 0;
    let deadline = std::time::Instant::now() + Duration::from_secs(10);
    while got < threads {
        match rx.recv_timeout(deadline.saturating_duration_since(std::time::Instant::now())) {
            Ok((c, p)) => {
                calls += c;
                panics += p;
                got += 1;
            }
            Err(_) => return json!({"op":"Hang","backend":backend,"finished":got,"threads":threads,"phase":"stress"}),
        }
    }
    if panics > 0 {
        return json!({"op":"Panic","backend":backend,"panics":panics,"phase":"stress"});
    }
    json!({"op":"Stress","backend":backend,"threads":threads,"rounds":calls,"millis":millis})
}

pub struct LinCfg {
    pub seed: u64,
    pub n: usize,
    pub backend: String, // mem | sql | both
    pub max_threads: usize,
    pub total_ops: usize,
    pub profiles: Vec<String>,
    pub stress_ms: u64,
}

pub fn run(cfg: &LinCfg) -> (Vec<Value>, bool) {
    let mut rng = StdRng::seed_from_u64(cfg.seed ^ 0x11a);
    let mut lines = vec![];
    let backends: Vec<&str> = match cfg.backend.as_str() {
        "both" => vec!["mem", "sql"],
        "mem" => vec!["mem"],
        _ => vec!["sql"],
    };
    let thread_choices = [2usize, 3, 4, 6, 8, 12, 16];
    for i in 0..cfg.n {
        let backend = backends[i % backends.len()];
        let profile = cfg.profiles[(i / backends.len()) % cfg.profiles.len()].clone();
        let mut nt = thread_choices[rng.gen_range(0..thread_choices.len())].min(cfg.max_threads);
        if profile == "nid" {
            nt = 2 + (i / 2) % 2; // 2 or 3 threads: one (or two) per contended group
        }
        if profile == "snap" {
            nt = nt.min(4).max(2);
        }
        let plans = plan(&mut rng, &profile, nt, cfg.total_ops);
        let yields: Vec<Vec<u8>> = plans.iter().map(|p| p.iter().map(|_| [0u8, 0, 0, 1, 3][rng.gen_range(0..5)]).collect()).collect();
        let dir = tempfile::tempdir().unwrap();
        let (m, s) = open_store(backend, &dir, &mut rng);
        let out = match (m, s) {
            (Some(m), _) => run_history(m, backend, plans, yields, Duration::from_secs(20)),
            (_, Some(s)) => run_history(s, backend, plans, yields, Duration::from_secs(20)),
            _ => unreachable!(),
        };
        match out {
            Outcome::Done(l) => lines.extend(l),
            Outcome::Hang(l) => {
                lines.extend(l);
                return (lines, true);
            }
        }
    }
    if cfg.stress_ms > 0 {
        for backend in &backends {
            let dir = tempfile::tempdir().unwrap();
            let (m, s) = open_store(backend, &dir, &mut rng);
            let nt = 4.min(cfg.max_threads).max(2);
            let v = match (m, s) {
                (Some(m), _) => stress(m, backend, nt, cfg.stress_ms),
                (_, Some(s)) => stress(s, backend, nt, cfg.stress_ms),
                _ => unreachable!(),
            };
            let hang = v["op"] == "Hang";
            lines.push(json!({"op":"Reset","backend":backend,"init":{"grp":[],"rel":[]}}));
            lines.push(v);
            if hang {
                return (lines, true);
            }
        }
    }
    lines.push(json!({"op":"End"}));
    (lines, false)
}
