//! C13 (c): plaintext-at-rest scan. A scripted MDK history runs on a keyring-managed encrypted SQLite database;
//! after every step EVERY file in the database directory is searched for canaries (message texts, group name /
//! description / relay urls, group ids, member identities, exporter secrets, the database key) in raw, hex,
//! base64 and UTF-16 forms. A watcher thread does the same continuously, so transient files (-journal, temp)
//! are seen too. The same history on an UNENCRYPTED database is the positive control of the scanner.
//! The scan is an observation attached to the history; the trace invariant `leaks = {}` is evaluated by TLC.

use std::collections::{BTreeMap, BTreeSet};
use std::os::unix::fs::PermissionsExt;
use std::path::{Path, PathBuf};
use std::sync::atomic::{AtomicBool, Ordering};
use std::sync::{Arc, Mutex};

use mdk_core::groups::{NostrGroupConfigData, NostrGroupDataUpdate};
use mdk_core::{MDK, MdkConfig};
use mdk_memory_storage::MdkMemoryStorage;
use mdk_sqlite_storage::MdkSqliteStorage;
use mdk_storage_traits::groups::GroupStorage;
use mdk_storage_traits::{GroupId, MdkStorageProvider};
use nostr::{Event, EventBuilder, EventId, Keys, Kind, RelayUrl};
use openmls_traits::OpenMlsProvider as _;
use rand::rngs::StdRng;
use rand::{Rng, SeedableRng};
use serde_json::{Value, json};

use crate::opencells::SVC;
use crate::store::{self, shared};

#[derive(Clone)]
pub struct Pattern {
    pub kind: String, // msg | name | desc | relay | gid | nid | ident | exporter | dbkey | big | sqlite_header | schema
    pub form: String,
    pub bytes: Vec<u8>,
}

fn b64(data: &[u8]) -> String {
    const T: &[u8; 64] = b"ABCDEFGHIJKLMNOPQRSTUVWXYZabcdefghijklmnopqrstuvwxyz0123456789+/";
    let mut o = String::new();
    for c in data.chunks(3) {
        let n = (c[0] as u32) << 16 | (*c.get(1).unwrap_or(&0) as u32) << 8 | *c.get(2).unwrap_or(&0) as u32;
        o.push(T[(n >> 18) as usize & 63] as char);
        o.push(T[(n >> 12) as usize & 63] as char);
        if c.len() > 1 { o.push(T[(n >> 6) as usize & 63] as char) }
        if c.len() > 2 { o.push(T[n as usize & 63] as char) }
    }
    o
}

pub fn forms_of(kind: &str, raw: &[u8], text: bool) -> Vec<Pattern> {
    let mut v = vec![];
    let mut add = |form: &str, b: Vec<u8>| {
        if b.len() >= 8 {
            v.push(Pattern { kind: kind.to_string(), form: form.to_string(), bytes: b });
        }
    };
    add("raw", raw.to_vec());
    add("hex", hex::encode(raw).into_bytes());
    add("HEX", hex::encode_upper(raw).into_bytes());
    // base64 of the value at the three alignments is overkill; the aligned one without padding is searched
    add("b64", b64(&raw[..raw.len() - raw.len() % 3]).into_bytes());
    if text {
        let s = String::from_utf8_lossy(raw).to_string();
        add("utf16le", s.encode_utf16().flat_map(|u| u.to_le_bytes()).collect());
        add("utf16be", s.encode_utf16().flat_map(|u| u.to_be_bytes()).collect());
    }
    v
}

fn find(hay: &[u8], needle: &[u8]) -> bool {
    if needle.is_empty() || hay.len() < needle.len() {
        return false;
    }
    let first = needle[0];
    let last = hay.len() - needle.len();
    let mut i = 0;
    while i <= last {
        match hay[i..=last].iter().position(|&b| b == first) {
            None => return false,
            Some(p) => {
                i += p;
                if &hay[i..i + needle.len()] == needle {
                    return true;
                }
                i += 1;
            }
        }
    }
    false
}

pub fn scan_dir(dir: &Path, pats: &[Pattern]) -> (Vec<Value>, Vec<Value>) {
    let mut files = vec![];
    let mut leaks = vec![];
    let mut names: Vec<PathBuf> = std::fs::read_dir(dir).map(|rd| rd.flatten().map(|e| e.path()).collect()).unwrap_or_default();
    names.sort();
    for p in names {
        let Ok(md) = std::fs::metadata(&p) else { continue };
        if !md.is_file() {
            continue;
        }
        let Ok(bytes) = std::fs::read(&p) else { continue };
        let name = p.file_name().unwrap().to_string_lossy().to_string();
        let mode = if md.permissions().mode() & 0o077 == 0 { "secure" } else { "loose" };
        files.push(json!({"name":name,"size":bytes.len(),"mode":mode}));
        for pt in pats {
            if find(&bytes, &pt.bytes) {
                leaks.push(json!({"file":name,"kind":pt.kind,"form":pt.form}));
            }
        }
    }
    (files, leaks)
}

struct Watch {
    stop: Arc<AtomicBool>,
    pats: Arc<Mutex<Vec<Pattern>>>,
    seen: Arc<Mutex<BTreeSet<String>>>,
    leaks: Arc<Mutex<Vec<Value>>>,
    h: Option<std::thread::JoinHandle<()>>,
}

impl Watch {
    fn start(dir: PathBuf) -> Watch {
        let stop = Arc::new(AtomicBool::new(false));
        let pats: Arc<Mutex<Vec<Pattern>>> = Arc::new(Mutex::new(vec![]));
        let seen = Arc::new(Mutex::new(BTreeSet::new()));
        let leaks = Arc::new(Mutex::new(vec![]));
        let (s2, p2, se2, l2) = (stop.clone(), pats.clone(), seen.clone(), leaks.clone());
        let h = std::thread::spawn(move || {
            while !s2.load(Ordering::SeqCst) {
                let ps: Vec<Pattern> = p2.lock().unwrap().iter().filter(|p| p.form == "raw" || p.form == "hex").cloned().collect();
                let (files, lk) = scan_dir(&dir, &ps);
                for f in files {
                    let tag = if f["mode"] == "loose" { format!("{} (loose)", f["name"].as_str().unwrap()) } else { f["name"].as_str().unwrap().to_string() };
                    se2.lock().unwrap().insert(tag);
                }
                if !lk.is_empty() {
                    let mut g = l2.lock().unwrap();
                    for x in lk {
                        if g.len() < 50 && !g.contains(&x) {
                            g.push(x);
                        }
                    }
                }
                std::thread::yield_now();
            }
        });
        Watch { stop, pats, seen, leaks, h: Some(h) }
    }
    fn finish(&mut self) -> (Vec<String>, Vec<Value>) {
        self.stop.store(true, Ordering::SeqCst);
        if let Some(h) = self.h.take() {
            let _ = h.join();
        }
        (self.seen.lock().unwrap().iter().cloned().collect(), self.leaks.lock().unwrap().clone())
    }
}

fn relay(s: &str) -> RelayUrl {
    RelayUrl::parse(s).unwrap()
}

fn key_package<S: MdkStorageProvider>(m: &MDK<S>, keys: &Keys) -> Event {
    let (content, tags, _) = m.create_key_package_for_event(&keys.public_key(), vec![relay("wss://kp.example")]).expect("kp");
    EventBuilder::new(Kind::MlsKeyPackage, content).tags(tags).sign_with_keys(keys).expect("sign kp")
}

fn canary(rng: &mut StdRng, tag: &str) -> String {
    let r: u64 = rng.r#gen();
    format!("CANARY{tag}x{r:016x}Z")
}


/// run the scripted history with alice on `mode` = "keyring" | "unenc"
pub fn run_history(seed: u64, mode: &str, hid: usize) -> Vec<Value> {
    let mut rng = StdRng::seed_from_u64(seed.wrapping_mul(7919) ^ hid as u64);
    let sh = shared();
    sh.reset();
    store::set_thread_name("t1");
    let dir = tempfile::tempdir().unwrap();
    let dbdir = dir.path().join("alice");
    let dbpath = dbdir.join("mdk.db");
    let key_id = format!("mdk.db.key.scan{hid}");
    let open = |p: &Path| -> MdkSqliteStorage {
        if mode == "keyring" { MdkSqliteStorage::new(p, SVC, &key_id).expect("open keyring db") } else { MdkSqliteStorage::new_unencrypted(p).expect("open unenc db") }
    };
    let mut lines: Vec<Value> = vec![];
    let mut pats: Vec<Pattern> = vec![];
    let mut kinds_present: BTreeSet<String> = BTreeSet::new();
    let mut watch = Watch::start(dbdir.clone());
    let mut found_kinds: BTreeSet<String> = BTreeSet::new();
    let mut all_files: BTreeSet<String> = BTreeSet::new();

    macro_rules! addpat {
        ($kind:expr, $raw:expr, $text:expr) => {{
            let f = forms_of($kind, $raw, $text);
            kinds_present.insert($kind.to_string());
            watch.pats.lock().unwrap().extend(f.iter().cloned());
            pats.extend(f);
        }};
    }
    // structural tell-tales of an unencrypted SQLite file
    pats.push(Pattern { kind: "sqlite_header".into(), form: "raw".into(), bytes: b"SQLite format 3\0".to_vec() });
    pats.push(Pattern { kind: "schema".into(), form: "raw".into(), bytes: b"CREATE TABLE".to_vec() });
    watch.pats.lock().unwrap().extend(pats.iter().cloned());

    let cfg = MdkConfig::default();
    let alice_keys = Keys::generate();
    let bob_keys = Keys::generate();
    let carol_keys = Keys::generate();
    let mut alice = Some(MDK::builder(open(&dbpath)).with_config(cfg.clone()).build());
    let bob = MDK::builder(MdkMemoryStorage::default()).with_config(cfg.clone()).build();
    let carol = MDK::builder(MdkMemoryStorage::default()).with_config(cfg.clone()).build();
    if mode == "keyring" {
        let k = sh.kr(SVC, &key_id).expect("db key in keyring");
        addpat!("dbkey", &k, false);
    }
    for (n, k) in [("alice", &alice_keys), ("bob", &bob_keys), ("carol", &carol_keys)] {
        let _ = n;
        addpat!("ident", &k.public_key().to_bytes(), false);
    }

    let mut step_no = 0;
    macro_rules! scan {
        ($step:expr, $res:expr) => {{
            step_no += 1;
            let (files, leaks) = scan_dir(&dbdir, &pats);
            for f in &files {
                all_files.insert(f["name"].as_str().unwrap().to_string());
            }
            for l in &leaks {
                found_kinds.insert(l["kind"].as_str().unwrap().to_string());
            }
            let dmode = std::fs::metadata(&dbdir).map(|m| if m.permissions().mode() & 0o077 == 0 { "secure" } else { "loose" }).unwrap_or("none");
            lines.push(json!({"op":"Scan","mode":mode,"n":step_no,"step":$step,"res":$res,"files":files,"dmode":dmode,
                              "leaks": if mode == "keyring" { json!(leaks) } else { json!([]) },
                              "control_found": leaks.len(), "patterns": pats.len()}));
        }};
    }

    scan!("open", "Ok");
    // s1 create group with canary name / description / relays
    let name0 = canary(&mut rng, "name0");
    let desc0 = canary(&mut rng, "desc0");
    let relay0 = format!("wss://{}.example", canary(&mut rng, "relay0").to_lowercase());
    addpat!("name", name0.as_bytes(), true);
    addpat!("desc", desc0.as_bytes(), true);
    addpat!("relay", relay0.trim_start_matches("wss://").as_bytes(), true);
    let kps = vec![key_package(&bob, &bob_keys), key_package(&carol, &carol_keys)];
    let gcfg = NostrGroupConfigData::new(name0.clone(), desc0.clone(), None, None, None, vec![relay(&relay0)],
        vec![alice_keys.public_key(), bob_keys.public_key(), carol_keys.public_key()]);
    let a = alice.as_ref().unwrap();
    let res = a.create_group(&alice_keys.public_key(), kps, gcfg).expect("create_group");
    let gid: GroupId = res.group.mls_group_id.clone();
    addpat!("gid", gid.as_slice(), false);
    addpat!("nid", &res.group.nostr_group_id, false);
    a.merge_pending_commit(&gid).ok();
    scan!("create_group", "Ok");
    for (m, rumor) in [(&bob, &res.welcome_rumors[0]), (&carol, &res.welcome_rumors[1])] {
        let wid = EventId::from_slice(&rng.r#gen::<[u8; 32]>()).unwrap();
        let w = m.process_welcome(&wid, rumor).expect("process_welcome");
        m.accept_welcome(&w).expect("accept");
    }
    let exporter = |a: &MDK<MdkSqliteStorage>, pats: &mut Vec<Pattern>, kinds: &mut BTreeSet<String>, w: &Watch| {
        let ep = a.get_group(&gid).ok().flatten().map(|g| g.epoch).unwrap_or(0);
        for e in 0..=ep {
            if let Ok(Some(s)) = a.provider.storage().get_group_exporter_secret(&gid, e) {
                let raw: &[u8; 32] = &s.secret;
                if !pats.iter().any(|p| p.kind == "exporter" && p.form == "raw" && p.bytes == raw.to_vec()) {
                    let f = forms_of("exporter", raw, false);
                    kinds.insert("exporter".into());
                    w.pats.lock().unwrap().extend(f.iter().cloned());
                    pats.extend(f);
                }
            }
        }
    };
    // s3 alice sends a message
    let m1 = canary(&mut rng, "msg1");
    addpat!("msg", m1.as_bytes(), true);
    let rumor = EventBuilder::new(Kind::Custom(9), m1.clone()).build(alice_keys.public_key());
    let ev1 = a.create_message(&gid, rumor).expect("create_message");
    exporter(a, &mut pats, &mut kinds_present, &watch);
    scan!("alice_send", "Ok");
    let r = a.process_message(&ev1);
    scan!("alice_echo", if r.is_ok() { "Ok" } else { "Err" });
    bob.process_message(&ev1).ok();
    carol.process_message(&ev1).ok();
    // s4 bob sends, alice stores it
    let m2 = canary(&mut rng, "msg2");
    addpat!("msg", m2.as_bytes(), true);
    let rumor = EventBuilder::new(Kind::Custom(9), m2.clone()).build(bob_keys.public_key());
    let ev2 = bob.create_message(&gid, rumor).expect("bob create_message");
    let r = a.process_message(&ev2);
    scan!("alice_receive", if r.is_ok() { "Ok" } else { "Err" });
    carol.process_message(&ev2).ok();
    // s5 alice renames the group (commit), merges
    let name1 = canary(&mut rng, "name1");
    addpat!("name", name1.as_bytes(), true);
    let upd = a.update_group_data(&gid, NostrGroupDataUpdate::new().name(name1.clone())).expect("update_group_data");
    scan!("alice_commit_pending", "Ok");
    a.merge_pending_commit(&gid).expect("merge");
    exporter(a, &mut pats, &mut kinds_present, &watch);
    scan!("alice_commit_merged", "Ok");
    bob.process_message(&upd.evolution_event).ok();
    carol.process_message(&upd.evolution_event).ok();
    // s7 fork: bob and carol commit concurrently; alice applies the later one first, then the earlier (better) one => rollback
    let now = nostr::Timestamp::now().as_secs();
    let name2 = canary(&mut rng, "name2");
    let name3 = canary(&mut rng, "name3");
    addpat!("name", name2.as_bytes(), true);
    addpat!("name", name3.as_bytes(), true);
    mdk_core::verif_hooks::set_wrapper_override(Some((now - 50, None)));
    let cb = bob.update_group_data(&gid, NostrGroupDataUpdate::new().name(name2.clone())).expect("bob commit");
    mdk_core::verif_hooks::set_wrapper_override(Some((now - 90, None)));
    let cc = carol.update_group_data(&gid, NostrGroupDataUpdate::new().name(name3.clone())).expect("carol commit");
    mdk_core::verif_hooks::set_wrapper_override(None);
    let r1 = a.process_message(&cb.evolution_event);
    exporter(a, &mut pats, &mut kinds_present, &watch);
    scan!("alice_apply_losing_commit", format!("{:?}", r1.as_ref().map(|x| std::mem::discriminant(x)).is_ok()));
    let r2 = a.process_message(&cc.evolution_event);
    exporter(a, &mut pats, &mut kinds_present, &watch);
    let rolled = a.get_group(&gid).ok().flatten().map(|g| g.name == name3).unwrap_or(false);
    scan!("alice_rollback_to_winner", if r2.is_ok() && rolled { "RolledBack" } else { "NoRollback" });
    // s8 a value larger than a page (overflow pages)
    let big_marker = canary(&mut rng, "big");
    addpat!("big", big_marker.as_bytes(), true);
    let big: String = std::iter::repeat(big_marker.as_str()).take(300).collect::<Vec<_>>().join(" ");
    // carol is on the winning branch
    let rumor = EventBuilder::new(Kind::Custom(9), big.clone()).build(carol_keys.public_key());
    match carol.merge_pending_commit(&gid) {
        _ => {}
    }
    let evb = carol.create_message(&gid, rumor);
    let r = match &evb {
        Ok(e) => a.process_message(e).is_ok(),
        Err(_) => false,
    };
    scan!("alice_receive_big", if r { "Ok" } else { "Err" });
    // also a large value written by alice herself
    let rumor = EventBuilder::new(Kind::Custom(9), format!("{big} own")).build(alice_keys.public_key());
    let r = a.create_message(&gid, rumor).is_ok();
    scan!("alice_send_big", if r { "Ok" } else { "Err" });
    // s9 storage-level snapshot / rollback with a canary snapshot name
    let snap = canary(&mut rng, "snap");
    addpat!("name", snap.as_bytes(), true);
    let st = a.provider.storage();
    let r = st.create_group_snapshot(&gid, &snap).is_ok();
    scan!("snapshot", if r { "Ok" } else { "Err" });
    let desc1 = canary(&mut rng, "desc1");
    addpat!("desc", desc1.as_bytes(), true);
    if let Ok(Some(mut g)) = st.find_group_by_mls_group_id(&gid) {
        g.description = desc1.clone();
        let _ = st.save_group(g);
    }
    let relay1 = format!("wss://{}.example", canary(&mut rng, "relay1").to_lowercase());
    addpat!("relay", relay1.trim_start_matches("wss://").as_bytes(), true);
    let _ = st.replace_group_relays(&gid, [relay(&relay1)].into_iter().collect());
    scan!("direct_writes", "Ok");
    let r = st.rollback_group_to_snapshot(&gid, &snap).is_ok();
    scan!("rollback", if r { "Ok" } else { "Err" });
    // s10 close and reopen with the keyring key: the data is still there
    drop(alice.take());
    scan!("closed", "Ok");
    let a2 = MDK::builder(open(&dbpath)).with_config(cfg.clone()).build();
    let msgs = a2.get_messages(&gid, None).map(|v| v.into_iter().map(|m| m.content).collect::<Vec<_>>()).unwrap_or_default();
    let readable = msgs.iter().any(|c| c == &m1) && msgs.iter().any(|c| c == &m2);
    scan!("reopened", if readable { "DataReadable" } else { "DataLost" });
    drop(a2);
    scan!("closed_again", "Ok");
    let (seen, wleaks) = watch.finish();
    for l in &wleaks {
        found_kinds.insert(l["kind"].as_str().unwrap().to_string());
    }
    for s in &seen {
        all_files.insert(s.clone());
    }
    let mut kinds: BTreeMap<String, bool> = BTreeMap::new();
    for k in &kinds_present {
        kinds.insert(k.clone(), found_kinds.contains(k));
    }
    let transient_loose: Vec<String> = seen.iter().filter(|x| x.ends_with("(loose)")).cloned().collect();
    lines.push(json!({"op":"ScanEnd","mode":mode,"files_seen":all_files,"transient_loose":transient_loose,"transient_leaks": if mode=="keyring" { json!(wleaks) } else { json!([]) },
                      "kinds": kinds_present, "found_kinds": found_kinds, "steps": step_no}));
    lines
}
