//! mdk-verif-hopen: executes the real constructors / storage backends and records NDJSON traces for
//! OpenTrace.tla (C13) and LinTrace.tla (C19). No verdicts here: TLC decides.
mod lin;
mod opencells;
mod scan;
mod store;

use std::collections::HashMap;
use std::io::Write;

use serde_json::{Value, json};

fn dev_flags() -> Vec<String> {
    std::env::var("VERIF_DEV").unwrap_or_default().split(',').filter(|x| !x.is_empty()).map(|x| x.to_string()).collect()
}

fn write_trace(path: &str, meta: Value, lines: Vec<Value>) {
    let f = std::fs::File::create(path).expect("create out");
    let mut w = std::io::BufWriter::new(f);
    writeln!(w, "{}", meta).unwrap();
    for l in lines {
        writeln!(w, "{}", l).unwrap();
    }
}

fn main() {
    let args: Vec<String> = std::env::args().collect();
    let out = args.get(2).cloned().unwrap_or_default();
    let mut kv = HashMap::new();
    for a in args.iter().skip(3) {
        if let Some((k, v)) = a.split_once('=') {
            kv.insert(k.to_string(), v.to_string());
        }
    }
    let get = |k: &str, d: &str| kv.get(k).cloned().unwrap_or(d.to_string());
    let seed: u64 = get("seed", "1").parse().unwrap();
    // panics inside the code under test are data; keep stderr quiet
    std::panic::set_hook(Box::new(|_| {}));
    store::install();
    match args.get(1).map(|s| s.as_str()) {
        Some("matrix") => {
            let (lines, cells) = opencells::run_matrix(seed);
            let mut m = opencells::meta(1, &["p1", "p2"], 4, &dev_flags());
            m["cells"] = json!(cells);
            write_trace(&out, m, lines);
        }
        Some("race") => {
            let n: usize = get("n", "10").parse().unwrap();
            let mt: usize = get("maxthreads", "4").parse().unwrap();
            let mn: usize = get("minthreads", "2").parse().unwrap();
            let lines = opencells::run_races(seed, n, mn.min(mt), mt);
            write_trace(&out, opencells::meta(mt, &["p1", "p2"], 4, &dev_flags()), lines);
        }
        Some("poison") => {
            let lines = opencells::run_poison(seed);
            write_trace(&out, opencells::meta(5, &["p1", "p2", "p3", "p4", "p5"], 4, &dev_flags()), lines);
        }
        Some("scan") => {
            let n: usize = get("n", "1").parse().unwrap();
            let mut lines = vec![];
            for i in 0..n {
                lines.push(json!({"op":"Reset","files":[],"kr":"","lock":"free"}));
                lines.extend(scan::run_history(seed, "keyring", i));
                lines.push(json!({"op":"Reset","files":[],"kr":"","lock":"free"}));
                lines.extend(scan::run_history(seed, "unenc", i));
            }
            write_trace(&out, opencells::meta(1, &["p1"], 1, &dev_flags()), lines);
        }
        Some("lin") => {
            let cfg = lin::LinCfg {
                seed,
                n: get("n", "10").parse().unwrap(),
                backend: get("backend", "both"),
                max_threads: get("maxthreads", "8").parse().unwrap(),
                total_ops: get("ops", "40").parse().unwrap(),
                profiles: get("profiles", "mix").split(',').map(|x| x.to_string()).collect(),
                stress_ms: get("stress_ms", "0").parse().unwrap(),
            };
            let (lines, _hang) = lin::run(&cfg);
            let th: Vec<String> = (1..=16).map(|i| format!("t{i}")).collect();
            let meta = json!({"op":"Meta","threads":th,"groups":["g1","g2","g3","g4"],"epochs":[1,2],"msgs":["m1","m2"],
                              "names":["s1","s2"],"dev":dev_flags()});
            write_trace(&out, meta, lines);
            // hung threads (if any) are abandoned
            std::process::exit(0);
        }
        _ => {
            eprintln!("usage: mdk-verif-hopen matrix|race|poison|scan|lin <out.ndjson> key=value...");
            std::process::exit(2);
        }
    }
}
