//! Instrumented keyring-core credential store + the global, totally ordered event log.
//!
//! The host application chooses the credential store, so this is the public integration surface of
//! `MdkSqliteStorage::new`. Every store call is one observable step of Open.tla (Get / Set / Delete); the order
//! stamp is taken while the store's own mutex is held, so the logged order IS the order of the store's effects.

use std::any::Any;
use std::cell::RefCell;
use std::collections::HashMap;
use std::sync::atomic::{AtomicBool, AtomicU64, Ordering};
use std::sync::{Arc, Mutex, OnceLock};
use std::time::Duration;

use keyring_core::api::{CredentialApi, CredentialStoreApi};
use keyring_core::{Credential, Entry, Error as KeyringError};
use serde_json::{Value, json};

thread_local! {
    static TNAME: RefCell<String> = const { RefCell::new(String::new()) };
}

pub fn set_thread_name(n: &str) {
    TNAME.with(|t| *t.borrow_mut() = n.to_string());
}
pub fn thread_name() -> String {
    TNAME.with(|t| t.borrow().clone())
}

#[derive(Default)]
pub struct Shared {
    pub secrets: Mutex<HashMap<(String, String), Vec<u8>>>,
    pub log: Mutex<Vec<(u64, Value)>>,
    pub stamp: AtomicU64,
    /// next set_secret panics (a crash of the platform keystore inside key generation)
    pub panic_next_set: AtomicBool,
    /// latency (microseconds) before the store's effect takes place
    pub set_latency_us: AtomicU64,
    pub get_latency_us: AtomicU64,
    /// names for key material: bytes -> "kN" in order of first sight
    pub keynames: Mutex<HashMap<Vec<u8>, String>>,
}

pub fn shared() -> &'static Arc<Shared> {
    static S: OnceLock<Arc<Shared>> = OnceLock::new();
    S.get_or_init(|| Arc::new(Shared::default()))
}

impl Shared {
    pub fn next_stamp(&self) -> u64 {
        self.stamp.fetch_add(1, Ordering::SeqCst)
    }
    pub fn emit(&self, v: Value) {
        let s = self.next_stamp();
        self.log.lock().unwrap().push((s, v));
    }
    /// log an observation of shared state: the value is (re)measured until no other event took a stamp between
    /// the measurement and the stamping, so the line's place in the log is the instant of the measurement
    pub fn emit_measured<F: FnMut() -> Value>(&self, mut f: F) {
        loop {
            let before = self.stamp.load(Ordering::SeqCst);
            let v = f();
            if self.stamp.compare_exchange(before, before + 1, Ordering::SeqCst, Ordering::SeqCst).is_ok() {
                self.log.lock().unwrap().push((before, v));
                return;
            }
        }
    }
    pub fn key_name(&self, k: &[u8]) -> String {
        let mut m = self.keynames.lock().unwrap();
        if let Some(n) = m.get(k) {
            return n.clone();
        }
        let n = format!("k{}", m.len() + 1);
        m.insert(k.to_vec(), n.clone());
        n
    }
    pub fn known_keys(&self) -> Vec<(Vec<u8>, String)> {
        self.keynames.lock().unwrap().iter().map(|(k, n)| (k.clone(), n.clone())).collect()
    }
    pub fn take_log(&self) -> Vec<Value> {
        let mut l = std::mem::take(&mut *self.log.lock().unwrap());
        l.sort_by_key(|(s, _)| *s);
        l.into_iter().map(|(_, v)| v).collect()
    }
    pub fn reset(&self) {
        self.secrets.lock().unwrap().clear();
        self.log.lock().unwrap().clear();
        self.keynames.lock().unwrap().clear();
        self.panic_next_set.store(false, Ordering::SeqCst);
        self.set_latency_us.store(0, Ordering::SeqCst);
        self.get_latency_us.store(0, Ordering::SeqCst);
    }
    pub fn set_kr(&self, svc: &str, id: &str, key: Option<&[u8]>) {
        let mut s = self.secrets.lock().unwrap();
        match key {
            Some(k) => {
                s.insert((svc.to_string(), id.to_string()), k.to_vec());
            }
            None => {
                s.remove(&(svc.to_string(), id.to_string()));
            }
        }
    }
    pub fn kr(&self, svc: &str, id: &str) -> Option<Vec<u8>> {
        self.secrets.lock().unwrap().get(&(svc.to_string(), id.to_string())).cloned()
    }
}

struct VCred {
    spec: (String, String),
    sh: Arc<Shared>,
}

fn nap(us: u64) {
    if us > 0 {
        std::thread::sleep(Duration::from_micros(us));
    } else {
        std::thread::yield_now();
    }
}

impl CredentialApi for VCred {
    fn set_secret(&self, secret: &[u8]) -> keyring_core::Result<()> {
        let t = thread_name();
        let kn = self.sh.key_name(secret);
        if self.sh.panic_next_set.swap(false, Ordering::SeqCst) {
            self.sh.emit(json!({"op":"Set","t":t,"id":self.spec.1,"k":kn,"res":"panic"}));
            panic!("simulated crash inside the platform credential store");
        }
        nap(self.sh.set_latency_us.load(Ordering::SeqCst));
        let mut s = self.sh.secrets.lock().unwrap();
        s.insert(self.spec.clone(), secret.to_vec());
        let st = self.sh.next_stamp();
        self.sh.log.lock().unwrap().push((st, json!({"op":"Set","t":t,"id":self.spec.1,"k":kn,"res":"ok"})));
        Ok(())
    }

    fn get_secret(&self) -> keyring_core::Result<Vec<u8>> {
        let t = thread_name();
        nap(self.sh.get_latency_us.load(Ordering::SeqCst));
        let s = self.sh.secrets.lock().unwrap();
        let r = s.get(&self.spec).cloned();
        let kn = r.as_ref().map(|k| self.sh.key_name(k)).unwrap_or_default();
        let st = self.sh.next_stamp();
        self.sh.log.lock().unwrap().push((st, json!({"op":"Get","t":t,"id":self.spec.1,"k":kn})));
        drop(s);
        r.ok_or(KeyringError::NoEntry)
    }

    fn delete_credential(&self) -> keyring_core::Result<()> {
        let t = thread_name();
        let mut s = self.sh.secrets.lock().unwrap();
        let r = s.remove(&self.spec);
        let st = self.sh.next_stamp();
        self.sh.log.lock().unwrap().push((st, json!({"op":"Delete","t":t,"id":self.spec.1})));
        drop(s);
        r.map(|_| ()).ok_or(KeyringError::NoEntry)
    }

    fn get_credential(&self) -> keyring_core::Result<Option<Arc<Credential>>> {
        Ok(None)
    }
    fn get_specifiers(&self) -> Option<(String, String)> {
        Some(self.spec.clone())
    }
    fn as_any(&self) -> &dyn Any {
        self
    }
    fn debug_fmt(&self, f: &mut std::fmt::Formatter<'_>) -> std::fmt::Result {
        write!(f, "VCred{:?}", self.spec)
    }
}

struct VStore {
    sh: Arc<Shared>,
}

impl CredentialStoreApi for VStore {
    fn vendor(&self) -> String {
        "mdk-verif instrumented store".into()
    }
    fn id(&self) -> String {
        "mdk-verif".into()
    }
    fn build(&self, service: &str, user: &str, _m: Option<&HashMap<&str, &str>>) -> keyring_core::Result<Entry> {
        Ok(Entry::new_with_credential(Arc::new(VCred { spec: (service.to_string(), user.to_string()), sh: self.sh.clone() })))
    }
    fn as_any(&self) -> &dyn Any {
        self
    }
    fn debug_fmt(&self, f: &mut std::fmt::Formatter<'_>) -> std::fmt::Result {
        write!(f, "VStore")
    }
}

pub fn install() {
    static ONCE: OnceLock<()> = OnceLock::new();
    ONCE.get_or_init(|| {
        keyring_core::set_default_store(Arc::new(VStore { sh: shared().clone() }));
    });
}
