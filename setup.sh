#!/bin/sh
# Build the harness offline from files on disk only.
set -e
cd "$(dirname "$0")"
exec ./check --setup
