"""C12: crash-point enumeration (hook H2) with verdicts predicted by spec/Crash.tla."""
import json, os, re, time

CFG = "SPECIFICATION Spec\nCONSTANTS\n  Dev <- TraceDev\nPOSTCONDITION Accepted\nCHECK_DEADLOCK FALSE\n"


def plan_C12(ctx, rt):
    pid, tier, seed, t0 = ctx["pid"], ctx["tier"], ctx["seed"], ctx["t0"]
    rt.build_harness()
    dev = rt.dev_flags()
    known = {(k["property"], k["tag"]): k for k in rt.known()}
    mc = rt.tlc_mc("MCCrash.tla", "MC_crash.cfg", workers=4, timeout=300)
    if mc["violated"] or not mc["completed"]:
        rt.log(mc["out"][-2000:])
        if mc["violated"]:
            rp = os.path.join(rt.OUT, "replays", "C12_mc.txt"); os.makedirs(os.path.dirname(rp), exist_ok=True)
            open(rp, "w").write(mc["out"][-20000:])
            rt.log("VIOLATION property=C12 replay=%s" % rp); return 1
        rt.log("TOOL-ERROR: MCCrash did not complete"); return 2
    stride = 5 if tier == "quick" else 1
    kinds = "messages,send,ownmsg,commit,race,proposal_admin,proposal_member,own_merge,own_echo,merge_data,welcome,create,txatomic"
    if ctx.get("replay"):
        rp = json.load(open(ctx["replay"])); stride = rp["stride"]; kinds = rp["kinds"]; seed = rp["seed"]
    tr = os.path.join(rt.OUT, "traces" if rt.REPO == "/repo" else "traces_alt_%d" % os.getpid(), "C12_%s.ndjson" % tier)
    os.makedirs(os.path.dirname(tr), exist_ok=True)
    rc, out = rt.sh("%s crash %s seed=%d stride=%d kinds=%s" % (rt.BIN, tr, seed, stride, kinds), timeout=7200,
                    env={"VERIF_DEV": ",".join(dev)})
    if rc != 0:
        rt.log(out[-3000:]); rt.log("TOOL-ERROR: crash harness failed (rc=%s)" % rc); return 2
    r = rt.tlc_trace("CrashTrace.tla", CFG, tr, view="all", timeout=1800)
    recs = [json.loads(l) for l in open(tr)][1:]
    per = {}
    for d in recs:
        key = "%s/%d/%s" % (d["scen"], d["j"], d["opkind"])
        p = per.setdefault(key, {"cuts": 0, "recovered": 0, "ticks": d["T"], "writes": d["W"]})
        p["cuts"] += 1
        p["recovered"] += 1 if (d["reopen_ok"] and d["loads"] and d["final_equal"]) else 0
    tags = sorted(set(re.findall(r'<<"KNOWN-FINDING", "C12", "(\w+)"', r["out"])))
    viol = []
    m = re.search(r"CRASH-UNRECOVERED at line (\d+) : (.*)", r["out"])
    if m:
        line = int(m.group(1))
        bad = json.loads(open(tr).read().splitlines()[line - 1])
        rp = os.path.join(rt.OUT, "replays", "C12_%s_%d.json" % (tier, seed)); os.makedirs(os.path.dirname(rp), exist_ok=True)
        json.dump({"property": "C12", "seed": seed, "stride": stride, "kinds": bad["scen"], "experiment": bad}, open(rp, "w"))
        viol.append(("%s cut %d/%d (%s) writes done %s of %s: retry=%s diff=%s atomic=%s" % (
            bad["opkind"], bad["k"], bad["T"], bad["label"], bad["wdone"], bad["wall"], bad["retry"], bad["diff"], bad.get("atomic")), rp))
    elif "Model checking completed. No error" not in r["out"]:
        rt.log(r["out"][-3000:]); rt.log("TOOL-ERROR: TLC failed on crash trace"); return 2
    for t in tags:
        if ("C12", t) not in known:
            viol.append(("excuse C12/%s used but not listed in known_findings.json" % t, "known_findings.json"))
    samples = [{"call": k, **v} for k, v in list(per.items())[:6]]
    cov = {"evaluations": len(recs), "distinct_nontrivial": len([d for d in recs if d["nw"] > 0 and d["nw"] < d["W"]]),
           "rule": "for each API call kind (process_message: application / proposal / commit / commit-with-rollback / own-commit echo; "
                   "merge_pending_commit; create_message; commit creation; create_group; process_welcome; accept_welcome; storage-level snapshot, "
                   "rollback and relay-replacement transactions) hook H2 numbers every storage operation of the call; for every index k "
                   "(quick: every 5th plus all transaction-internal, first and last) the victim's database copy is reopened after a simulated "
                   "process death at k, the interrupted call and all later events are re-run and the result is compared with the uninterrupted run; "
                   "Crash.tla assigns the verdict from the surviving write prefix; non-trivial = cut strictly between the first and last durable write",
           "samples": samples, "states": max(mc["states"], 1), "transitions": max(mc["transitions"], 1),
           "per_call": per, "stride": stride, "exhaustive": stride == 1}
    rt.write_evidence(pid, tier, seed, "fault_enumeration", cov, time.time() - t0, len(viol),
                      ["process death is simulated by a panic at the tick and abandoning the connection (uncommitted SQLite transactions roll back); torn pages / fsync are SQLite's guarantee",
                       "dedup records are excluded from the compared state (they flip on any re-processing, crash or not)",
                       "key material of events created by a retried creating call differs from the reference run: compared structurally"])
    for t in tags:
        if ("C12", t) in known:
            rt.log("KNOWN-FINDING: property=C12 %s" % known[("C12", t)]["text"])
    if viol:
        for what, rp in viol:
            rt.log("violation detail:", what)
            rt.log("VIOLATION property=C12 replay=%s" % rp)
        return 1
    rt.log("OK C12 tier=%s: %d crash experiments over %d calls, MC %d states, %.0fs" % (tier, len(recs), len(per), mc["states"], time.time() - t0))
    return 0


PLANS = {"C12": plan_C12}
