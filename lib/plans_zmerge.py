"""C18 is decided by two engines: the Marmot engine (pointer = head of the default order through real MLS histories with
rollbacks / invalidations) and the Storage engine (ordering, pagination, pointer maintenance at the storage API on both
backends).  This plugin runs both and merges their evidence into evidence/C18.json."""
import json, os, time
import plans, plans_storage


def plan_C18(ctx, rt):
    t0 = time.time()
    rp = ctx.get("replay")
    is_storage_replay = bool(rp) and rp.endswith(".json") and "ops" in json.load(open(rp))
    if rp:   # a replay file belongs to exactly one of the two engines
        if is_storage_replay:
            c2 = dict(ctx); c2["pid"] = "C18S"
            return plans_storage.plan_C18S(c2, rt)
        return plans.PLANS["C18"](dict(ctx), rt)
    rc1 = plans.PLANS["C18"](dict(ctx), rt)
    if rc1 == 2:
        return 2
    p1 = os.path.join(rt.EVID, "C18.json")
    e1 = json.load(open(p1)) if os.path.exists(p1) else None
    c2 = dict(ctx); c2["pid"] = "C18S"
    rc2 = plans_storage.plan_C18S(c2, rt)
    p2 = os.path.join(rt.EVID, "C18S.json")
    e2 = json.load(open(p2)) if os.path.exists(p2) else None
    if os.path.exists(p2):
        os.remove(p2)
    if rc2 == 2:
        return 2
    if e1 and e2:
        c1, c2 = e1["coverage"], e2["coverage"]
        cov = dict(c1)
        for k in ("states", "transitions", "traces_validated_against_impl", "evaluations", "distinct_nontrivial"):
            cov[k] = c1.get(k, 0) + c2.get(k, 0)
        cov["samples"] = (c1.get("samples") or [])[:3] + (c2.get("samples") or [])[:3]
        cov["rule"] = "MARMOT ENGINE: " + c1.get("rule", "") + "  ||  STORAGE ENGINE: " + c2.get("rule", "")
        cov["marmot_engine"] = {k: v for k, v in c1.items() if k not in ("samples",)}
        cov["storage_engine"] = {k: v for k, v in c2.items() if k not in ("samples",)}
        e1["coverage"] = cov
        e1["assumptions"] = list(e1.get("assumptions", [])) + list(e2.get("assumptions", []))
        e1["violations"] = e1.get("violations", 0) + e2.get("violations", 0)
        e1["wall_s"] = round(time.time() - t0, 1)
        json.dump(e1, open(os.path.join(rt.EVID, "C18.json"), "w"), indent=1)
    return max(rc1, rc2)


PLANS = {"C18": plan_C18}
