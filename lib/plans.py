"""Per-property check plans. Each plan(ctx, rt) returns the exit code."""
import json, os, time, hashlib, re

TRACE_CFG = """SPECIFICATION TraceSpec
CONSTANTS
  Clients <- TraceClients
  Groups <- TraceGroups
  Sql <- TraceSql
  Retention <- TraceRetention
  Lookback <- TraceLookback
  MaxPast <- TraceMaxPast
  U <- TraceU
  EverTooDeep <- TraceEverTooDeep
  OOT <- TraceOOT
  MFD <- TraceMFD
  Dev <- TraceDev
POSTCONDITION TraceAccepted
CHECK_DEADLOCK FALSE
"""

VIEWS = {
    "all": ["st", "mls", "chain", "members", "pend", "props", "mdata", "rec", "last", "msgs", "proc", "snaps", "res", "out", "notif", "welc"],
    # per-property views: only what the property talks about is bound
    "C01": ["st", "mls", "chain", "members", "mdata"],
    "C02": ["mls", "chain", "msgs"],
    "C07": ["st", "mls", "chain", "members", "mdata", "pend", "props", "msgs", "rec"],
    "C08": ["st", "mls", "chain", "mdata", "rec", "res"],
    "C20": ["mls", "chain", "snaps"],
    "C03": ["st", "mls", "msgs", "res"],
    "C18": ["mls", "msgs", "last"],
    "C04": ["mls", "msgs", "res"],
    "C05": ["st", "mls", "chain", "members", "mdata", "pend", "props", "res"],
    "C06": ["st", "mls", "chain", "members", "mdata", "pend", "props", "msgs", "rec", "res"],
    "C16": ["st", "mls", "chain", "members", "mdata", "rec", "pend", "props", "res", "welc"],
    "C11": ["st", "mls", "chain", "members", "pend", "props", "mdata", "rec", "last", "msgs", "proc", "snaps", "res", "out", "welc"],
}


def patch_meta(rt, trace, views, dev):
    L = open(trace).read().split("\n", 1)
    m = json.loads(L[0])
    m["views"] = views
    m["dev"] = dev
    open(trace, "w").write(json.dumps(m) + "\n" + (L[1] if len(L) > 1 else ""))


def histories(trace):
    """Split a trace file into histories (lists of parsed records)."""
    hs, cur = [], None
    for ln in open(trace):
        d = json.loads(ln)
        if d["op"] == "Meta":
            continue
        if d["op"] == "Reset":
            cur = []
            hs.append(cur)
            continue
        if cur is None:
            cur = []
            hs.append(cur)
        cur.append(d)
    return hs


def sched_of(h):
    out = []
    for d in h:
        op = d["op"]
        if op == "Deliver":
            out.append("D(%s,%s)=%s" % (d["c"], d["e"], d["res"]))
        elif op == "Commit":
            out.append("K(%s,%s,ts%s,r%s)->%s" % (d["c"], d["kind"], d["ts"], d["rank"], d.get("e", "")))
        elif op == "Send":
            out.append("S(%s)->%s" % (d["c"], d.get("e", "")))
        elif op in ("Merge", "Clear", "Leave", "Restart"):
            out.append("%s(%s)" % (op, d.get("c", "")))
        elif op == "Create":
            out.append("Create(%s;%s;adm=%s)" % (d["c"], ",".join(d["members"]), ",".join(d["admins"])))
        elif op == "Welcome":
            out.append("W(%s,%s,%s)" % (d["c"], d["w"], d["what"]))
        else:
            out.append(op)
    return out


def nt_rollback(h):
    return any(d["op"] == "Deliver" and d.get("rollbacks") for d in h) or \
        any(d["op"] == "Deliver" and d["res"] == "Unprocessable" for d in h)


def nt_msgs(h):
    return sum(1 for d in h if d["op"] == "Send" and d["res"] == "Ok") >= 1 and \
        any(d["op"] == "Deliver" and d["res"] == "App" for d in h)


def nt_redeliver(h):
    seen = set()
    for d in h:
        if d["op"] == "Deliver":
            k = (d["c"], d["e"])
            if k in seen:
                return True
            seen.add(k)
    return False


def nt_commit(h):
    return any(d["op"] == "Deliver" and d["res"] == "Commit" for d in h)


def nt_restart(h):
    return any(d["op"] == "Restart" for d in h)


def run_marmot(ctx, rt, *, invariants, properties=(), view, mc, profiles, nontrivial, rule, level="model_checking",
               assumptions=None, known_tags=(), schedules=None):
    pid, tier, seed = ctx["pid"], ctx["tier"], ctx["seed"]
    t0 = ctx["t0"]
    rt.build_harness()
    viol = []
    known_seen = set()
    dev = rt.dev_flags()
    known = {(k["property"], k["tag"]): k for k in rt.known()}
    states = transitions = 0
    mc_runs = []
    # (A) exhaustive model checking of the design
    for ent in mc.get(tier, mc.get("quick", [])):
        (module, cfg, to) = ent[:3]
        extra = ent[3] if len(ent) > 3 else ""
        if "-simulate" in extra:
            extra = extra + " -seed %d" % (seed + 7)
        # the bounded instance is checked on the AS-BUILT flag set: exactly the deviations listed in known_findings.json
        import re as _re
        cfg_txt = open(os.path.join(rt.SPEC, cfg)).read()
        cfg_txt = _re.sub(r"(?m)^  Dev = \{.*\}$", "  Dev = {%s}" % ",".join('"%s"' % d for d in dev), cfg_txt)
        tmp_cfg = "mc_%d_%s" % (os.getpid(), cfg)
        open(os.path.join(rt.SPEC, tmp_cfg), "w").write(cfg_txt)
        try:
            r = rt.tlc_mc(module, tmp_cfg, workers=8, timeout=to, extra=extra)
        finally:
            os.remove(os.path.join(rt.SPEC, tmp_cfg))
        mc_runs.append({"cfg": cfg, "dev": dev, "mode": "simulation" if "-simulate" in extra else "exhaustive", "states": r["states"],
                        "transitions": r["transitions"], "behaviours": r.get("behaviours", 0), "completed": r["completed"]})
        states += r["states"]
        transitions += r["transitions"]
        if r["violated"]:
            rp = os.path.join(rt.OUT, "replays", "%s_mc_%s.txt" % (pid, os.path.basename(cfg)))
            os.makedirs(os.path.dirname(rp), exist_ok=True)
            open(rp, "w").write(r["out"][-20000:])
            viol.append(("mc:" + ",".join(r["violated"]), rp))
        elif not r["completed"]:
            rt.log("TOOL-ERROR: TLC did not complete on %s (rc=%s)" % (cfg, r["rc"]))
            rt.log(r["out"][-1500:])
            return 2
    # (B)+(C) real executions validated against the spec
    nh = 0
    distinct = set()
    nontriv = set()
    samples = []
    events = 0
    traces_dir = os.path.join(rt.OUT, "traces" if rt.REPO == "/repo" else "traces_alt_%d" % os.getpid())
    os.makedirs(traces_dir, exist_ok=True)
    cfg_text = TRACE_CFG + "".join("INVARIANT %s\n" % i for i in invariants) + "".join("PROPERTY %s\n" % p for p in properties)
    plist = profiles.get(tier, profiles["quick"])
    if ctx.get("replay"):
        rp = json.load(open(ctx["replay"]))
        plist = [rp["profile"]]
    for pi, prof in enumerate(plist):
        prof = dict(prof)
        if not ctx.get("replay"):
            prof["seed"] = seed * 1000 + pi
        tr = os.path.join(traces_dir, "%s_%s_%d.ndjson" % (pid, tier, pi))
        argv = " ".join("%s=%s" % kv for kv in prof.items())
        rc, out = rt.sh("%s rand %s %s" % (rt.BIN, tr, argv), timeout=3600, env={"VERIF_DEV": ",".join(dev)})
        if rc != 0:
            rt.log(out[-3000:])
            rt.log("TOOL-ERROR: harness failed (rc=%s) on profile %s" % (rc, argv))
            return 2
        patch_meta(rt, tr, VIEWS, dev)
        r = rt.tlc_trace("MarmotTrace.tla", cfg_text, tr, view=view, timeout=3000)
        events += r["states"]
        for (p, tag) in r["known"]:
            known_seen.add((p, tag))
        hs = histories(tr)
        bad_line = r["rejected_line"]
        if r["toolerr"]:
            rt.log(r["out"][-3000:])
            rt.log("TOOL-ERROR: TLC trace validation failed to run on %s" % tr)
            return 2
        if not r["accepted"]:
            # TLC stops at the first violated invariant: the offending line is the last state reached
            line = bad_line if bad_line else r["states"] + 1
            exc, rel = rt.history_excerpt(tr, line)
            rp = os.path.join(rt.OUT, "replays", "%s_%s_%d.json" % (pid, tier, prof["seed"]))
            os.makedirs(os.path.dirname(rp), exist_ok=True)
            json.dump({"property": pid, "profile": prof, "view": view, "trace_file": tr, "line": line,
                       "violated": r["violated"], "mismatch": r["mismatch"],
                       "history": [json.loads(x) for x in exc[1:]]}, open(rp, "w"))
            what = ",".join(r["violated"]) if r["violated"] else "step-not-allowed-by-spec"
            viol.append((what + (" " + r["mismatch"][:300] if r["mismatch"] else ""), rp))
        for h in hs:
            nh += 1
            key = hashlib.sha1("|".join(sched_of(h)).encode()).hexdigest()
            distinct.add(key)
            if nontrivial(h):
                nontriv.add(key)
                if len(samples) < 3:
                    samples.append({"profile": argv, "schedule": sched_of(h)[:60]})
        if viol:
            break
    # (B') spec -> implementation: schedules derived from TLC counterexamples / directed cases, replayed on the real code
    for sf in (schedules or []):
        if viol:
            break
        for be in ("mem", "sql"):
            tr = os.path.join(traces_dir, "%s_sched_%s_%s.ndjson" % (pid, os.path.basename(sf)[:-5], be))
            rc, out = rt.sh("%s sched %s %s %s" % (rt.BIN, os.path.join(rt.ROOT, "schedules", sf), tr, be), timeout=600,
                            env={"VERIF_DEV": ",".join(dev)})
            if rc != 0:
                rt.log(out[-2000:]); rt.log("TOOL-ERROR: schedule replay failed: %s" % sf); return 2
            patch_meta(rt, tr, VIEWS, dev)
            r = rt.tlc_trace("MarmotTrace.tla", cfg_text, tr, view=view, timeout=600)
            events += r["states"]
            for (p, tag) in r["known"]:
                known_seen.add((p, tag))
            nh += 1
            if r["toolerr"]:
                rt.log(r["out"][-2000:]); rt.log("TOOL-ERROR: TLC failed on schedule %s" % sf); return 2
            if not r["accepted"]:
                rp = os.path.join(rt.OUT, "replays", "%s_sched_%s_%s.json" % (pid, os.path.basename(sf)[:-5], be))
                os.makedirs(os.path.dirname(rp), exist_ok=True)
                json.dump({"property": pid, "schedule": sf, "backend": be, "violated": r["violated"], "mismatch": r["mismatch"],
                           "trace_file": tr}, open(rp, "w"))
                viol.append((("schedule %s/%s: " % (sf, be)) + (",".join(r["violated"]) or "step-not-allowed-by-spec") + " " + r["mismatch"][:200], rp))
                break
    # unlisted known-finding tags are violations
    for (p, tag) in sorted(known_seen):
        if (p, tag) not in known:
            viol.append(("excuse %s/%s used but not listed in known_findings.json" % (p, tag), "known_findings.json"))
    wall = time.time() - t0
    if not samples:
        samples = [{"note": "no non-trivial history in this run"}]
    cov = {"states": max(states, 1), "transitions": max(transitions, 1),
           "traces_validated_against_impl": nh if not viol else max(nh - 1, 0),
           "samples": samples, "evaluations": nh, "distinct_nontrivial": len(nontriv),
           "rule": rule, "trace_events_checked": events, "mc_runs": mc_runs,
           "view_bound_fields": VIEWS.get(view, view), "invariants": list(invariants) + list(properties),
           "exhaustive": False, "profiles": plist}
    rt.write_evidence(pid, tier, seed, level, cov, wall, len(viol), assumptions or [])
    for (p, tag) in sorted(known_seen):
        if (p, tag) in known and p == pid:
            rt.log("KNOWN-FINDING: property=%s %s" % (p, known[(p, tag)]["text"]))
    if viol:
        for what, rp in viol:
            rt.log("violation detail:", what)
            rt.log("VIOLATION property=%s replay=%s" % (pid, rp))
        return 1
    rt.log("OK %s tier=%s: MC %d states; %d real histories (%d distinct non-trivial), %d trace steps validated, %.0fs"
           % (pid, tier, states, nh, len(nontriv), events, wall))
    return 0


ASSUME_MARMOT = [
    "OpenMLS is trusted and abstracted to the contract listed in DESIGN.md Appendix A (calibrated by every validated trace)",
    "NIP-44 / MLS ciphertexts are unreadable without the key (symbolic cryptography)",
    "wrapper timestamps / id order are fixed by hook H1 (cfg mdk_verif); processed_at is logged, never predicted",
    "TLC exhaustive part is bounded by the constants in the MC cfg; real executions are sampled (seeded)",
]

# exhaustive bounded instance (core race) + random behaviours of the FULL action set (membership, welcomes, restart, hostile
# events, adversary) with the invariants of all Marmot properties
MC_CORE = {"quick": [("MCMarmot.tla", "MC_core_quick.cfg", 600),
                     ("MCMarmot.tla", "MC_full_sim.cfg", 300, "-simulate num=80 -depth 50")],
           "thorough": [("MCMarmot.tla", "MC_core_quick.cfg", 600),
                        ("MCMarmot.tla", "MC_full_sim.cfg", 1500, "-simulate num=1500 -depth 60")]}


# + the invitation / membership instance (add, remove, welcomes under two wrapper ids, accept / decline / re-accept, key-package
#   deletion, restarts), explored exhaustively breadth-first up to a depth (9 steps quick, 12 thorough)
MC_MEMBER = {"quick": MC_CORE["quick"] + [("MCMarmot.tla", "MC_member_quick.cfg", 900)],
             "thorough": MC_CORE["thorough"] + [("MCMarmot.tla", "MC_member_thorough.cfg", 3000)]}


def core_profiles(extra=None, n=10, steps=40):
    q = [dict(n=n, steps=steps, backend="mem", regime="causal", profile="core"),
         dict(n=n, steps=steps, backend="sql", regime="causal", profile="core"),
         dict(n=n, steps=steps + 10, backend="mixed", regime="causal", retention=2, profile="members"),
         dict(n=n, steps=steps + 10, backend="sql", regime="causal", profile="members", groups=2),
         dict(n=12, backend="mixed", profile="fork"),
         dict(n=8, backend="mixed", profile="props"),
         dict(n=6, backend="mixed", profile="rejoin"),
         # unrestricted regime: events are handed over in any order, also ahead of the commits they depend on
         dict(n=5, steps=60, backend="mixed", regime="free", profile="core"),
         dict(n=5, steps=70, backend="mixed", regime="free", profile="members", retention=3)]
    t = [dict(n=60, backend=["mem", "sql", "mixed"][i % 3], profile="fork", retention=[5, 3, 6][i % 3]) for i in range(3)]
    t += [dict(n=60, backend=["mixed", "sql", "mem"][i % 3], profile="rejoin", retention=[5, 2, 3][i % 3]) for i in range(3)]
    t += [dict(n=40, steps=70, backend=["mixed", "sql", "mem"][i % 3], regime="free", profile=["core", "members"][i % 2],
               retention=[5, 3, 2][i % 3]) for i in range(4)]
    t += [dict(n=60, backend=["mem", "sql", "mixed"][i % 3], profile="props", restarts=i % 2, retention=[5, 2, 3][i % 3]) for i in range(3)]
    for i in range(10):
        t.append(dict(n=50, steps=60, backend=["mem", "sql", "mixed"][i % 3], regime="causal",
                      retention=[5, 2, 1, 3][i % 4], profile=["core", "members"][i % 2]))
    if extra:
        for p in q + t:
            p.update(extra)
    return {"quick": q, "thorough": t}


def plan_C01(ctx, rt):
    return run_marmot(ctx, rt, invariants=["InvC01"], view="C01", mc=MC_CORE, profiles=core_profiles(),
                      nontrivial=nt_rollback, assumptions=ASSUME_MARMOT,
                      rule="seeded random histories (2-4 members, admin subsets, concurrent commits with scheduled ts/id order, "
                           "messages, merge/clear, duplicated deliveries, quiescence passes); distinct = hash of the action sequence; "
                           "non-trivial = contains a rollback or a refused stale commit")


def plan_C02(ctx, rt):
    pr = core_profiles()
    # non-default sender-ratchet / past-epoch windows, narrow enough that bursts of messages cross them
    pr["quick"] = pr["quick"] + [dict(n=5, steps=70, backend="mixed", regime="causal", profile="core", oot=1, mfd=2),
                                 dict(n=4, steps=70, backend="mem", regime="causal", profile="members", oot=2, mfd=5, maxpast=2)]
    pr["thorough"] = pr["thorough"] + [dict(n=30, steps=80, backend=["mem", "sql", "mixed"][i % 3], regime="causal", profile=["core", "members"][i % 2],
                                            oot=[1, 2, 0, 3][i % 4], mfd=[2, 5, 1, 3][i % 4], maxpast=[5, 2, 1, 3][i % 4]) for i in range(4)]
    return run_marmot(ctx, rt, invariants=["InvC02"], properties=["ActC02"], view="C02", mc=MC_CORE, profiles=pr, schedules=["rejoin_same_epoch.json"],
                      nontrivial=nt_msgs, assumptions=ASSUME_MARMOT,
                      rule="as C01, plus configurations with out_of_order_tolerance in {0..3}, maximum_forward_distance in {1..5}, "
                           "max_past_epochs in {1..5} and senders talking in bursts; non-trivial = at least one message created and stored at another member")


def plan_C07(ctx, rt):
    pr = core_profiles()
    # re-delivery after a restart (hydrated snapshot queue) and to clients fed hostile / foreign events
    pr["quick"] = pr["quick"] + [dict(n=8, steps=50, backend="sql", regime="causal", profile="core", restarts=1),
                                 dict(n=6, steps=60, backend="mixed", regime="causal", profile="members", observers=1, junk=1, restarts=1)]
    pr["thorough"] = pr["thorough"] + [dict(n=40, steps=70, backend=["sql", "mixed"][i % 2], regime="causal", profile=["core", "members"][i % 2],
                                            restarts=1, junk=i % 2, observers=i % 2, retention=[5, 2][i % 2]) for i in range(4)]
    return run_marmot(ctx, rt, invariants=[], properties=["ActC07"], view="C07", mc=MC_CORE, profiles=pr,
                      nontrivial=nt_redeliver, assumptions=ASSUME_MARMOT,
                      rule="as C01, plus histories with restarts and hostile events; non-trivial = some event handed to the same client at least twice")


def plan_C08(ctx, rt):
    return run_marmot(ctx, rt, invariants=["InvC08"], view="C08", mc=MC_CORE, profiles=core_profiles(),
                      nontrivial=nt_commit, assumptions=ASSUME_MARMOT, schedules=["two_welcomes.json"],
                      rule="as C01; record vs MLS projection compared after every call; non-trivial = a remote commit was applied")


def plan_C20(ctx, rt):
    pr = core_profiles()
    # start-up pruning by age: restarts with snapshot_ttl_seconds in {0..3} around the real ages of the stored snapshots
    pr["quick"] = pr["quick"] + [dict(n=6, steps=60, backend="sql", regime="causal", profile="core", restarts=1, ttl=1, retention=3),
                                 dict(n=4, steps=40, backend="mixed", regime="causal", profile="core", retention=0)]
    pr["thorough"] = pr["thorough"] + [dict(n=30, steps=70, backend="sql", regime="causal", profile=["core", "members"][i % 2], restarts=1, ttl=1,
                                            retention=[0, 1, 4, 6][i % 4], groups=1 + i % 2) for i in range(4)]
    return run_marmot(ctx, rt, invariants=["InvC20"], properties=["ActC20"], view="C20", mc=MC_MEMBER, profiles=pr, schedules=["reaccept_snapshots.json"],
                      nontrivial=nt_commit, assumptions=ASSUME_MARMOT + ["snapshot ages are measured by the driver's own wall clock (seconds); a restart with a "
                                "TTL is issued only when every stored snapshot is unambiguously older or younger than the TTL"],
                      rule="as C01 with retention in {0,1,2,3,5,6}; stored snapshot list compared after every call; restarts with "
                           "snapshot_ttl_seconds in {0,1,2,3} must remove exactly the snapshots older than the TTL by the driver's clock")


def restart_profiles():
    q = [dict(n=10, steps=50, backend="sql", regime="causal", profile="core", restarts=1),
         dict(n=10, steps=60, backend="sql", regime="causal", profile="members", restarts=1, retention=2),
         dict(n=6, steps=50, backend="mixed", regime="causal", profile="members", restarts=1),
         dict(n=4, steps=50, backend="sql", regime="causal", profile="core", restarts=1, ttl=1)]
    t = [dict(n=50, steps=70, backend=["sql", "mixed"][i % 2], regime="causal", profile=["core", "members"][i % 2],
              restarts=1, retention=[5, 2, 1, 3][i % 4], ttl=i % 2) for i in range(8)]
    return {"quick": q, "thorough": t}


def plan_C11(ctx, rt):
    return run_marmot(ctx, rt, invariants=["InvC01", "InvC02", "InvC08", "InvC20"], properties=["ActC02"], view="C11", mc=MC_CORE,
                      profiles=restart_profiles(), nontrivial=nt_restart, assumptions=ASSUME_MARMOT,
                      rule="seeded random histories on SQLite-backed clients in which the MDK instance and its storage are dropped and "
                           "re-created from the file between random API calls; every later call must be the step the (as-built) spec "
                           "predicts with a stuttering Restart; non-trivial = history contains at least one restart")


def observer_profiles():
    q = [dict(n=10, steps=60, backend="mixed", regime="causal", profile="members", observers=1, groups=2),
         dict(n=10, steps=60, backend="sql", regime="causal", profile="members", observers=1, retention=2),
         dict(n=8, steps=50, backend="mem", regime="causal", profile="members", observers=1, restarts=0)]
    q += [dict(n=6, backend="mixed", profile="leaf"), dict(n=8, backend="mixed", profile="welcome"), dict(n=8, backend="mixed", profile="devices")]
    t = [dict(n=50, steps=70, backend=["mem", "sql", "mixed"][i % 3], regime="causal", profile="members", observers=1,
              retention=[5, 2, 1, 3][i % 4]) for i in range(8)]
    t += [dict(n=50, backend="mixed", profile="leaf"), dict(n=50, backend="mixed", profile="welcome"),
          dict(n=50, backend="mixed", profile="devices"), dict(n=30, backend="sql", profile="devices")]
    return {"quick": q, "thorough": t}


def nt_observer(h):
    # an eviction or a late join happened and somebody without an operational group was handed events
    return any(d["op"] == "Deliver" and d["post"].get("mls") != "ok" for d in h)


def plan_C03(ctx, rt):
    return run_marmot(ctx, rt, invariants=["InvC03"], properties=["ActC03"], view="C03", mc=MC_MEMBER,
                      profiles=observer_profiles(), nontrivial=nt_observer,
                      assumptions=ASSUME_MARMOT + ["secrecy of MLS/NIP-44 ciphertext without the key is assumed (symbolic); the check decides "
                                                    "whether the key-handling logic ever lets a non-member of the sending epoch store or return a message"],
                      rule="membership histories (adds, removes, leaves, re-invites, rotations, rollbacks) in which every client that holds no "
                           "operational group (never added, pending, evicted) and every late joiner is handed every published event and welcome; "
                           "non-trivial = such an observer was handed events")


def nt_ptr(h):
    return sum(1 for d in h if d["op"] == "Send" and d["res"] == "Ok") >= 2


def plan_C18(ctx, rt):
    return run_marmot(ctx, rt, invariants=["InvC18"], view="C18", mc=MC_CORE, profiles=core_profiles(), nontrivial=nt_ptr,
                      assumptions=ASSUME_MARMOT,
                      rule="as C01 with rumor timestamps drawn from a 3-value window (ties on created_at; processed_at logged); the cached "
                           "last-message pointer is bound and compared with the head of the default order over non-invalidated messages after "
                           "every call; non-trivial = at least two messages created")


def welcome_profiles():
    q = [dict(n=25, backend="mixed", profile="welcome"),
         dict(n=25, backend="sql", profile="welcome"),
         dict(n=8, steps=60, backend="mixed", regime="causal", profile="members", observers=1, wreplay=1)]
    t = [dict(n=150, backend=["mem", "sql", "mixed"][i % 3], profile="welcome") for i in range(6)]
    return {"quick": q, "thorough": t}


def nt_welcome(h):
    ws = [d for d in h if d["op"] == "Welcome"]
    return len(ws) >= 2 and any(d["what"] == "accept" and d["res"] == "Ok" for d in ws)


def plan_C16(ctx, rt):
    return run_marmot(ctx, rt, invariants=["InvC16", "InvC08"], properties=["ActC16", "ActC16Join"], view="C16", mc=MC_MEMBER,
                      profiles=welcome_profiles(), nontrivial=nt_welcome, assumptions=ASSUME_MARMOT, schedules=["two_welcomes.json", "rejoin_same_epoch.json"],
                      rule="directed-random invitation scenarios: valid welcome, the same rumor replayed under fresh wrapper ids, welcome "
                           "handed to a non-recipient, process/accept/decline in random order and repetition, interleaved with messages and "
                           "commits, remove + re-invite with the joiner having / not having processed its removal; recipients in every state "
                           "(none, pending, active, inactive); non-trivial = >= 2 welcome calls incl. a successful accept")


LEAK_CFG = "SPECIFICATION Spec\nPOSTCONDITION Accepted\nCHECK_DEADLOCK FALSE\n"


def plan_C14(ctx, rt):
    """Scan of every log record / error / processing result produced while running the Marmot histories."""
    pid, tier, seed, t0 = ctx["pid"], ctx["tier"], ctx["seed"], ctx["t0"]
    rt.build_harness()
    dev = rt.dev_flags()
    profs = {"quick": [dict(n=8, steps=50, backend="mixed", regime="causal", profile="core"),
                       dict(n=8, steps=60, backend="mixed", regime="causal", profile="members", observers=1, restarts=1, wreplay=1),
                       dict(n=8, steps=60, backend="sql", regime="causal", profile="members", observers=1, restarts=1, retention=2),
                       dict(n=20, backend="mixed", profile="welcome"),
                       dict(n=6, steps=70, backend="mixed", regime="causal", profile="members", groups=2, adv=1, junk=1),
                       dict(n=6, backend="mixed", profile="props", restarts=1)],
             "thorough": [dict(n=40, steps=70, backend=["mem", "sql", "mixed"][i % 3], regime="causal",
                               profile=["core", "members", "members", "welcome"][i % 4], observers=1, restarts=1, wreplay=1,
                               retention=[5, 2, 1][i % 3]) for i in range(12)]
                         + [dict(n=30, steps=70, backend=["mixed", "mem"][i % 2], regime="causal", profile="members", groups=2, adv=1, junk=1) for i in range(2)]
                         + [dict(n=30, backend="mixed", profile="props", restarts=1), dict(n=30, backend="mixed", profile="fork")]}[tier if tier in ("quick", "thorough") else "quick"]
    if ctx.get("replay"):
        profs = [json.load(open(ctx["replay"]))["profile"]]
    calls = logs = 0
    labels = {}
    viol = []
    samples = []
    for pi, prof in enumerate(profs):
        prof = dict(prof)
        if not ctx.get("replay"):
            prof["seed"] = seed * 1000 + pi
        tr = os.path.join(rt.OUT, "traces" if rt.REPO == "/repo" else "traces_alt_%d" % os.getpid(), "%s_%s_%d.ndjson" % (pid, tier, pi))
        os.makedirs(os.path.dirname(tr), exist_ok=True)
        argv = " ".join("%s=%s" % kv for kv in prof.items())
        rc, out = rt.sh("%s rand %s %s" % (rt.BIN, tr, argv), timeout=3600, env={"VERIF_DEV": ",".join(dev)})
        if rc != 0:
            rt.log(out[-2000:]); rt.log("TOOL-ERROR: harness failed"); return 2
        r = rt.tlc_trace("LeakTrace.tla", LEAK_CFG, tr, view="all", timeout=1200)
        for ln in open(tr):
            d = json.loads(ln)
            if "leak" in d:
                calls += 1
                logs += d.get("nlog", 0)
                k = "%s/%s" % (d["op"], d.get("res", ""))
                labels[k] = labels.get(k, 0) + 1
                if d.get("nlog", 0) > 0 and len(samples) < 4:
                    samples.append({"op": d["op"], "c": d.get("c"), "res": d.get("res"), "records_scanned": d["nlog"]})
        m = re.search(r"LEAK-OR-PANIC at line (\d+) : (.*)", r["out"])
        if m:
            line = int(m.group(1))
            exc, rel = rt.history_excerpt(tr, line)
            rp = os.path.join(rt.OUT, "replays", "%s_%s_%d.json" % (pid, tier, prof["seed"]))
            os.makedirs(os.path.dirname(rp), exist_ok=True)
            bad = json.loads(open(tr).read().splitlines()[line - 1])
            json.dump({"property": pid, "profile": prof, "line": line, "leak": bad.get("leak"), "res": bad.get("res"),
                       "call": {k: v for k, v in bad.items() if k not in ("post", "posts")}}, open(rp, "w"))
            viol.append((str(bad.get("leak") or bad.get("res"))[:300], rp))
            break
        if "Model checking completed. No error" not in r["out"]:
            rt.log(r["out"][-2000:]); rt.log("TOOL-ERROR: TLC failed on %s" % tr); return 2
    cov = {"evaluations": calls, "distinct_nontrivial": len([k for k in labels]), "samples": samples or [{"note": "none"}],
           "rule": "every API call of the generated histories is run with a tracing subscriber capturing all records (TRACE and up) and "
                   "with Display+Debug of every returned Err and Debug of every MessageProcessingResult; scanned for MLS group id, nostr group "
                   "ids, exporter secrets of all stored epochs and the db key in hex (lower/upper) and byte-list forms; "
                   "distinct_nontrivial = number of distinct (operation, result class) labels exercised",
           "log_and_error_records_scanned": logs, "labels": labels, "profiles": profs}
    rt.write_evidence(pid, tier, seed, "exploration", cov, time.time() - t0, len(viol),
                      ["needle forms: hex lower/upper, Rust byte-list Debug; base64 not scanned",
                       "paths the Marmot spec has no action for are not driven (see labels for what was)"])
    if viol:
        for what, rp in viol:
            rt.log("violation detail:", what)
            rt.log("VIOLATION property=%s replay=%s" % (pid, rp))
        return 1
    rt.log("OK %s tier=%s: %d calls, %d log/error records scanned, %d labels, %.0fs" % (pid, tier, calls, logs, len(labels), time.time() - t0))
    return 0


def junk_profiles():
    q = [dict(n=8, steps=70, backend="mixed", regime="causal", profile="members", observers=1, junk=1, groups=2),
         dict(n=8, steps=60, backend="sql", regime="causal", profile="core", junk=1, retention=2),
         dict(n=8, steps=70, backend="mem", regime="causal", profile="members", junk=1)]
    # refusals provoked by a hostile MEMBER (forged rumors, raw commits, Update / Remove proposals) and late wrappers after leaf reuse
    q += [dict(n=6, steps=70, backend="mixed", regime="causal", profile="members", adv=1, junk=1),
          dict(n=6, backend="mixed", profile="leaf")]
    t = [dict(n=40, steps=80, backend=["mem", "sql", "mixed"][i % 3], regime="causal", profile=["members", "core"][i % 2],
              observers=1, junk=1, adv=i % 2, retention=[5, 2, 1][i % 3]) for i in range(8)]
    t += [dict(n=40, backend="mixed", profile="leaf"), dict(n=40, backend="mixed", profile="props")]
    return {"quick": q, "thorough": t}


def nt_refused(h):
    return any(d["op"] == "Junk" and d["res"] == "Ok" for d in h) and \
        any(d["op"] == "Deliver" and d["res"] in ("Err", "Unprocessable", "PreviouslyFailed", "IgnoredProposal") for d in h)


def plan_C06(ctx, rt):
    if ctx.get("replay"):
        rpj = json.load(open(ctx["replay"]))
        if rpj.get("kind") == "tables":          # a replay file of the parser half
            import plans_tables
            known = plans_tables._known(rt)
            return plans_tables._replay_tables(ctx, rt, rt.build_crate("htables"), plans_tables._dev(rt, known), rpj, "InvC15", known)
    rc = run_marmot(ctx, rt, invariants=[], properties=["ActC06"], view="C06", mc=MC_CORE, profiles=junk_profiles(),
                    nontrivial=nt_refused,
                    assumptions=ASSUME_MARMOT + ["bytes are not enumerated by TLC: the spec enumerates hostile-input CLASSES (bad kind, missing/"
                                                  "duplicate/short/non-hex h tag, stale/future timestamp, unknown group, undecryptable content, NIP-44-"
                                                  "wrapped junk under the right exporter secret, truncated and bit-flipped copies of real MLS payloads); "
                                                  "the harness instantiates each class with seeded random mutations",
                                                  "OpenMLS is built without debug assertions (its debug_assert on AEAD failure panics in debug builds)",
                                                  "key-package / welcome / extension / imeta inputs: every shape of the Tables.tla decision tables (hostile tag "
                                                  "classes incl. multi-byte characters at byte-indexed cut points) is executed on the real parsers; uniffi "
                                                  "string inputs are not covered"],
                    rule="membership histories with hostile events of 12 classes and a hostile member's events injected at random points and handed "
                         "to random clients (any state: idle, pending commit, queued proposals, evicted, non-member); every call runs under "
                         "catch_unwind; non-trivial = a hostile event was published and some call was refused; plus every enumerated parser shape")
    if rc != 0 or ctx.get("replay"):
        return rc
    # parser half (no state to leave unchanged: the claim is no panic and the table's refuse / accept answer)
    import plans_tables
    rc2, stats = plans_tables.parser_part_for_C06(ctx, rt)
    evp = os.path.join(rt.EVID, "C06.json")
    if os.path.exists(evp):
        ev = json.load(open(evp))
        ev["coverage"]["parser_tables"] = stats
        ev["violations"] = ev.get("violations", 0) + (1 if rc2 == 1 else 0)
        json.dump(ev, open(evp, "w"), indent=1)
    return rc2

def adversary_profiles():
    q = [dict(n=8, steps=80, backend="mixed", regime="causal", profile="members", adv=1, groups=2),
         dict(n=8, steps=80, backend="sql", regime="causal", profile="members", adv=1, retention=2),
         dict(n=8, steps=70, backend="mem", regime="causal", profile="core", adv=1)]
    t = [dict(n=40, steps=90, backend=["mem", "sql", "mixed"][i % 3], regime="causal", profile=["members", "core"][i % 2],
              adv=1, observers=1, retention=[5, 2, 1][i % 3]) for i in range(8)]
    return {"quick": q, "thorough": t}


def nt_forge(h):
    return any(d["op"] == "Forge" and d["res"] == "Ok" for d in h)


def nt_raw(h):
    return any(d["op"] == "Raw" and d["res"] == "Ok" for d in h)


ASSUME_ADV = ["the adversary is a real group member whose client bypasses mdk's sender-side checks: rumors with arbitrary pubkey / pre-set id "
              "through create_message; commits and proposals built directly with OpenMLS (group-data change, removal, self-promotion to "
              "admin, Remove proposal) wrapped like mdk does; identity-changing updates, PSK and external senders are not generated yet"]


def plan_C04(ctx, rt):
    pr = adversary_profiles()
    # late wrappers of a removed member whose leaf has been taken over by a newcomer (authentication against the sender's epoch)
    pr["quick"] = pr["quick"] + [dict(n=10, backend="mixed", profile="leaf"), dict(n=6, backend="mixed", profile="devices")]
    pr["thorough"] = pr["thorough"] + [dict(n=60, backend=["mixed", "mem", "sql"][i], profile="leaf", maxpast=[5, 2, 5][i]) for i in range(3)]
    return run_marmot(ctx, rt, invariants=["InvC04"], properties=["ActC04", "ActC02"], view="C04", mc=MC_CORE,
                      profiles=pr, nontrivial=nt_forge, assumptions=ASSUME_MARMOT + ASSUME_ADV,
                      rule="membership histories with a malicious member: rumors claiming another member's pubkey, rumors with a random pre-set id, "
                           "rumors pre-setting the id of an existing message of somebody else, duplicated deliveries (replayed ciphertexts); "
                           "non-trivial = at least one forged rumor was published")


def plan_C05(ctx, rt):
    pr = adversary_profiles()
    # queued proposals of other members swept up by admins' auto-commits and by a non-admin's self_update()
    pr["quick"] = pr["quick"] + [dict(n=10, backend="mixed", profile="props"), dict(n=6, backend="mixed", profile="devices")]
    pr["thorough"] = pr["thorough"] + [dict(n=60, backend=["mixed", "mem", "sql"][i], profile="props", restarts=i % 2) for i in range(3)]
    return run_marmot(ctx, rt, invariants=["InvC05"], view="C05", mc=MC_CORE,
                      profiles=pr, nontrivial=lambda h: nt_raw(h) or any(d["op"] == "Leave" and d["res"] == "Ok" for d in h), assumptions=ASSUME_MARMOT + ASSUME_ADV,
                      rule="membership histories with a malicious member building commits directly with the MLS library (non-admin group-data "
                           "change, non-admin removal, self-promotion to admin) and Remove proposals, interleaved with honest admin operations; "
                           "non-trivial = at least one raw commit/proposal was published")


PLANS = {"C04": plan_C04, "C05": plan_C05, "C06": plan_C06, "C14": plan_C14, "C16": plan_C16, "C03": plan_C03, "C18": plan_C18, "C11": plan_C11, "C01": plan_C01, "C02": plan_C02, "C07": plan_C07, "C08": plan_C08, "C20": plan_C20}
