#!/usr/bin/env python3
"""Regenerates /verif/MANIFEST.json from the table below (keeps it schema-valid)."""
import json, os, subprocess
ROOT = os.path.dirname(os.path.dirname(os.path.abspath(__file__)))
props = [json.loads(l)["id"] for l in open(os.path.join(ROOT, "properties.jsonl"))]

TRUST = ("OpenMLS, NIP-44 and SQLCipher are trusted and abstracted (DESIGN.md Appendix A); TLC explores the design within the "
         "constants of the MC cfg; the code is bound to the spec by trace validation of seeded real executions (sampled, not exhaustive)")

CHECKS = {
 "C01": ("model_checking", "TLC checks Quiescent => Converged-on-MIP03-winner (excused form for listed findings) exhaustively on MCMarmot (3 clients, 2 competing commits, all ts/id orders, both own-commit modes), and every real history (memory, SQLite, mixed; retention 1-5) is validated step by step against Marmot.tla on the C01 view with the invariant evaluated at quiescence.", "6 C01", "TLA+ spec (Marmot.tla) + TLC exhaustive + TLC trace validation of real executions"),
 "C02": ("model_checking", "InvC02 (every winning-branch message stored once, intact, Processed; losing-branch messages not valid) at quiescence and ActC02 (stored payload immutable) as TLC action property on every real trace bound on the msgs view; design checked exhaustively on MCMarmot.", "6 C02", "TLA+ spec + TLC exhaustive + TLC trace validation (msgs view)"),
 "C07": ("model_checking", "ActC07: a Deliver step of an event the spec calls Handled leaves the observable state unchanged, evaluated by TLC on every step of every real trace (drivers re-offer all events repeatedly), observable state bound to the real clients.", "6 C07", "TLA+ action property checked by TLC on recorded traces"),
 "C08": ("model_checking", "InvC08 (record = fold of the MLS chain: epoch, name, description, admins, nostr id, relays) evaluated by TLC after every call of every real trace with both the record and the MLS projection bound, plus exhaustive check of the design.", "6 C08", "TLA+ invariant + TLC trace validation (rec/mdata view)"),
 "C03": ("model_checking", "InvC03 (a stored message's holder was a member of the epoch it was sent in) on every state and ActC03 (a client without an operational group neither obtains an application message nor sends) on every step of real membership histories in which observers (never-members, pending, evicted, late joiners) are fed every event and welcome; key knowledge (stored exporter secrets, MLS past-epoch window, rollback restoring older maps) is explicit spec state.", "6 C03", "TLA+ invariant + action property checked by TLC on recorded traces; symbolic cryptography"),
 "C04": ("model_checking", "InvC04 (a stored message received from somebody else is attributed to the MLS-authenticated sender of its wrapper and its id is the hash of the stored fields, bound through verify_id) on every state, ActC04 (an event authenticated as x's never changes a stored message of another author) and ActC02 (stored payload immutable) on every step of real histories with a malicious member forging rumors (foreign pubkey, random pre-set id, id of an existing message) and replayed deliveries.", "6 C04", "TLA+ invariant + action properties checked by TLC on recorded traces of adversarial histories"),
 "C05": ("model_checking", "InvC05: every commit on any client's chain that somebody else authored is authorised in the state it applies to (admin, or pure self-update by a member) and no commit carries out a roster change merely proposed by someone else (leave requests excepted; listed finding excused); chain, members, admins and group data are bound to the real clients, so an unauthorised commit accepted by the code is a rejected step. Adversarial commits/proposals are built with raw OpenMLS.", "6 C05", "TLA+ invariant + TLC trace validation of adversarial histories (raw OpenMLS commits)"),
 "C06": ("model_checking", "ActC06: on every step of every real trace, a process_message call whose result class is a refusal (Err, Unprocessable, PreviouslyFailed, IgnoredProposal) leaves the bound observable state (epoch/chain, members, group data, pending commit and proposals, stored messages, record) unchanged, and no call panics; hostile events are spec events of kind junk (12 classes, incl. tampered copies of real commits/messages that follow the real event's framing up to the AEAD check), instantiated by seeded mutation. Listed findings excused narrowly.", "6 C06", "TLA+ action property checked by TLC on recorded traces with spec-level hostile event classes"),
 "C12": ("fault_enumeration", "Hook H2 numbers every storage operation of an API call on SQLite (with read/write flag and transaction-internal ticks); for every index k the process is killed there (panic, connection abandoned), the file reopened, the interrupted call and all later events re-run and the outcome compared with the uninterrupted run. Crash.tla assigns the verdict from the surviving write prefix (intended: always recovered; as built: the listed NoTransactionAroundCall shapes) and TLC validates every experiment against it; storage-level snapshot / rollback / relay replacement must be all-or-nothing. MCCrash checks the crash model's own invariants exhaustively.", "6 C12", "crash-point enumeration via hook H2 with verdicts from a TLA+ crash model (TLC trace validation)"),
 "C14": ("exploration", "Every call of the spec-generated histories (all action/result branches of Marmot.tla incl. rollbacks, evictions, welcomes, restarts) runs with a capturing tracing subscriber and with Display/Debug of every returned error and processing result; a scan for group ids, exporter secrets and the db key (hex and byte-list forms) is attached to each trace line and the trace invariant leak = {} is evaluated by TLC. TLA+ contributes the histories and the coverage labels, not a model of logging — hence exploration.", "6 C14", "scan attached to TLA+-generated histories (trace invariant leak = {})"),
 "C16": ("model_checking", "ProcessWelcome/Accept/Decline are spec actions (dedup by wrapper id, stored welcome by rumor id); InvC16 (Active only by creation or accepted welcome), ActC16Join (joiner lands on the inviter's post-commit chain with the rotation obligation), ActC16 (no welcome call changes a group the user is active in; listed finding excused) are evaluated by TLC on every step of real directed-random invitation scenarios, full group projection bound.", "6 C16", "TLA+ invariant + action properties checked by TLC on recorded traces"),
 "C18": ("model_checking", "InvC18 (cached last-message pointer = head of the default order among non-invalidated messages) evaluated by TLC after every call of every real trace with the pointer and the message table bound; storage-level ordering/pagination is checked by the Storage engine.", "6 C18", "TLA+ invariant + TLC trace validation (last/msgs view)"),
 "C11": ("model_checking", "Restart is a spec action that forgets only the in-memory snapshot queue (re-hydrated lazily from storage); every real history with random restarts on SQLite is validated on the FULL view (groups, messages, pending commit/proposals, welcomes via group state, dedup records, snapshots, results) so any other effect of a restart is a rejected step; convergence/message invariants are evaluated at quiescence. The one known effect (timestamps lost at hydration) is a listed finding.", "6 C11", "TLA+ spec with Restart action + TLC trace validation of real restart histories"),
 "C20": ("model_checking", "InvC20 (stored snapshots <= retention, storage and in-memory queue agree, kept ones are the most recent commits) after every call of every real trace with list_group_snapshots bound; retention in {1,2,3,5}; design checked exhaustively.", "6 C20", "TLA+ invariant + TLC trace validation (snaps view)"),
}

def main():
    hooks = subprocess.run("git -C /repo log --format=%h --grep='verif hook' ", shell=True, capture_output=True, text=True).stdout.split()
    m = {"version": 1, "setup_cmd": "./setup.sh",
         "hooks": {"guard": "mdk_verif",
                   "enable": "harness/.cargo/config.toml sets rustflags --cfg mdk_verif for the path-dependency build of /repo's crates",
                   "baseline_off_cmd": "cd /repo && cargo test --workspace --no-fail-fast --offline",
                   "source_commits": hooks, "add_only": True},
         "engines": [{"name": "crash", "path": "spec/Crash.tla", "serves_properties": ["C12"],
                      "kind_free_text": "crash-point enumeration (hook H2) + TLA+ crash model validated per experiment"},
                     {"name": "marmot", "path": "spec/Marmot.tla", "serves_properties": sorted(CHECKS.keys()),
                      "kind_free_text": "TLA+ spec of clients x events x MIP-03 race/rollback; TLC exhaustive (MCMarmot) + trace validation (MarmotTrace) of real MDK clients driven by harness/"}],
         "checks": [], "notes": "see DESIGN.md; known findings in known_findings.json", "not_applicable": []}
    for pid in props:
        if pid in CHECKS:
            lvl, text, ref, tech = CHECKS[pid]
            m["checks"].append({"property_id": pid, "quick_cmd": "./check %s --tier quick" % pid,
                                "thorough_cmd": "./check %s --tier thorough" % pid,
                                "evidence_file": "/verif/evidence/%s.json" % pid,
                                "replay_cmd_template": "./check %s --replay {path}" % pid,
                                "engine": "crash" if pid == "C12" else "marmot",
                                "level_claimed": {"category": lvl, "text": text, "design_ref": "DESIGN.md section " + ref},
                                "level_note": TRUST, "technique": tech})
        else:
            m["not_applicable"].append({"property_id": pid, "reason": "check not built yet (work in progress, not a judgement that the technique cannot apply)"})
    json.dump(m, open(os.path.join(ROOT, "MANIFEST.json"), "w"), indent=1)

main()
