"""Plans for the Open / encryption-at-rest / thread-safety engine: C13 and C19.

Specs: spec/Open.tla (+MCOpen, OpenTrace), spec/MemLocks.tla, spec/LinTrace.tla.  Rust: hopen/ (executes and records only).
Every verdict comes from TLC: exhaustive runs of the models, and trace validation of what the real code did.
"""
import json, os, time, hashlib, re, shutil

ENGINE = "open"

# used until the entry is in /verif/known_findings.json (the committed list wins; see final report of the builder)
BUILTIN_KNOWN = [
    {"property": "C13", "tag": "PrecreateNotAtomic", "dev": "PrecreateNotAtomic",
     "text": "precreate_secure_database_file creates the database file with the process umask (OpenOptions::create_new without a mode, "
             "typically 0644) and restricts it to 0600 in a second system call; in between the file is group/world accessible, so it is "
             "not 'created accessible to its owner only' (a descriptor opened in that window keeps read access to everything written later; "
             "matters when the parent directory pre-exists with lax permissions - a directory the code creates is 0700, itself via mkdir+chmod). "
             "Seen on the real code by a watcher thread that stat()s the path while MdkSqliteStorage::new / new_with_key / new_unencrypted run "
             "on a missing path (history: Begin new(p1); Sight p1 mode=0644; keyring get...; End Ok mode=0600)."},
    {"property": "C19", "tag": "MemSnapshotTwoSections", "dev": "MemSnapshotTwoSections",
     "text": "memory backend: create_group_snapshot and rollback_group_to_snapshot are two critical sections each (capture under inner.read(), "
             "publish under group_snapshots.write(); remove under group_snapshots.write(), restore under inner.write()), so other threads' calls take "
             "effect in between and the call is not one atomic step. Seen on real threads (history: T1 rollback_group_to_snapshot(g1,s2) running; "
             "T2 list_group_snapshots(g1) = {} (s2 already consumed); T3/T2 save_group(g1,v20), save_group(g1,v9), find_group = v9, save_group(g1,v10) "
             "all return; then find_group(g1) = v15, the snapshot's value, and only then T1 returns) and exhaustively in MemLocks.tla (T2 create_group_snapshot "
             "captures v0; T1 save_group(v1) returns; T1 list = {}; T2 publishes v0). SQLite does both under one connection lock + transaction."},
]

OPEN_CFG = """SPECIFICATION TraceSpec
CONSTANTS
  Threads <- TraceThreads
  Paths <- TracePaths
  Keys <- TraceKeys
  Dev <- TraceDev
INVARIANT InvC13
INVARIANT InvScan
POSTCONDITION TraceAccepted
CHECK_DEADLOCK FALSE
"""

LIN_CFG = """SPECIFICATION TraceSpec
POSTCONDITION TraceAccepted
CHECK_DEADLOCK FALSE
"""


def all_known(rt):
    ks = list(rt.known())
    extra = os.path.join(rt.OUT, "known_extra_%s.json" % ENGINE)
    if os.path.exists(extra):
        try:
            ks += json.load(open(extra)).get("known", [])
        except Exception:
            pass
    # (BUILTIN_KNOWN is the text of the two findings this engine produced; both have been repaired in /repo and are
    #  recorded as "fixed" in known_findings.json, so they are no longer excused)
    return ks


def split_histories(trace):
    """[(first_line_no (1-based), [records])] split at Reset lines"""
    hs, cur = [], None
    for i, ln in enumerate(open(trace), 1):
        d = json.loads(ln)
        if d["op"] == "Meta":
            continue
        if d["op"] == "Reset" or cur is None:
            cur = []
            hs.append((i, cur))
        cur.append(d)
    return hs


def write_replay(rt, pid, tag, module, cfg, trace, line, r, extra=None):
    """copy the failing history (Meta + Reset..next Reset) next to a JSON description; returns the JSON path"""
    rdir = os.path.join(rt.OUT, "replays")
    os.makedirs(rdir, exist_ok=True)
    exc, rel = rt.history_excerpt(trace, line)
    base = os.path.join(rdir, "%s_%s" % (pid, tag))
    open(base + ".ndjson", "w").write("\n".join(exc) + "\n" + ('{"op":"End"}\n' if module == "LinTrace.tla" else ""))
    m = re.search(r'REJECTED-RECORD (.*)', r.get("out", ""))
    desc = {"property": pid, "module": module, "cfg": cfg, "trace_file": trace, "line_in_trace": line,
            "excerpt": base + ".ndjson", "line_in_excerpt": rel, "violated": r.get("violated", []),
            "rejected_record": m.group(1)[:2000] if m else "",
            "how": "TRACE=%s.ndjson tlc -workers 1 -config <cfg above> %s   (or ./check %s --replay %s.json)" % (base, module, pid, base),
            "history": [json.loads(x) for x in exc[1:]][:400]}
    if extra:
        desc.update(extra)
    json.dump(desc, open(base + ".json", "w"), indent=1)
    return base + ".json"


def validate(rt, module, cfg, trace, timeout):
    r = rt.tlc_trace(module, cfg, trace, view="all", timeout=timeout)
    m = re.search(r"(\d+) states generated, (\d+) distinct states found", r["out"])
    r["generated"] = int(m.group(1)) if m else 0
    # an invariant violated on the line just consumed: the offending line is the one before the cursor
    if r["violated"] and not r["rejected_line"]:
        r["rejected_line"] = r["states"] + 1
    r["bad_line"] = (r["rejected_line"] - 1) if (r["violated"] and r["rejected_line"] > 2) else r["rejected_line"]
    return r


def hopen(rt, binp, sub, out, args, dev, timeout=1200):
    cmd = "%s %s %s %s 2>/dev/null" % (binp, sub, out, " ".join("%s=%s" % kv for kv in args.items()))
    t = time.time()
    rc, o = rt.sh("timeout %d %s" % (timeout, cmd), timeout=timeout + 30, env={"VERIF_DEV": ",".join(dev)})
    return rc, o, time.time() - t


def cfg_with_dev(rt, cfg, dev):
    """as-built configs carry the deviation flags currently listed as known; *_intended.cfg stay at Dev = {}"""
    if "intended" in cfg:
        return cfg
    text = open(os.path.join(rt.SPEC, cfg)).read()
    m = re.search(r'Dev = \{([^}]*)\}', text)
    if not m:
        return cfg
    listed = [x.strip().strip('"') for x in m.group(1).split(",") if x.strip()]
    keep = [x for x in listed if x in dev]
    text = text[:m.start()] + "Dev = {%s}" % ",".join('"%s"' % x for x in keep) + text[m.end():]
    out = os.path.join(rt.OUT, "mcgen_%d_%s" % (os.getpid(), cfg))
    open(out, "w").write(text)
    return out


def mc_part(rt, pid, runs, viol, mc_runs, dev=()):
    """exhaustive TLC runs; returns (states, transitions, known_tags_seen) or None on tool error"""
    states = trans = 0
    tags = set()
    for (module, cfg, to, expect_clean) in runs:
        r = rt.tlc_mc(module, cfg_with_dev(rt, cfg, dev), workers=8, timeout=to)
        mc_runs.append({"module": module, "cfg": cfg, "states": r["states"], "transitions": r["transitions"], "completed": r["completed"]})
        states += r["states"]
        trans += r["transitions"]
        for (p, tag) in set(re.findall(r'<<"KNOWN-FINDING", "(\w+)", "(\w+)"', r["out"])):
            tags.add((p, tag))
        bad = r["violated"] or ("Deadlock reached" in r["out"])
        if bad:
            rp = os.path.join(rt.OUT, "replays", "%s_mc_%s.txt" % (pid, os.path.basename(cfg)))
            os.makedirs(os.path.dirname(rp), exist_ok=True)
            open(rp, "w").write(r["out"][-30000:])
            viol.append(("model checking %s/%s: %s" % (module, cfg, ",".join(r["violated"]) or "deadlock"), rp))
        elif not r["completed"]:
            rt.log("TOOL-ERROR: TLC did not complete on %s %s (rc=%s)" % (module, cfg, r["rc"]))
            rt.log(r["out"][-1500:])
            return None
    return states, trans, tags


def finish(rt, ctx, pid, level, cov, viol, known_seen, assumptions):
    known = {(k["property"], k["tag"]): k for k in all_known(rt)}
    for (p, tag) in sorted(known_seen):
        if (p, tag) not in known:
            viol.append(("excuse %s/%s used but not listed in known_findings.json" % (p, tag), "known_findings.json"))
    wall = time.time() - ctx["t0"]
    rt.write_evidence(pid, ctx["tier"], ctx["seed"], level, cov, wall, len(viol), assumptions)
    for (p, tag) in sorted(known_seen):
        if (p, tag) in known and p == pid:
            rt.log("KNOWN-FINDING: property=%s %s" % (p, known[(p, tag)]["text"]))
    if viol:
        for what, rp in viol:
            rt.log("violation detail:", what)
            rt.log("VIOLATION property=%s replay=%s" % (pid, rp))
        return 1
    return 0


def do_replay(rt, ctx, pid):
    try:
        d = json.load(open(ctx["replay"]))
    except ValueError:
        d = {}   # a TLC counterexample of the model itself (text)
    if "excerpt" not in d:
        rt.log(open(ctx["replay"]).read()[-3000:])
        rt.log("VIOLATION property=%s replay=%s" % (pid, ctx["replay"]))
        return 1
    r = validate(rt, d["module"], d["cfg"], d["excerpt"], 900)
    if r["toolerr"]:
        rt.log(r["out"][-2000:])
        return 2
    if r["accepted"]:
        rt.log("replay: the recorded history is accepted by the current spec")
        return 0
    rt.log("replay: rejected at line %s of %s; violated=%s" % (r["bad_line"], d["excerpt"], r["violated"]))
    m = re.search(r'REJECTED-RECORD (.*)', r["out"])
    if m:
        rt.log("record:", m.group(1)[:800])
    rt.log("VIOLATION property=%s replay=%s" % (pid, ctx["replay"]))
    return 1


# ----------------------------------------------------------------------------------------------------------------
# C13

ASSUME_C13 = [
    "SQLCipher's page format and cipher are trusted; the model says a keyed open of a file written under another key fails (calibrated by every matrix cell)",
    "SQLite's file locking makes `validation read` and `first write` atomic per connection (model steps o1/o2); a contended open may fail with an error (class Other), never succeed with a wrong key",
    "the keyring is the host-provided keyring-core store; an instrumented in-process store stands in for the platform keystore (every Get/Set/Delete is an observed step)",
    "file-system and lock steps of the constructors are not observable from outside; TLC infers them between observed events (trace accepted iff some interleaving explains it)",
    "plaintext-at-rest scan: an observation attached to a scripted history (exploration level) — canaries in raw/hex/HEX/base64/UTF-16 forms, files polled continuously by a watcher thread; TLA+ says nothing about SQLCipher's page format",
    "TLC exhaustive part bounded by the constants of MC_open_*.cfg (2-3 threads, 2-3 paths, one key id)",
]


def c13_history_key(h):
    init = [x for x in h if x["op"] == "Reset"]
    begins = sorted((x["t"], x["ctor"], x["p"], x["key"]) for x in h if x["op"] == "Begin")
    return hashlib.sha1(json.dumps([init[0]["files"] if init else [], init[0]["kr"] if init else "", begins], sort_keys=True).encode()).hexdigest()


def c13_nontrivial(h):
    init = [x for x in h if x["op"] == "Reset"]
    if not init or not any(x["op"] == "Begin" for x in h):
        return False
    existing = any(f["st"] != "missing" for f in init[0]["files"])
    threads = {x["t"] for x in h if x["op"] == "Begin"}
    return existing or init[0]["kr"] != "" or len(threads) >= 2 or any(x["op"] == "Set" for x in h)


def c13_sample(h):
    out = []
    for x in h:
        o = x["op"]
        if o == "Reset":
            out.append("init " + " ".join("%s=%s/%s/%s" % (f["p"], f["st"], f["key"] or "-", f["mode"]) for f in x["files"]) + " keyring=%s" % (x["kr"] or "-"))
        elif o == "Begin":
            out.append("%s: %s(%s%s)" % (x["t"], x["ctor"], x["p"], "," + x["key"] if x["key"] else ""))
        elif o in ("Get", "Set", "Delete"):
            out.append("%s: keyring.%s -> %s" % (x["t"], o.lower(), x.get("k", "") or "none"))
        elif o == "Sight":
            out.append("watcher: stat(%s) -> mode %s" % (x["p"], x["mode"]))
        elif o == "End":
            out.append("%s: returns %s (mode %s)" % (x["t"], x["res"], x["mode"]))
        elif o == "Probe":
            out.append("probe " + " ".join("%s=%s/%s/%s" % (f["p"], f["st"], f["key"] or "-", f["mode"]) for f in x["files"]))
    return out[:40]


def plan_C13(ctx, rt):
    pid, tier, seed = "C13", ctx["tier"], ctx["seed"]
    if ctx.get("replay"):
        return do_replay(rt, ctx, pid)
    binp = rt.build_crate("hopen")
    viol, mc_runs = [], []
    known_seen = set()
    dev = sorted({k["dev"] for k in all_known(rt) if k.get("dev") and k["property"] == "C13"})
    runs = [("MCOpen.tla", "MC_open_quick.cfg", 600, True), ("MCOpen.tla", "MC_open_poison.cfg", 600, True),
            ("MCOpen.tla", "MC_open_intended.cfg", 600, True)]
    if tier == "thorough":
        runs.append(("MCOpen.tla", "MC_open_thorough.cfg", 1500, True))
    mc = mc_part(rt, pid, runs, viol, mc_runs, dev)
    if mc is None:
        return 2
    states, trans, tags = mc
    known_seen |= tags
    tdir = os.path.join(rt.OUT, "traces")
    os.makedirs(tdir, exist_ok=True)
    parts = [("matrix", {"seed": seed}, 600),
             ("race", {"seed": seed, "n": 15 if tier == "quick" else 40, "maxthreads": 6}, 1500),

             ("poison", {"seed": seed}, 300),
             ("scan", {"seed": seed, "n": 1 if tier == "quick" else 4}, 600)]
    if tier == "thorough":
        # 7 and 8 racing threads: the search over unobserved steps is costly, thorough tier only
        parts.append(("race", {"seed": seed + 50, "n": 8, "minthreads": 7, "maxthreads": 8}, 1700))
        for k in range(1, 4):
            parts.append(("race", {"seed": seed * 100 + k, "n": 40, "maxthreads": 6}, 1500))
            parts.append(("poison", {"seed": seed * 100 + k}, 300))
    nh = 0
    events = 0
    distinct, nontriv = set(), set()
    samples = []
    cells = 0
    scan_steps = scan_patterns = 0
    scan_files = set()
    control_kinds = set()
    for pi, (sub, args, to) in enumerate(parts):
        tr = os.path.join(tdir, "%s_%s_%s_%d.ndjson" % (pid, tier, sub, pi))
        rc, o, dt = hopen(rt, binp, sub, tr, args, dev)
        if rc != 0 or not os.path.exists(tr):
            rt.log(o[-2000:])
            rt.log("TOOL-ERROR: hopen %s failed (rc=%s)" % (sub, rc))
            return 2
        r = validate(rt, "OpenTrace.tla", OPEN_CFG, tr, to)
        if r["toolerr"]:
            rt.log(r["out"][-3000:])
            rt.log("TOOL-ERROR: TLC trace validation failed to run on %s" % tr)
            return 2
        events += r["states"]
        known_seen |= {x for x in set(re.findall(r'<<"KNOWN-FINDING", "(\w+)", "(\w+)"', r["out"])) if x[0] == pid}
        hs = split_histories(tr)
        if sub == "matrix":
            cells = json.loads(open(tr).readline()).get("cells", 0)
        for (_, h) in hs:
            if sub == "scan":
                for x in h:
                    if x["op"] == "Scan":
                        scan_steps += 1
                        scan_patterns = max(scan_patterns, x["patterns"])
                        for f in x["files"]:
                            scan_files.add(f["name"])
                    if x["op"] == "ScanEnd":
                        scan_files |= set(x["files_seen"])
                        if x["mode"] == "unenc":
                            control_kinds |= set(x["found_kinds"])
                nh += 1
                continue
            nh += 1
            k = c13_history_key(h)
            distinct.add(k)
            if c13_nontrivial(h):
                nontriv.add(k)
                if len(samples) < 4 and (sub != "matrix" or len(samples) < 2) and len({x["t"] for x in h if x["op"] == "Begin"}) >= (1 if sub == "matrix" else 2):
                    samples.append({"part": sub, "history": c13_sample(h)})
        if not r["accepted"]:
            line = r["bad_line"] or 2
            rp = write_replay(rt, pid, "%s_%s_%d" % (tier, sub, seed), "OpenTrace.tla", OPEN_CFG, tr, line, r, {"part": sub, "args": args})
            what = ("invariant " + ",".join(r["violated"])) if r["violated"] else "step not allowed by Open.tla"
            m = re.search(r'REJECTED-RECORD (.*)', r["out"])
            viol.append(("%s [%s] at line %d of %s: %s" % (what, sub, line, os.path.basename(tr), (m.group(1)[:300] if m else "")), rp))
            break
    if not samples:
        samples = [{"note": "no non-trivial history in this run"}]
    cov = {"states": max(states, 1), "transitions": max(trans, 1),
           "traces_validated_against_impl": nh if not viol else max(nh - 1, 0),
           "samples": samples, "evaluations": nh, "distinct_nontrivial": len(nontriv),
           "rule": "one history per cell of constructor{new,new_with_key(right),new_with_key(other),new_unencrypted} x file{missing(dir absent/present),empty,plain,encrypted} "
                   "x mode{0600,0644} x keyring{none,right,other}, each: call, write, close, probe, same call again, probe; plus shared-key-id two-path histories; "
                   "plus seeded races of 2..6 (quick) / 2..8 (thorough) real threads (same/different paths, mixed constructors, store latencies); plus a keystore-crash history; "
                   "distinct = hash of (initial state, set of calls); non-trivial = touches an existing file or keyring entry, generates a key, or has >= 2 threads",
           "trace_events_checked": events, "mc_runs": mc_runs, "matrix_cells": cells,
           "scan": {"level": "exploration", "steps_scanned": scan_steps, "patterns": scan_patterns, "files_seen": sorted(scan_files),
                    "positive_control_kinds_found_on_unencrypted_db": sorted(control_kinds)},
           "invariants": ["KeyCreatedOnce", "OpensUseKeyringKey", "WrongKeyNeverOpens", "ExistingFileNeverGeneratesKey", "PermsOwnerOnly",
                          "MatrixAgrees", "FileMonotone", "PermsNeverLoose (excused: PrecreateNotAtomic)", "InvScan (leaks = {} on every scanned step)", "deadlock freedom"],
           "exhaustive": False}
    rc = finish(rt, ctx, pid, "model_checking", cov, viol, known_seen, ASSUME_C13)
    if rc == 0:
        rt.log("OK %s tier=%s: MC %d states; %d matrix cells + races/fault/scan = %d real histories (%d distinct non-trivial), %d trace steps validated, %d scan steps, %.0fs"
               % (pid, tier, states, cells, nh, len(nontriv), events, scan_steps, time.time() - ctx["t0"]))
    return rc


# ----------------------------------------------------------------------------------------------------------------
# C19

ASSUME_C19 = [
    "real thread schedules are sampled (seeded op mixes, yields, barriers); only the models (MemLocks.tla, Open.tla) are explored exhaustively",
    "order stamps: one global atomic counter read just before each call and just after it returned; the linearisation point is searched between them",
    "sequential contract of LinTrace.tla (last writer wins per key, unique nostr_group_id, replace-relays all-or-nothing, snapshot = one instant) is the condensed storage contract; messages are not part of snapshots",
    "snapshots are only taken of groups that exist; with more than six threads only four of them write (search cost), the others read",
    "parking_lot::RwLock is modelled as writer-fair (a queued writer blocks new readers); std::sync::Mutex / SQLite connection as a plain mutex",
    "LRU caches of the memory backend are never driven to eviction (few keys)",
]

WRITES = {"save_group", "replace_relays", "save_secret", "save_message", "snap_create", "snap_rollback", "snap_release"}


def c19_stats(h):
    """(key, nontrivial, sample)"""
    ops = {}
    order = []
    pos = 0
    for x in h:
        pos += 1
        if x["op"] == "Inv":
            ops[(x["t"], x["i"])] = [x, pos, None]
            order.append((x["t"], x["i"]))
        elif x["op"] == "Res":
            ops[(x["t"], x["i"])][2] = pos
    per = {}
    for (t, i) in order:
        x = ops[(t, i)][0]
        per.setdefault(t, []).append("%s(%s)" % (x["k"], x["g"]))
    key = hashlib.sha1(json.dumps([h[0].get("backend", ""), per], sort_keys=True).encode()).hexdigest()
    nontriv = False
    items = [v for v in ops.values() if v[2]]
    for a in range(len(items)):
        xa, ia, ra = items[a]
        if xa["k"] not in WRITES:
            continue
        for b in range(len(items)):
            xb, ib, rb = items[b]
            if xb["t"] != xa["t"] and xb["g"] == xa["g"] and ia < rb and ib < ra:
                nontriv = True
                break
        if nontriv:
            break
    samp = []
    for x in h[:60]:
        if x["op"] == "Inv":
            e = x["exp"]
            val = e["res"] if e["res"] != "Ok" else ("v%s" % e["ver"] if e["ver"] else (",".join(e["sset"]) if e["sset"] else (",".join("%s:%s" % (r["a"], r["v"]) for r in e["rset"]) or "ok")))
            samp.append("%s inv %s(%s%s) -> %s" % (x["t"], x["k"], x["g"], (",v%d" % x["ver"]) if x["ver"] else "", val))
        elif x["op"] == "Res":
            samp.append("%s res" % x["t"])
    return key, nontriv, samp


def plan_C19(ctx, rt):
    pid, tier, seed = "C19", ctx["tier"], ctx["seed"]
    if ctx.get("replay"):
        return do_replay(rt, ctx, pid)
    binp = rt.build_crate("hopen")
    viol, mc_runs = [], []
    known_seen = set()
    known = all_known(rt)
    dev = sorted({k["dev"] for k in known if k.get("dev") and k["property"] in ("C19", "C13")})
    runs = [("MemLocks.tla", "MC_memlocks_quick.cfg", 600, True), ("MemLocks.tla", "MC_memlocks_intended.cfg", 600, True),
            ("MCOpen.tla", "MC_open_quick.cfg", 600, True)]
    if tier == "thorough":
        runs += [("MemLocks.tla", "MC_memlocks_thorough.cfg", 900, True), ("MemLocks.tla", "MC_memlocks_thorough2.cfg", 1700, True),
                 ("MemLocks.tla", "MC_memlocks_nid.cfg", 900, True)]
    if "MemSnapshotTwoSections" not in dev:
        # the finding is listed as fixed / removed: the as-built model no longer has the deviation
        runs = [r for r in runs if r[1] not in ("MC_memlocks_quick.cfg", "MC_memlocks_thorough.cfg", "MC_memlocks_thorough2.cfg")]
    mc = mc_part(rt, pid, runs, viol, mc_runs, dev)
    if mc is None:
        return 2
    states, trans, tags = mc
    known_seen |= {x for x in tags if x[0] == pid}
    tdir = os.path.join(rt.OUT, "traces")
    os.makedirs(tdir, exist_ok=True)
    L = ("LinTrace.tla", LIN_CFG)
    if tier == "quick":
        parts = [("lin", {"seed": seed, "n": 18, "backend": "both", "maxthreads": 16, "ops": 60, "profiles": "mix,snap,relays", "stress_ms": 1500}) + L + (900,),
                 # directed: barrier-aligned save_group fights for a fresh nostr id (memory), disjoint replace/list of relays (SQLite)
                 ("lin", {"seed": seed + 7000, "n": 12, "backend": "mem", "maxthreads": 3, "ops": 48, "profiles": "nid", "stress_ms": 0}) + L + (900,),
                 ("lin", {"seed": seed + 8000, "n": 10, "backend": "sql", "maxthreads": 4, "ops": 48, "profiles": "relays", "stress_ms": 0}) + L + (900,),
                 ("lin", {"seed": seed + 9000, "n": 8, "backend": "both", "maxthreads": 4, "ops": 48, "profiles": "nid,relays,snap", "stress_ms": 0}) + L + (900,),
                 ("race", {"seed": seed, "n": 10, "maxthreads": 5}, "OpenTrace.tla", OPEN_CFG, 900)]
    else:
        parts = []
        for k in range(5):
            parts.append(("lin", {"seed": seed * 1000 + k, "n": 60, "backend": "both", "maxthreads": 16, "ops": 60, "profiles": "mix,snap,relays,nid", "stress_ms": 5000}) + L + (2400,))
            parts.append(("lin", {"seed": seed * 1000 + 100 + k, "n": 40, "backend": "mem", "maxthreads": 3, "ops": 48, "profiles": "nid", "stress_ms": 0}) + L + (2400,))
            parts.append(("lin", {"seed": seed * 1000 + 200 + k, "n": 40, "backend": "sql", "maxthreads": 4, "ops": 48, "profiles": "relays", "stress_ms": 0}) + L + (2400,))
            parts.append(("lin", {"seed": seed * 1000 + 300 + k, "n": 40, "backend": "both", "maxthreads": 6, "ops": 48, "profiles": "nid,relays,snap,mix", "stress_ms": 0}) + L + (2400,))
        parts.append(("race", {"seed": seed, "n": 50, "maxthreads": 8}, "OpenTrace.tla", OPEN_CFG, 2400))
    nh = events = 0
    distinct, nontriv = set(), set()
    samples = []
    split_hist = 0
    stress_rounds = 0
    threads_seen = set()
    for pi, (sub, args, module, cfg, to) in enumerate(parts):
        tr = os.path.join(tdir, "%s_%s_%s_%d.ndjson" % (pid, tier, sub, pi))
        rc, o, dt = hopen(rt, binp, sub, tr, args, dev)
        if rc != 0 or not os.path.exists(tr):
            rt.log(o[-2000:])
            rt.log("TOOL-ERROR: hopen %s failed (rc=%s)" % (sub, rc))
            return 2
        r = validate(rt, module, cfg, tr, to)
        if r["toolerr"]:
            rt.log(r["out"][-3000:])
            rt.log("TOOL-ERROR: TLC trace validation failed to run on %s" % tr)
            return 2
        events += r["generated"] if sub == "lin" else r["states"]
        hs = split_histories(tr)
        if sub == "lin":
            plain = {int(x) for x in re.findall(r'<<"LIN-PLAIN", (\d+)>>', r["out"])}
            spl = {int(x) for x in re.findall(r'<<"LIN-SPLIT", (\d+)>>', r["out"])}
            only_split = spl - plain
            if only_split:
                split_hist += len(only_split)
                known_seen.add(("C19", "MemSnapshotTwoSections"))
            for (_, h) in hs:
                if any(x["op"] == "Stress" for x in h):
                    stress_rounds += sum(x["rounds"] for x in h if x["op"] == "Stress")
                    continue
                if not any(x["op"] == "Inv" for x in h):
                    continue
                nh += 1
                k, nt, samp = c19_stats(h)
                threads_seen.add(len({x["t"] for x in h if x["op"] == "Inv"}))
                distinct.add(k)
                if nt:
                    nontriv.add(k)
                    if len(samples) < 3:
                        samples.append({"backend": h[0].get("backend"), "log": samp[:50]})
        else:
            for (_, h) in hs:
                nh += 1
                k = c13_history_key(h)
                distinct.add(k)
                if len({x["t"] for x in h if x["op"] == "Begin"}) >= 2:
                    nontriv.add(k)
        if not r["accepted"]:
            line = r["bad_line"] or 2
            rp = write_replay(rt, pid, "%s_%s_%d_%d" % (tier, sub, seed, pi), module, cfg, tr, line, r, {"part": sub, "args": args})
            m = re.search(r'REJECTED-RECORD (.*)', r["out"])
            rec = m.group(1)[:300] if m else ""
            if '"Hang"' in rec or "Hang" in rec:
                what = "deadlock in the real run (threads did not finish): " + rec
            elif "Panic" in rec:
                what = "panic in the real run: " + rec
            elif sub == "lin":
                what = "history is not linearisable w.r.t. the storage contract (no order of the calls explains the returned values); first unexplainable response at line %d: %s" % (line, rec)
            else:
                what = "first-open race: step not allowed by Open.tla at line %d: %s" % (line, rec)
            viol.append((what, rp))
            break
    if not samples:
        samples = [{"note": "no non-trivial history in this run"}]
    cov = {"states": max(states, 1), "transitions": max(trans, 1),
           "traces_validated_against_impl": nh if not viol else max(nh - 1, 0),
           "samples": samples, "evaluations": nh, "distinct_nontrivial": len(nontriv),
           "rule": "seeded histories of 2..16 real threads on ONE storage instance (memory and SQLite alternate), profiles mix / relays / nid (barrier-aligned "
                   "save_group fights for a fresh nostr id) / snap, <= 60 calls each, values carry version counters in several fields; plus racing first-opens "
                   "validated against Open.tla; plus an unlogged volume stress with watchdog; distinct = hash of backend + per-thread call lists; "
                   "non-trivial = a write overlapped in time with a call of another thread on the same group",
           "linearisation_search_states": events, "mc_runs": mc_runs, "histories_needing_split_snapshot_op": split_hist,
           "stress_rounds": stress_rounds, "thread_counts_seen": sorted(threads_seen),
           "invariants": ["MemLocks: deadlock freedom, Linearisable (excused: MemSnapshotTwoSections), SnapshotsConsistent, Isolation",
                          "LinTrace: every recorded history has a linearisation", "Open: deadlock freedom, KeyCreatedOnce"],
           "exhaustive": False}
    rc = finish(rt, ctx, pid, "model_checking", cov, viol, known_seen, ASSUME_C19)
    if rc == 0:
        rt.log("OK %s tier=%s: MC %d states; %d real histories (%d distinct non-trivial, threads %s), %d search states, %d stress rounds, %.0fs"
               % (pid, tier, states, nh, len(nontriv), sorted(threads_seen), events, stress_rounds, time.time() - ctx["t0"]))
    return rc


PLANS = {"C13": plan_C13, "C19": plan_C19}
