#!/usr/bin/env python3
"""Builds /verif/seeded/<id>/ (patch.diff, demonstration, meta.json) from seeded/_incoming/<id>/ and the sweep results
(out/seed_matrix.json: {seed: {check: "caught"|"missed"|"error"}}).  Also prints the seed x check table for DESIGN.md."""
import json, os, re, shutil, sys
ROOT = os.path.dirname(os.path.dirname(os.path.abspath(__file__)))
INC = os.path.join(ROOT, "seeded", "_incoming")
props = {json.loads(l)["id"]: json.loads(l) for l in open(os.path.join(ROOT, "properties.jsonl"))}
mpath = os.path.join(ROOT, "seeded", "matrix.json")
matrix = json.load(open(mpath)) if os.path.exists(mpath) else {}
spath = os.path.join(ROOT, "seeded", "status.json")
status = json.load(open(spath)) if os.path.exists(spath) else {}


def needs(notes):
    """the paragraph of the author's notes that says what the change needs to manifest"""
    paras = re.split(r"\n\s*\n|\n(?=- )|\n(?=\*\*)", notes)
    hits = [p.strip() for p in paras if re.search(r"need|manifest", p, re.I)]
    return " ".join(hits)[:2500] if hits else notes[:1500]


rows = []
for sid in sorted(os.listdir(INC)):
    src = os.path.join(INC, sid)
    if not os.path.isdir(src):
        continue
    dst = os.path.join(ROOT, "seeded", sid)
    os.makedirs(dst, exist_ok=True)
    for f in ("patch.diff", "demo_test.rs", "demo.diff", "notes.md", "where.txt", "run.txt", "confirm.txt"):
        if os.path.exists(os.path.join(src, f)):
            shutil.copy(os.path.join(src, f), os.path.join(dst, f))
    notes = open(os.path.join(src, "notes.md")).read() if os.path.exists(os.path.join(src, "notes.md")) else ""
    conf = open(os.path.join(src, "confirm.txt")).read() if os.path.exists(os.path.join(src, "confirm.txt")) else ""
    pid = sid.split("_")[0]
    title = notes.strip().split("\n")[0].lstrip("# ").strip()
    res = matrix.get(sid, {})
    meta = {
        "seed": sid,
        "property": pid,
        "property_title": props[pid]["title"],
        "change": title,
        "what_it_needs": needs(notes),
        "demonstration": {"file": "demo.diff (git apply; adds a #[test] to the named source file)" if os.path.exists(os.path.join(src, "demo.diff")) else "demo_test.rs", "place_at": open(os.path.join(src, "where.txt")).read().strip(),
                          "run": open(os.path.join(src, "run.txt")).read().strip(),
                          "expect": "fails with patch.diff applied, passes without"},
        "what_i_ran": {
            "confirmation": conf.strip().split("\n"),
            "how": "in a scratch git worktree of /repo at the recorded repo_head: git apply patch.diff; cargo build --workspace; the repository's "
                   "test suite (cargo test --workspace --no-fail-fast --offline; 834 tests) with the patch; the demonstration with the patch "
                   "(must fail) and without it (must pass). tools_confirm_seed.sh / out/confirm_demo.sh",
            "checks_against_it": "tools_try_seed.sh <seed dir> <check ids>: patch applied in a scratch worktree, harness crates rebuilt against it "
                                 "(VERIF_REPO), ./check <id> --tier quick; exit 1 + VIOLATION = caught",
        },
        "status": status.get(sid, {"status": "valid"}),
        "checks": res,
        "caught_by": sorted(c for c, v in res.items() if v == "caught"),
        "repo_patch_note": "patch.orig.diff (if present in _incoming) is the author's patch against the pinned commit; patch.diff is the same change "
                           "re-ported onto /repo HEAD after hook / fix commits touched its context",
    }
    json.dump(meta, open(os.path.join(dst, "meta.json"), "w"), indent=1)
    rows.append((sid, title, meta["caught_by"], sorted(c for c, v in res.items() if v != "caught")))

if "--table" in sys.argv:
    print("| seed | change | caught by (quick tier) | tried, not caught |")
    print("|---|---|---|---|")
    for sid, title, c, m in rows:
        if status.get(sid, {}).get("status") == "superseded":
            m = m + ["(superseded: neutralised by a later fix, see status.json)"]
        print("| %s | %s | %s | %s |" % (sid, title.split("—")[-1].split(" - ", 1)[-1].strip()[:110], ", ".join(c) or "—", ", ".join(m) or ""))
