"""Plans for the Tables engine: C15 (wire formats) and C17 (media / group-image encryption).

Method (DESIGN.md 3.6, 6 C15/C17):
  (A) TLC enumerates every case of the decision tables of spec/Tables.tla (one state = one shape) and checks the
      spec-level sanity invariants; for C17 TLC also model-checks the media-history machine spec/TablesMedia.tla.
  (B) /verif/htables executes every enumerated case (seeded random concrete values inside each shape) against the
      REAL encoders / parsers / crypto, and drives real MDK clients through media histories.
  (C) TLC validates every logged line against the spec (TablesTrace.tla / TablesMediaTrace.tla): the observation must
      be the table's answer, InvC15 / InvC17 are evaluated by TLC on every observed state.
Rust only executes and projects; the verdict is TLC's.
"""
import json, os, time, hashlib, re, random

C15_TABLES = ["ext", "extenc", "kp", "welcome", "imeta"]
C17_TABLES = ["media", "gimg"]

TRACE_CFG = """SPECIFICATION TraceSpec
CONSTANTS
  Dev <- TraceDev
POSTCONDITION TraceAccepted
CHECK_DEADLOCK FALSE
"""
MEDIA_TRACE_CFG = """SPECIFICATION TraceSpec
CONSTANTS
  Clients <- TraceClients
  Files <- TraceFiles
  Content <- TraceContent
  Lookback <- TraceLookback
  MaxPast <- TraceMaxPast
  Dev <- TraceDev
POSTCONDITION TraceAccepted
CHECK_DEADLOCK FALSE
"""

ASSUME_C15 = [
    "value-level fidelity inside a shape is sampled (seeded random strings / URLs / byte strings per class); structure and strictness (the shapes) are enumerated exhaustively by TLC",
    "OpenMLS key-package / welcome validation and tls_codec are trusted; a random 'garbage' payload of the right length is assumed not to be a valid signed key package / welcome",
    "tls_codec is built without debug assertions (release behaviour: a 0b11 length prefix is an error, not a debug_assert panic)",
    "names / descriptions that pass through a storage backend stay within the backends' length limits (256 / 4096 bytes on memory storage)",
]
ASSUME_C17 = [
    "ChaCha20-Poly1305, HKDF, SHA-256, NIP-44 and MLS exporter secrets are trusted: bit-level tamper evidence is sampled per tamper class (AEAD's theorem), not proved",
    "keys are symbolic in TablesMedia.tla (a key is the tuple it is derived from; a client holds it iff it stores that epoch's exporter secret)",
    "histories stay in the epoch-causal regime (an event is only handed to a client that has reached the epoch it was created in); at most one losing sibling commit per epoch; no files are announced on a losing branch",
    "wrapper timestamps of competing commits are fixed by hook H1 (cfg mdk_verif)",
]


def _known(rt):
    """listed findings: known_findings.json plus (while the engine is being integrated) out/known_extra_tables.json"""
    k = {(x["property"], x["tag"]): x for x in rt.known()}
    extra = os.path.join(rt.OUT, "known_extra_tables.json")
    if os.path.exists(extra):
        for x in json.load(open(extra)).get("known", []):
            k.setdefault((x["property"], x["tag"]), x)
    return k


def _dev(rt, known):
    return sorted(set(rt.dev_flags()) | {x["dev"] for x in known.values() if x.get("dev")})


def _mc(rt, module, cfg_name, cfg_body, timeout, env=None, workers=8):
    """write a cfg next to the specs, run TLC exhaustively, remove the cfg"""
    p = os.path.join(rt.SPEC, cfg_name)
    open(p, "w").write(cfg_body)
    old = {}
    for k, v in (env or {}).items():
        old[k] = os.environ.get(k)
        os.environ[k] = v
    try:
        r = rt.tlc_mc(module, cfg_name, workers=workers, timeout=timeout)
    finally:
        for k, v in old.items():
            if v is None:
                os.environ.pop(k, None)
            else:
                os.environ[k] = v
        try:
            os.remove(p)
        except OSError:
            pass
    return r


def _dev_set(dev):
    return "{" + ",".join('"%s"' % d for d in dev) + "}"


def _enumerate_cases(ctx, rt, dev):
    """(A) TLC enumerates every case; returns (result, path of the NDJSON dump)"""
    out = os.path.join(rt.OUT, "tables_cases_%s_%d.ndjson" % (ctx["tier"], os.getpid()))
    body = ("SPECIFICATION MCSpec\nCONSTANTS\n  Dev = %s\n  Tier = \"%s\"\nINVARIANT Sane\nINVARIANT Typed\n"
            "POSTCONDITION Dump\nCHECK_DEADLOCK FALSE\n" % (_dev_set(dev), ctx["tier"]))
    r = _mc(rt, "MCTables.tla", "mc_tables_%d.cfg" % os.getpid(), body, 900, env={"CASES_OUT": out})
    return r, out


def _write_replay(rt, pid, name, obj):
    rp = os.path.join(rt.OUT, "replays", "%s_%s.json" % (pid, name))
    os.makedirs(os.path.dirname(rp), exist_ok=True)
    json.dump(obj, open(rp, "w"), indent=1)
    return rp


def _nontrivial_case(d):
    """a case is non-trivial when it is a refusal / tamper case or carries a boundary class"""
    s = d["s"]
    boring = {"ok", "none", "exact", "absent", "ascii", "one", "self", "443", "444", "imeta", "v2", "canon", "small",
              "0", "1", "text", "doc", "some", "direct", "v2raw", "png", True, False, 1, 2}
    return any(v not in boring for v in s.values())


def _run_tables(ctx, rt, binp, cases, tables, dev, inst, tag, invariant, extra_args=()):
    """(B)+(C) for the decision tables. Returns dict(viol=[(what, replay)], known=set, lines, samples, distinct, nontriv)"""
    pid, tier, seed = ctx["pid"], ctx["tier"], ctx["seed"]
    tr = os.path.join(rt.OUT, "traces" if rt.REPO == "/repo" else "traces_alt_%d" % os.getpid(), "%s_%s_%s.ndjson" % (pid, tier, tag))
    os.makedirs(os.path.dirname(tr), exist_ok=True)
    cmd = [binp, "tables", cases, tr, "seed=%d" % seed, "inst=%d" % inst, "tables=" + ",".join(tables), "tier=" + tier] + list(extra_args)
    rc, out = rt.sh(cmd, timeout=3000, env={"VERIF_DEV": ",".join(dev)})
    if rc != 0:
        rt.log(out[-3000:])
        rt.log("TOOL-ERROR: htables failed (rc=%s)" % rc)
        return None
    cfg_text = TRACE_CFG + "INVARIANT %s\n" % invariant
    r = rt.tlc_trace("TablesTrace.tla", cfg_text, tr, view="all", timeout=2400)
    res = {"viol": [], "known": set((p, t) for (p, t) in r["known"]), "trace": tr, "events": max(r["states"] - 1, 0)}
    lines = [json.loads(x) for x in open(tr)]
    recs = lines[1:]
    res["lines"] = len(recs)
    keys = set()
    nontriv = set()
    for d in recs:
        k = d["t"] + "|" + json.dumps(d["s"], sort_keys=True)
        keys.add(k)
        if _nontrivial_case(d):
            nontriv.add(k)
    res["distinct"] = len(keys)
    res["nontriv"] = len(nontriv)
    rnd = random.Random(seed)
    pick = rnd.sample(recs, min(6, len(recs))) if recs else []
    res["samples"] = [{"table": d["t"], "shape": d["s"], "observed": d["o"], "instance": d.get("d", "")} for d in pick]
    if r["toolerr"]:
        rt.log(r["out"][-3000:])
        rt.log("TOOL-ERROR: TLC trace validation failed to run on %s" % tr)
        return None
    if not r["accepted"]:
        mm = re.search(r'MISMATCH <<\\"line\\", (\d+)', r["out"])
        line = int(mm.group(1)) if mm else (r["rejected_line"] or r["states"])
        line = min(max(line, 2), len(lines))
        bad = lines[line - 1]
        what = ",".join(r["violated"]) if r["violated"] else "step-not-allowed-by-spec"
        name = "%s_%s_%d" % (tier, tag, seed)
        rp = _write_replay(rt, pid, name, {"property": pid, "kind": "tables", "seed": seed, "tier": tier, "tables": tables,
                                             "line": line, "case": {"t": bad.get("t"), "s": bad.get("s")}, "instance": bad.get("i", 0),
                                             "observed": bad.get("o"), "detail": bad.get("d"), "violated": r["violated"],
                                             "mismatch": r["mismatch"], "trace_file": tr})
        res["viol"].append((what + " " + (r["mismatch"][:400] if r["mismatch"] else "(see replay)"), rp))
    return res


def _finish(ctx, rt, pid, level, cov, viol, known_seen, known, assumptions):
    wall = time.time() - ctx["t0"]
    for (p, tag) in sorted(known_seen):
        if (p, tag) not in known:
            viol.append(("excuse %s/%s used but not listed in known_findings.json" % (p, tag), "known_findings.json"))
    if not cov.get("samples"):
        cov["samples"] = [{"note": "no case executed in this run"}]
    rt.write_evidence(pid, ctx["tier"], ctx["seed"], level, cov, wall, len(viol), assumptions)
    for (p, tag) in sorted(known_seen):
        if (p, tag) in known and p == pid:
            rt.log("KNOWN-FINDING: property=%s %s" % (p, known[(p, tag)]["text"]))
    if viol:
        for what, rp in viol:
            rt.log("violation detail:", what)
            rt.log("VIOLATION property=%s replay=%s" % (pid, rp))
        return 1
    return 0


def _selftest_tables(rt, trace, invariant):
    """anti-vacuity: a corrupted observation and a dropped line must both be rejected by TLC"""
    out = {}
    L = open(trace).read().splitlines()
    if len(L) < 10:
        return out
    pat, rep = ('"res":"accept"', '"res":"refuse"') if invariant == "InvC15" else ('"dec":"equal"', '"dec":"error"')
    idx = [i for i in range(1, len(L)) if pat in L[i]]
    if idx:
        i = idx[len(idx) // 2]
        M = list(L)
        M[i] = M[i].replace(pat, rep)
        p = trace + ".corrupt"
        open(p, "w").write("\n".join(M) + "\n")
        r = rt.tlc_trace("TablesTrace.tla", TRACE_CFG + "INVARIANT %s\n" % invariant, p, view="all", timeout=1200)
        out["corrupted_observation_rejected"] = (not r["accepted"]) and not r["toolerr"]
        os.remove(p)
    # drop the only execution of one case
    seen = {}
    for i in range(1, len(L)):
        d = json.loads(L[i])
        seen.setdefault(d["t"] + json.dumps(d["s"], sort_keys=True), []).append(i)
    k = sorted(seen)[len(seen) // 3]
    M = [x for j, x in enumerate(L) if j not in seen[k]]
    p = trace + ".dropped"
    open(p, "w").write("\n".join(M) + "\n")
    r = rt.tlc_trace("TablesTrace.tla", TRACE_CFG + "INVARIANT %s\n" % invariant, p, view="all", timeout=1200)
    out["dropped_case_rejected"] = (not r["accepted"]) and not r["toolerr"]
    os.remove(p)
    return out


def _replay_tables(ctx, rt, binp, dev, rp, invariant, known):
    """re-execute the single case named by a replay file"""
    pid = ctx["pid"]
    cf = os.path.join(rt.OUT, "replay_case_%d.ndjson" % os.getpid())
    open(cf, "w").write(json.dumps(rp["case"]) + "\n")
    ctx2 = dict(ctx)
    ctx2["seed"] = rp["seed"]
    ctx2["tier"] = rp.get("tier", ctx["tier"])
    inst = rp.get("instance", 0) + 1
    res = _run_tables(ctx2, rt, binp, cf, [rp["case"]["t"]], dev, inst, "replay", invariant,
                      extra_args=["partial=1", "only_inst=%d" % rp.get("instance", 0)])
    os.remove(cf)
    if res is None:
        return 2
    cov = {"states": 1, "transitions": 1, "traces_validated_against_impl": res["lines"], "samples": res["samples"],
           "evaluations": res["lines"], "distinct_nontrivial": res["nontriv"], "rule": "replay of one recorded case", "exhaustive": False}
    return _finish(ctx, rt, pid, "model_checking", cov, res["viol"], res["known"], known, [])


# --------------------------------------------------------------------------------------------------- C15

def plan_C15(ctx, rt):
    pid, tier, seed = ctx["pid"], ctx["tier"], ctx["seed"]
    known = _known(rt)
    dev = _dev(rt, known)
    binp = rt.build_crate("htables")
    if ctx.get("replay"):
        return _replay_tables(ctx, rt, binp, dev, json.load(open(ctx["replay"])), "InvC15", known)
    viol = []
    mc, cases = _enumerate_cases(ctx, rt, dev)
    if mc["violated"]:
        rp = _write_replay(rt, pid, "mc_tables", {"property": pid, "kind": "mc", "output": mc["out"][-20000:]})
        viol.append(("mc:" + ",".join(mc["violated"]), rp))
    elif not mc["completed"]:
        rt.log(mc["out"][-2000:])
        rt.log("TOOL-ERROR: TLC did not complete on MCTables (rc=%s)" % mc["rc"])
        return 2
    ncases = sum(1 for l in open(cases) if json.loads(l)["t"] in C15_TABLES)
    inst = 2 if tier == "quick" else 12
    res = _run_tables(ctx, rt, binp, cases, C15_TABLES, dev, inst, "tables", "InvC15")
    if res is None:
        return 2
    viol += res["viol"]
    selftest = {}
    if tier == "thorough" and not viol:
        selftest = _selftest_tables(rt, res["trace"], "InvC15")
        if selftest and not all(selftest.values()):
            viol.append(("anti-vacuity self-test failed: %s" % selftest, res["trace"]))
    try:
        os.remove(cases)
    except OSError:
        pass
    # diagnostic, never a verdict: does the extension parser refuse at the check the transcription names?
    diag = None
    if tier == "thorough" and not viol:
        rd = rt.tlc_trace("TablesTrace.tla", TRACE_CFG + "INVARIANT DiagExtErrClass\n", res["trace"], view="all", timeout=2400)
        diag = bool(rd["accepted"])
        if not diag:
            rt.log("NOTE: error-class diagnostic disagrees with Tables!ExtDecodeStep (not a verdict): %s" % rd["mismatch"][:300])
    cov = {"states": max(mc["states"], 1), "transitions": max(mc["transitions"], 1),
           "traces_validated_against_impl": res["lines"] if not viol else max(res["lines"] - 1, 0),
           "samples": res["samples"], "evaluations": res["lines"], "distinct_nontrivial": res["nontriv"],
           "rule": "TLC enumerates every shape of the tables ext / extenc / kp / welcome / imeta (product of the acceptable classes + every "
                   "single-field mutation of the valid bases; thorough adds all two-field mutations of key-package, welcome and imeta shapes); "
                   "each shape is executed %d time(s) on the real code with seeded random concrete values; distinct = distinct (table, shape); "
                   "non-trivial = shape with at least one refusal / boundary class (not the plain base)" % inst,
           "enumerated_cases_C15": ncases, "distinct_cases_executed": res["distinct"], "trace_lines_checked": res["events"],
           "mc_runs": [{"cfg": "MCTables(Tier=%s, Dev=%s)" % (tier, dev), "states": mc["states"], "transitions": mc["transitions"], "completed": mc["completed"]}],
           "invariants": ["MCTables!Sane", "MCTables!Typed", "TablesTrace!InvC15", "TablesTrace!TraceAccepted (every enumerated case executed)"],
           "exhaustive": False, "selftest": selftest, "dev": dev, "ext_error_class_agrees_with_transcription": diag}
    rc = _finish(ctx, rt, pid, "model_checking", cov, viol, res["known"], known, ASSUME_C15)
    if rc == 0:
        rt.log("OK %s tier=%s: %d shapes enumerated by TLC (%d for C15), %d executions on the real code validated, %.0fs"
               % (pid, tier, mc["states"], ncases, res["lines"], time.time() - ctx["t0"]))
    return rc


def parser_part_for_C06(ctx, rt):
    """C06's parser half: every enumerated key-package / welcome / extension / imeta shape (hostile classes included) is executed
    on the real parsers; a panic, or an answer other than the table's refuse / accept, is a violation reported under C06.
    Returns (rc, stats)."""
    pid, tier = "C06", ctx["tier"]
    known = _known(rt)
    dev = _dev(rt, known)
    binp = rt.build_crate("htables")
    c2 = dict(ctx); c2["pid"] = "C06"
    mc, cases = _enumerate_cases(c2, rt, dev)
    if mc["violated"] or not mc["completed"]:
        rt.log(mc["out"][-1500:]); rt.log("TOOL-ERROR: TLC did not complete on MCTables"); return 2, {}
    res = _run_tables(c2, rt, binp, cases, C15_TABLES, dev, 1 if tier == "quick" else 6, "parsers", "InvC15")
    try:
        os.remove(cases)
    except OSError:
        pass
    if res is None:
        return 2, {}
    stats = {"shapes": mc["states"], "executions": res["lines"], "distinct": res["distinct"], "nontrivial": res["nontriv"]}
    if res["viol"]:
        for what, rp in res["viol"]:
            rt.log("violation detail:", what)
            rt.log("VIOLATION property=C06 replay=%s" % rp)
        return 1, stats
    return 0, stats


# --------------------------------------------------------------------------------------------------- C17

def _media_mc_cfg(dev, same, maxepoch, lookback, invs, files=2):
    fs = ",".join('"f%d"' % i for i in range(1, files + 1))
    return ("SPECIFICATION MCSpec\nCONSTANTS\n  Dev = %s\n  Clients = {\"a\",\"b\",\"c\",\"o\"}\n  Files = {%s}\n  MCFiles = {%s}\n"
            "  Content <- MCContent\n  Lookback = %d\n  MaxPast = %d\n  MaxEpoch = %d\n  Creator = \"a\"\n  Founders = {\"b\"}\n"
            "  SameContent = %s\nVIEW MCView\n%sCHECK_DEADLOCK FALSE\n"
            % (_dev_set(dev), fs, fs, lookback, lookback, maxepoch, "TRUE" if same else "FALSE",
               "".join("INVARIANT %s\n" % i for i in invs)))


def _hist_stats(trace):
    """measured description of what the histories contained"""
    st = {"histories": 0, "steps": 0, "decrypts": 0, "member_ok": 0, "nonmember_refused": 0, "tampered_refused": 0,
          "rollbacks": 0, "late_echo": 0, "delays": {}, "announce_after_commits": 0}
    ep = {}
    fe = {}
    lost = {}
    scheds = set()
    nontriv = set()
    cur = []
    flags = set()

    def close():
        if cur:
            k = hashlib.sha1("|".join(cur).encode()).hexdigest()
            scheds.add(k)
            if {"rollback", "later"} <= flags:
                nontriv.add(k)

    for ln in open(trace):
        d = json.loads(ln)
        op = d["op"]
        if op == "Meta":
            continue
        if op == "Reset":
            close()
            cur, flags = [], set()
            st["histories"] += 1
            ep, fe, lost = {}, {}, {}
            continue
        st["steps"] += 1
        cur.append("%s(%s,%s,%s)=%s" % (op, d.get("c", d.get("a", "")), d.get("k", d.get("f", "")), d.get("tamper", d.get("kind", "")), d.get("res", "")))
        posts = d.get("posts") or ([{"c": d["c"], "post": d["post"]}] if "post" in d else [])
        for p in posts:
            was_lost = lost.get(p["c"], False)
            if op == "DeliverK" and was_lost and not p["post"].get("lost") and d.get("res") == "Commit":
                st["rollbacks"] += 1
                flags.add("rollback")
            ep[p["c"]] = p["post"].get("ep", -1)
            lost[p["c"]] = p["post"].get("lost", False)
        if op == "Announce":
            fe[d["f"]] = (d["epoch"], d["c"])
        if op == "DeliverA" and d["f"] in fe:
            e, s = fe[d["f"]]
            if d["c"] == s and ep.get(s, e) > e and d.get("res") == "App":
                st["late_echo"] += 1
            if d["c"] != s and d.get("res") == "App" and ep.get(d["c"], e) > e:
                st["announce_after_commits"] += 1
        if op == "Decrypt":
            st["decrypts"] += 1
            e = fe.get(d["f"], (0, ""))[0]
            delay = max(d["post"].get("ep", e) - e, 0) if d["post"].get("ingroup") else -1
            if d["tamper"] != "none":
                st["tampered_refused"] += (not d["ok"])
            elif d["member"]:
                if d["ok"]:
                    st["member_ok"] += 1
                    st["delays"][str(delay)] = st["delays"].get(str(delay), 0) + 1
                    if delay >= 1:
                        flags.add("later")
            else:
                st["nonmember_refused"] += (not d["ok"])
    close()
    st["distinct_histories"] = len(scheds)
    st["nontrivial_histories"] = len(nontriv)
    return st


def _run_hist(ctx, rt, binp, dev, prof, pi):
    pid, tier, seed = ctx["pid"], ctx["tier"], ctx["seed"]
    tr = os.path.join(rt.OUT, "traces" if rt.REPO == "/repo" else "traces_alt_%d" % os.getpid(), "%s_%s_hist%d.ndjson" % (pid, tier, pi))
    os.makedirs(os.path.dirname(tr), exist_ok=True)
    prof = dict(prof)
    prof.setdefault("seed", seed * 1000 + pi)
    cmd = [binp, "hist", tr] + ["%s=%s" % kv for kv in prof.items()]
    rc, out = rt.sh(cmd, timeout=3000, env={"VERIF_DEV": ",".join(dev)})
    if rc != 0:
        rt.log(out[-3000:])
        rt.log("TOOL-ERROR: htables hist failed (rc=%s) on %s" % (rc, prof))
        return None
    cfg_text = MEDIA_TRACE_CFG + "INVARIANT InvC17\nINVARIANT ObsC17\n"
    r = rt.tlc_trace("TablesMediaTrace.tla", cfg_text, tr, view="all", timeout=2400)
    res = {"viol": [], "known": set((p, t) for (p, t) in r["known"]), "trace": tr, "events": max(r["states"] - 1, 0), "prof": prof}
    if r["toolerr"]:
        rt.log(r["out"][-3000:])
        rt.log("TOOL-ERROR: TLC trace validation failed to run on %s" % tr)
        return None
    res["stats"] = _hist_stats(tr)
    if not r["accepted"]:
        line = r["rejected_line"] if r["rejected_line"] else r["states"] + 1
        exc, rel = rt.history_excerpt(tr, line)
        what = ",".join(r["violated"]) if r["violated"] else "step-not-allowed-by-spec"
        rp = _write_replay(rt, pid, "%s_hist_%d" % (tier, prof["seed"]),
                           {"property": pid, "kind": "hist", "profile": prof, "trace_file": tr, "line": line, "violated": r["violated"],
                            "mismatch": r["mismatch"], "history": [json.loads(x) for x in exc[1:]][:400]})
        res["viol"].append((what + " " + (r["mismatch"][:400] if r["mismatch"] else ""), rp))
    return res


def _sample_history(trace, maxlen=70):
    out = []
    n = 0
    for ln in open(trace):
        d = json.loads(ln)
        if d["op"] == "Meta":
            continue
        if d["op"] == "Reset":
            n += 1
            if n > 1:
                break
            continue
        if d["op"] == "Decrypt":
            out.append("Decrypt(%s,%s,%s,hint=%s)=%s" % (d["c"], d["f"], d["tamper"], d["hint"], d["res"]))
        elif d["op"] == "Commit":
            out.append("Commit(%s,%s%s%s)->K%d" % (d["c"], d["kind"], "," + d["x"] if d["x"] else "", ",loser by " + d["c2"] if d["c2"] else "", d["k"]))
        elif d["op"] in ("DeliverK", "DeliverL"):
            out.append("%s(%s,%d)=%s" % (d["op"], d["c"], d["k"], d["res"]))
        elif d["op"] == "Announce":
            out.append("Announce(%s,%s)@%d" % (d["c"], d["f"], d["epoch"]))
        elif d["op"] == "DeliverA":
            out.append("DeliverA(%s,%s)=%s" % (d["c"], d["f"], d["res"]))
        elif d["op"] == "Create":
            out.append("Create(%s;%s)" % (d["a"], ",".join(d["members"])))
    return out[:maxlen]


def _selftest_hist(rt, trace):
    out = {}
    L = open(trace).read().splitlines()
    cfg_text = MEDIA_TRACE_CFG + "INVARIANT InvC17\nINVARIANT ObsC17\n"
    # (a) a successful decryption by a member reported as a failure
    idx = [i for i in range(1, len(L)) if '"op":"Decrypt"' in L[i] and '"ok":true' in L[i]]
    if idx:
        i = idx[len(idx) // 2]
        M = list(L)
        M[i] = M[i].replace('"ok":true', '"ok":false').replace('"res":"equal"', '"res":"error"')
        p = trace + ".corrupt"
        open(p, "w").write("\n".join(M) + "\n")
        r = rt.tlc_trace("TablesMediaTrace.tla", cfg_text, p, view="all", timeout=1200)
        out["corrupted_decrypt_rejected"] = (not r["accepted"]) and not r["toolerr"]
        os.remove(p)
    # (b) a commit delivery that advanced a client dropped from the log
    idx = []
    ep = {}
    for i in range(1, len(L)):
        d = json.loads(L[i])
        if d["op"] == "Reset":
            ep = {}
        for q in (d.get("posts") or ([{"c": d["c"], "post": d["post"]}] if "post" in d else [])):
            if d["op"] == "DeliverK" and d.get("res") == "Commit" and ep.get(q["c"]) == d["k"] - 1 and q["post"].get("ep") == d["k"]:
                idx.append(i)   # this delivery really moved the client one epoch forward
            ep[q["c"]] = q["post"].get("ep")
    if idx:
        i = idx[len(idx) // 3]
        M = [x for j, x in enumerate(L) if j != i]
        p = trace + ".dropped"
        open(p, "w").write("\n".join(M) + "\n")
        r = rt.tlc_trace("TablesMediaTrace.tla", cfg_text, p, view="all", timeout=1200)
        out["dropped_step_rejected"] = (not r["accepted"]) and not r["toolerr"]
        os.remove(p)
    # (c) the stored epoch of an announcing message changed (what a re-filing bug would look like)
    idx = [i for i in range(1, len(L)) if '"op":"DeliverA"' in L[i] and '"res":"App"' in L[i] and '"ann":[{' in L[i]]
    if idx:
        i = idx[len(idx) // 2]
        M = list(L)
        M[i] = re.sub(r'"ann":\[\{"epoch":(\d+)', lambda m: '"ann":[{"epoch":%d' % (int(m.group(1)) + 1), M[i], count=1)
        p = trace + ".refiled"
        open(p, "w").write("\n".join(M) + "\n")
        r = rt.tlc_trace("TablesMediaTrace.tla", cfg_text, p, view="all", timeout=1200)
        out["refiled_announcement_rejected"] = (not r["accepted"]) and not r["toolerr"]
        os.remove(p)
    return out


def plan_C17(ctx, rt):
    pid, tier, seed = ctx["pid"], ctx["tier"], ctx["seed"]
    known = _known(rt)
    dev = _dev(rt, known)
    binp = rt.build_crate("htables")
    if ctx.get("replay"):
        rp = json.load(open(ctx["replay"]))
        if rp.get("kind") == "tables":
            return _replay_tables(ctx, rt, binp, dev, rp, "InvC17", known)
        if rp.get("kind") == "hist":
            res = _run_hist(ctx, rt, binp, dev, rp["profile"], 99)
            if res is None:
                return 2
            cov = {"states": 1, "transitions": 1, "traces_validated_against_impl": res["stats"]["histories"], "samples": [_sample_history(res["trace"])],
                   "evaluations": res["stats"]["histories"], "distinct_nontrivial": res["stats"]["nontrivial_histories"], "rule": "replay of one recorded profile", "exhaustive": False}
            return _finish(ctx, rt, pid, "model_checking", cov, res["viol"], res["known"], known, [])
        rt.log("replay file of kind %s cannot be replayed" % rp.get("kind"))
        return 2
    viol = []
    known_seen = set()
    mc_runs = []
    states = transitions = 0
    # (A1) every shape of the media / group-image tables
    mc, cases = _enumerate_cases(ctx, rt, dev)
    mc_runs.append({"cfg": "MCTables(Tier=%s)" % tier, "states": mc["states"], "transitions": mc["transitions"], "completed": mc["completed"]})
    if mc["violated"]:
        viol.append(("mc:" + ",".join(mc["violated"]), _write_replay(rt, pid, "mc_tables", {"property": pid, "kind": "mc", "output": mc["out"][-20000:]})))
    elif not mc["completed"]:
        rt.log(mc["out"][-2000:])
        rt.log("TOOL-ERROR: TLC did not complete on MCTables")
        return 2
    states += mc["states"]
    transitions += mc["transitions"]
    # (A2) the history machine: as built (excused form), intended (plain form), and a witness that the finding is reachable
    mdev = [d for d in dev if d == "HintByHashOnly"]
    full = ["InvC17", "LastOK"]
    plain = ["InvC17", "MembersDecryptPlain", "LastOK"]
    runs = [("asbuilt-samecontent-e3-w1", _media_mc_cfg(mdev, True, 3, 1, full), False),
            ("intended-samecontent-e3-w1", _media_mc_cfg([], True, 3, 1, plain), False)]
    if tier != "quick":
        runs += [("asbuilt-distinctcontent-e3-w1", _media_mc_cfg(mdev, False, 3, 1, plain), False),
                 ("asbuilt-samecontent-e3-w2", _media_mc_cfg(mdev, True, 3, 2, full), False),
                 ("asbuilt-onefile-e4-w2", _media_mc_cfg(mdev, True, 4, 2, plain, files=1), False),
                 ("intended-onefile-e4-w1", _media_mc_cfg([], True, 4, 1, plain, files=1), False)]
    if mdev:
        runs.append(("witness-HintByHashOnly", _media_mc_cfg(mdev, True, 3, 1, ["MembersDecryptPlain"]), True))
    for name, body, expect_violation in runs:
        r = _mc(rt, "MCTablesMedia.tla", "mc_tm_%d.cfg" % os.getpid(), body, 1500)
        mc_runs.append({"cfg": "MCTablesMedia:" + name, "states": r["states"], "transitions": r["transitions"], "completed": r["completed"],
                        "violated": r["violated"]})
        states += r["states"]
        transitions += r["transitions"]
        if expect_violation:
            if not r["violated"]:
                viol.append(("the listed finding HintByHashOnly is no longer reachable in the as-built model (witness config passed)", "known_findings.json"))
            continue
        if r["violated"]:
            rp = _write_replay(rt, pid, "mc_" + name, {"property": pid, "kind": "mc", "cfg": body, "output": r["out"][-20000:]})
            viol.append(("mc:%s:%s" % (name, ",".join(r["violated"])), rp))
        elif not r["completed"]:
            rt.log(r["out"][-2000:])
            rt.log("TOOL-ERROR: TLC did not complete on MCTablesMedia %s (rc=%s)" % (name, r["rc"]))
            return 2
    # (B)+(C) tables on the real crypto
    inst = 1 if tier == "quick" else 6
    res = _run_tables(ctx, rt, binp, cases, C17_TABLES, dev, inst, "tables", "InvC17")
    try:
        os.remove(cases)
    except OSError:
        pass
    if res is None:
        return 2
    viol += res["viol"]
    known_seen |= res["known"]
    # (B)+(C) histories on real clients
    if tier == "quick":
        profiles = [dict(n=4, steps=60, backend="mem"), dict(n=4, steps=60, backend="sql"), dict(n=4, steps=60, backend="mixed")]
    else:
        profiles = [dict(n=30, steps=120, backend=b) for b in ("mem", "sql", "mixed", "sql", "mem", "mixed")]
    hstats = []
    hist_samples = []
    nh = 0
    hevents = 0
    last_trace = None
    if not viol:
        for pi, prof in enumerate(profiles):
            h = _run_hist(ctx, rt, binp, dev, prof, pi)
            if h is None:
                return 2
            viol += h["viol"]
            known_seen |= h["known"]
            hstats.append({"profile": h["prof"], **h["stats"]})
            nh += h["stats"]["histories"]
            hevents += h["events"]
            last_trace = h["trace"]
            if len(hist_samples) < 2:
                hist_samples.append({"profile": h["prof"], "history": _sample_history(h["trace"])})
            if viol:
                break
    selftest = {}
    if tier == "thorough" and not viol and last_trace:
        selftest = _selftest_hist(rt, last_trace)
        selftest.update(_selftest_tables(rt, res["trace"], "InvC17"))
        if selftest and not all(selftest.values()):
            viol.append(("anti-vacuity self-test failed: %s" % selftest, last_trace))
    tot = {k: sum(s.get(k, 0) for s in hstats) for k in ("decrypts", "member_ok", "nonmember_refused", "tampered_refused", "rollbacks", "late_echo",
                                                            "announce_after_commits", "distinct_histories", "nontrivial_histories", "steps")}
    delays = {}
    for s in hstats:
        for k, v in s["delays"].items():
            delays[k] = delays.get(k, 0) + v
    cov = {"states": max(states, 1), "transitions": max(transitions, 1),
           "traces_validated_against_impl": nh + res["lines"],
           "samples": res["samples"][:3] + hist_samples,
           "evaluations": res["lines"] + nh,
           "distinct_nontrivial": res["nontriv"] + tot["nontrivial_histories"],
           "rule": "tables: TLC enumerates every (MIME family x size x spelling x name x who x tamper) and group-image (format x picture x hash check x via group data x tamper) "
                   "shape, each executed %d time(s) on the real crypto with seeded random payloads; non-trivial table case = not the plain base. histories: seeded directed + random "
                   "schedules on real clients (memory / SQLite), each step validated against TablesMedia.tla; distinct = hash of the step sequence; non-trivial history = contains a "
                   "MIP-03 rollback and a successful decryption at least one epoch after encryption" % inst,
           "table_cases_executed": res["lines"], "histories": nh, "history_steps_validated": hevents,
           "history_totals": tot, "successful_member_decryptions_by_epoch_delay": delays, "history_profiles": hstats,
           "mc_runs": mc_runs, "invariants": ["MCTables!Sane", "MCTablesMedia!InvC17 (MembersDecrypt, OthersDoNot, TamperFails, KeysDistinct, SecretsOnlyOfOwnEpochs)",
                                             "TablesTrace!InvC17", "TablesMediaTrace!InvC17", "TablesMediaTrace!ObsC17"],
           "exhaustive": False, "selftest": selftest, "dev": dev}
    rc = _finish(ctx, rt, pid, "model_checking", cov, viol, known_seen, known, ASSUME_C17)
    if rc == 0:
        rt.log("OK %s tier=%s: MC %d states; %d table cases + %d histories (%d steps, %d rollbacks, delays %s) validated, %.0fs"
               % (pid, tier, states, res["lines"], nh, hevents, tot["rollbacks"], sorted(delays.items()), time.time() - ctx["t0"]))
    return rc


PLANS = {"C15": plan_C15, "C17": plan_C17}
