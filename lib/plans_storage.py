"""Storage engine plans: C09 (rollback frame), C10 (memory == SQLite == reference model), C18S (listing / pagination,
storage half of C18).  Verdicts come from TLC only: (A) exhaustive model checking of spec/Storage.tla on bounded
instances (MCStorage.tla + MC_storage_*.cfg), (B) real executions of BOTH backends by /verif/hstorage, (C) TLC trace
validation of every recorded line against spec/StorageTrace.tla with the property invariants evaluated on every
observed state / step.  Python only orchestrates, counts and writes evidence."""
import hashlib
import json
import os

# deviation flags Storage.tla knows about; a flag is switched on for a backend's traces only if it is listed in
# known_findings.json (or, while developing, in out/known_extra_storage.json)
MEM_FLAGS = ["MemRollbackStealsNostrId", "MemOffsetOverflows"]
SQL_FLAGS = ["SqlRetakeFails", "SqlSnapshotNeedsGroupRow", "SqlPruneCountsRows", "SqlRestoreReordersLeaves",
             "SqlOffsetWraps", "SqlLikeIgnoresCase"]

TRACE_CFG = """SPECIFICATION TraceSpec
CONSTANTS
  Groups <- TraceGroups
  Names <- TraceNames
  Dev <- TraceDev
  Cap <- TraceCap
  MaxLimit <- TraceMaxLimit
  DefLimit <- TraceDefLimit
  KnownFinding <- TraceKnown
POSTCONDITION TraceAccepted
CHECK_DEADLOCK FALSE
"""

ALL_FIELDS = ["groups", "relays", "secrets", "msgs", "proc", "snaps", "mls", "welcomes", "glob"]
VIEWS = {
    "all": ALL_FIELDS,
    # C18 (storage half) talks about message listings and the record that carries the pointer
    "C18": ["groups", "msgs", "snaps"],
}

ASSUME = [
    "values are drawn from small pools (2-4 group ids, 3 nostr ids, 4 message ids, 2-3 timestamps per key, 2 snapshot names); "
    "the store is treated as parametric in the values (data independence), sizes stay inside both backends' documented limits",
    "snapshot created_at is the wall-clock second: it is read back through list_group_snapshots and bound, never predicted",
    "one thread; error wording is abstracted to the class ok / err / panic",
    "TLC exhaustive part is bounded by the pools in the MC cfg files; real op sequences are directed + seeded random samples",
    "the harness is built with overflow checks (dev profile): the unchecked offset+limit addition of the memory backend panics",
]


def _known(rt):
    k = list(rt.known())
    extra = os.path.join(rt.OUT, "known_extra_storage.json")
    if os.path.exists(extra):
        k += json.load(open(extra)).get("known", [])
    return k


def _dev(rt, backend):
    flags = {f.get("dev") for f in _known(rt)}
    pool = MEM_FLAGS if backend == "mem" else SQL_FLAGS
    return [f for f in pool if f in flags]


def _patch_meta(trace, dev):
    L = open(trace).read().split("\n", 1)
    m = json.loads(L[0])
    m["dev"] = dev
    m["views"] = VIEWS
    open(trace, "w").write(json.dumps(m) + "\n" + (L[1] if len(L) > 1 else ""))


def _histories(trace):
    hs, cur = [], None
    for ln in open(trace):
        d = json.loads(ln)
        if d["op"] == "Meta":
            continue
        if d["op"] == "Reset":
            cur = []
            hs.append(cur)
            continue
        if cur is None:
            cur = []
            hs.append(cur)
        cur.append(d)
    return hs


def _short(d):
    op = d["op"]
    a = ",".join(str(d[k]) for k in ("g", "n", "id", "w", "e", "lim", "off", "sort", "mode", "t", "r", "tbl", "k", "sub") if k in d)
    if op == "SaveGroup":
        a += ",%s,ep%s" % (d["rec"]["nid"], d["rec"]["epoch"])
    if op == "SaveMessage":
        a += ",ca%s,pa%s,ep%s,%s" % (d["rec"]["ca"], d["rec"]["pa"], d["rec"]["ep"], d["rec"]["st"])
    r = d.get("res", "")
    return "%s(%s)%s" % (op, a, "" if r == "ok" else "=" + r)


def _key(h):
    return hashlib.sha1("|".join(json.dumps({k: v for k, v in d.items() if k not in ("post", "res", "ret", "ek", "at", "min")}, sort_keys=True)
                                 for d in h).encode()).hexdigest()


def nt_rollback(h):
    """a rollback succeeded on a group that was modified after the snapshot was taken (something to restore)"""
    snapped = {}
    for i, d in enumerate(h):
        if d["op"] == "Snap" and d.get("res") == "ok":
            snapped[(d["g"], d["n"])] = i
        if d["op"] == "Rollback" and d.get("res") == "ok" and (d["g"], d["n"]) in snapped:
            s = snapped[(d["g"], d["n"])]
            if any(x.get("g") == d["g"] and x["op"] not in ("Snap", "Rollback", "Release", "Messages") for x in h[s + 1:i]):
                return True
    return False


def nt_overwrite(h):
    """an existing key was written again, or one message id lives in two groups, or a rollback was applied"""
    seen, ids = set(), {}
    for d in h:
        if d.get("res") != "ok":
            continue
        if d["op"] == "SaveMessage":
            k = ("m", d["g"], d["id"])
            if k in seen or any(g != d["g"] for g in ids.get(d["id"], ())):
                return True
            seen.add(k)
            ids.setdefault(d["id"], set()).add(d["g"])
        elif d["op"] in ("SaveGroup", "SaveProcessed", "SaveWelcome"):
            k = (d["op"], d.get("g", d.get("w", d.get("id"))))
            if k in seen:
                return True
            seen.add(k)
        elif d["op"] == "Rollback":
            return True
    return False


def nt_ties(h):
    """a listing was returned for a group holding at least two messages with the same created_at"""
    for d in h:
        if d["op"] == "Messages" and d.get("res") == "ok":
            for e in d["post"]["pg"]:
                if e["g"] == d["g"]:
                    cas = [m["ca"] for m in e["mc"]]
                    if len(cas) != len(set(cas)):
                        return True
    return False


def _diff_histories(a, b):
    """sanity only: direct comparison of the two backends' recorded lines (result class, returned data, dump), wall-clock
    fields and unordered results normalised. Returns (#lines differing, #lines compared, set of history indexes that differ)"""
    def norm(d):
        d = json.loads(json.dumps(d))
        for k in ("at", "min", "ek"):
            d.pop(k, None)
        p = d.get("post", {})
        for k in ("groups", "gfind", "bn", "fm", "pm", "pw", "wl", "gl"):
            if k in p:
                p[k] = sorted(p[k], key=lambda x: json.dumps(x, sort_keys=True))
        for e in p.get("pg", []):
            for s in e.get("snaps", []):
                s.pop("at", None)
            for k in ("inv", "invp", "fail", "gd", "pr", "prr", "ekp", "sec", "snaps"):
                e[k] = sorted(e.get(k, []), key=lambda x: json.dumps(x, sort_keys=True))
        if d.get("op") in ("InvalidateMsgs", "InvalidateProc") and isinstance(d.get("ret"), list):
            d["ret"] = sorted(d["ret"])
        return d
    n = tot = 0
    hi = -1
    bad = set()
    for x, y in zip(open(a), open(b)):
        dx, dy = json.loads(x), json.loads(y)
        if dx["op"] == "Reset":
            hi += 1
        if dx["op"] in ("Meta", "Reset"):
            continue
        tot += 1
        if norm(dx) != norm(dy):
            n += 1
            bad.add(hi)
    return n, tot, bad


def _deviating_histories(trace, out):
    """history indexes in which TLC needed a listed deviation to accept a step (DEVIATION lines carry the trace line)"""
    import re
    lines = sorted({int(x) for x in re.findall(r'"DEVIATION", "\w+", "line", (\d+)', out)})
    if not lines:
        return set()
    starts = []
    for i, ln in enumerate(open(trace), 1):
        if ln.startswith('{"op":"Reset"'):
            starts.append(i)
    res = set()
    for l in lines:
        # the finding is printed while the state AFTER line l-1 is checked; both l-1 and l lie in the same history
        # except at a Reset boundary, so take the line that produced the state
        k = -1
        for j, s0 in enumerate(starts):
            if s0 <= l - 1:
                k = j
        res.add(k)
    return res


def run_storage(ctx, rt, *, prop, invariants, properties, view, mc, profiles, nontrivial, rule):
    pid, tier, seed, t0 = ctx["pid"], ctx["tier"], ctx["seed"], ctx["t0"]
    import time
    binp = rt.build_crate("hstorage")
    known = {(k["property"], k["tag"]): k for k in _known(rt)}
    viol, known_seen = [], set()
    states = transitions = 0
    mc_runs = []
    # ---------------------------------------------------------------- (A) exhaustive model checking
    if not ctx.get("replay"):
        for (cfg, to) in mc.get(tier, mc["quick"]):
            r = rt.tlc_mc("MCStorage.tla", cfg, workers=8, timeout=to)
            mc_runs.append({"cfg": cfg, "states": r["states"], "transitions": r["transitions"], "completed": r["completed"]})
            states += r["states"]
            transitions += r["transitions"]
            if r["violated"]:
                rp = os.path.join(rt.OUT, "replays", "%s_mc_%s.txt" % (pid, cfg))
                os.makedirs(os.path.dirname(rp), exist_ok=True)
                open(rp, "w").write(r["out"][-30000:])
                viol.append(("mc:%s:%s" % (cfg, ",".join(r["violated"])), rp))
            elif not r["completed"] or r["states"] < 2:
                rt.log("TOOL-ERROR: TLC did not complete on %s (rc=%s, states=%s)" % (cfg, r["rc"], r["states"]))
                rt.log(r["out"][-1500:])
                return 2
        # every listed finding must be REACHABLE in the as-built model (a witness; otherwise its excuse would be vacuous there)
        if tier == "thorough":
            flags = {f.get("dev") for f in _known(rt)}
            for flag, cfg in WITNESS:
                if flag not in flags:
                    continue
                tmp = "MC_w_%d_%s.cfg" % (os.getpid(), flag)
                base = open(os.path.join(rt.SPEC, cfg)).read()
                open(os.path.join(rt.SPEC, tmp), "w").write(base.replace("INVARIANT TypeInv", "INVARIANT TypeInv\nINVARIANT W_%s" % flag))
                try:
                    r = rt.tlc_mc("MCStorage.tla", tmp, workers=8, timeout=600)
                finally:
                    os.remove(os.path.join(rt.SPEC, tmp))
                ok = ("W_" + flag) in r["violated"]
                mc_runs.append({"cfg": cfg, "witness_for": flag, "reached": ok, "states": r["states"]})
                if not ok:
                    rt.log("TOOL-ERROR: finding %s is not reachable in the as-built model %s (no witness)" % (flag, cfg))
                    rt.log(r["out"][-1500:])
                    return 2
    # ---------------------------------------------------------------- (B)+(C) real executions validated against the spec
    traces_dir = os.path.join(rt.OUT, "traces" if rt.REPO == "/repo" else "traces_alt_%d" % os.getpid())
    os.makedirs(traces_dir, exist_ok=True)
    cfg_text = TRACE_CFG + "INVARIANT InvModel\nINVARIANT InvDeviationLog\n" + "".join("INVARIANT %s\n" % i for i in invariants) + \
        "".join("PROPERTY %s\n" % p for p in properties)
    plist = profiles.get(tier, profiles["quick"])
    replay = None
    if ctx.get("replay"):
        replay = json.load(open(ctx["replay"]))
        plist = [replay["profile"]]
    nh = events = 0
    distinct, nontriv, samples = set(), set(), []
    diff_total = [0, 0, 0, 0]   # lines differing, lines compared, histories differing, of those without a listed deviation
    unexplained = []
    for pi, prof in enumerate(plist):
        prof = dict(prof)
        if os.environ.get("VERIF_NO_DIRECTED"):   # experiments only: how much do the random drivers find on their own
            prof["directed"] = 0
        backends = prof.pop("backends", "mem,sql").split(",")
        if replay:
            backends = [replay["backend"]]
            prefix = os.path.join(traces_dir, "%s_replay" % pid)
            opsf = prefix + "_ops.json"
            json.dump({"ng": replay["ng"], "cap": replay.get("cap", 0), "histories": [replay["ops"]]}, open(opsf, "w"))
            rc, out = rt.sh("%s run %s %s %s" % (binp, opsf, prefix, replay["backend"]), timeout=3600)
            argv = "replay"
        else:
            prof["seed"] = seed * 1000 + pi
            prefix = os.path.join(traces_dir, "%s_%s_%d" % (pid, tier, pi))
            argv = " ".join("%s=%s" % kv for kv in sorted(prof.items()))
            rc, out = rt.sh("%s rand %s %s backends=%s" % (binp, prefix, argv, ",".join(backends)), timeout=3600)
        if rc != 0:
            rt.log(out[-3000:])
            rt.log("TOOL-ERROR: hstorage failed (rc=%s) on profile %s" % (rc, argv))
            return 2
        badh = set()
        if len(backends) == 2:
            d, t, badh = _diff_histories(prefix + "_mem.ndjson", prefix + "_sql.ndjson")
            diff_total[0] += d
            diff_total[1] += t
            diff_total[2] += len(badh)
        devh = set()
        for b in backends:
            tr = "%s_%s.ndjson" % (prefix, b)
            _patch_meta(tr, _dev(rt, b))
            r = rt.tlc_trace("StorageTrace.tla", cfg_text, tr, view=view, timeout=2400)
            events += r["states"]
            for (p, tag) in r["known"]:
                known_seen.add((p, tag))
            devh |= _deviating_histories(tr, r["out"])
            if r["toolerr"]:
                rt.log(r["out"][-3000:])
                rt.log("TOOL-ERROR: TLC trace validation failed to run on %s" % tr)
                return 2
            hs = _histories(tr)
            if not r["accepted"]:
                # TLC stops at the first violated invariant / unmatched step: the offending line is the last state reached
                line = r["rejected_line"] if r["rejected_line"] else r["states"] + 1
                exc, rel = rt.history_excerpt(tr, line)
                ops = [{k: v for k, v in json.loads(x).items() if k not in ("post", "res", "ret", "ek", "at", "min")} for x in exc[2:]]
                meta = json.loads(exc[0])
                rp = os.path.join(rt.OUT, "replays", "%s_%s_%s_%s.json" % (pid, tier, prof.get("seed", "r"), b))
                os.makedirs(os.path.dirname(rp), exist_ok=True)
                what = ",".join(r["violated"]) if r["violated"] else "step-not-allowed-by-spec"
                json.dump({"property": pid, "profile": dict(prof, backends=b), "backend": b, "ng": len(meta["pools"]["groups"]), "cap": meta.get("cap", 0),
                           "view": view, "trace_file": tr, "line": line, "line_in_history": rel, "violated": r["violated"], "mismatch": r["mismatch"],
                           "ops": ops, "failing_sequence": [_short(json.loads(x)) for x in exc[2:]][:max(rel - 2, 1)],
                           "how": "./check %s --replay <this file>  (re-executes `ops` on backend `backend` and validates the trace)" % pid},
                          open(rp, "w"), indent=1)
                viol.append(("[%s] %s%s" % (b, what, " " + r["mismatch"][:400] if r["mismatch"] else ""), rp))
            for h in hs:
                nh += 1
                k = _key(h) + b
                distinct.add(k)
                if nontrivial(h):
                    nontriv.add(k)
                    if len(samples) < 4:
                        samples.append({"backend": b, "profile": argv, "ops": [_short(d) for d in h][:50]})
        if viol:
            break
        un = sorted(badh - devh)
        diff_total[3] += len(un)
        unexplained += ["%s#%d" % (os.path.basename(prefix), k) for k in un[:5]]
    for (p, tag) in sorted(known_seen):
        if (p, tag) not in known:
            viol.append(("deviation %s/%s was needed to explain the real behaviour but is not listed in known_findings.json" % (p, tag), "known_findings.json"))
    wall = time.time() - t0
    if not samples:
        samples = [{"note": "no non-trivial history in this run"}]
    cov = {"states": max(states, 1), "transitions": max(transitions, 1),
           "traces_validated_against_impl": nh if not viol else max(nh - 1, 0),
           "samples": samples, "evaluations": nh, "distinct_nontrivial": len(nontriv), "distinct": len(distinct),
           "rule": rule, "trace_events_checked": events, "mc_runs": mc_runs,
           "view_bound_fields": VIEWS.get(view, view), "invariants": ["InvModel"] + list(invariants) + list(properties),
           "backend_diff": {"lines_differing": diff_total[0], "lines_compared": diff_total[1], "histories_differing": diff_total[2],
                            "histories_differing_without_listed_deviation": diff_total[3], "examples": unexplained[:10],
                            "note": "direct comparison of the two backends' recorded lines (sanity only; wall-clock fields masked). A difference "
                                    "outside a history in which TLC needed a listed deviation can only come from a choice the contract leaves open "
                                    "(which matching epoch find_message_epoch_by_tag_content returns) or from snapshot ages: the two runs see different "
                                    "wall-clock seconds, so prune-by-age may select different snapshots"},
           "deviations_needed": sorted("%s/%s" % x for x in known_seen),
           "exhaustive": False, "profiles": plist}
    rt.write_evidence(pid, tier, seed, "model_checking", cov, wall, len(viol), ASSUME)
    for (p, tag) in sorted(known_seen):
        if (p, tag) in known and p == prop:
            rt.log("KNOWN-FINDING: property=%s %s" % (p, known[(p, tag)]["text"]))
    if viol:
        for what, rp in viol:
            rt.log("violation detail:", what)
            rt.log("VIOLATION property=%s replay=%s" % (pid, rp))
        return 1
    rt.log("OK %s tier=%s: MC %d states / %d transitions in %d configs; %d real histories (%d distinct, %d non-trivial), %d trace steps validated; "
           "backends differ in %d histories (%d of them without a listed deviation); %.0fs"
           % (pid, tier, states, transitions, len(mc_runs), nh, len(distinct), len(nontriv), events, diff_total[2], diff_total[3], wall))
    return 0


WITNESS = [("SqlRetakeFails", "MC_storage_snap_sql.cfg"), ("SqlSnapshotNeedsGroupRow", "MC_storage_snap_sql.cfg"),
           ("SqlPruneCountsRows", "MC_storage_snap_sql.cfg"), ("SqlRestoreReordersLeaves", "MC_storage_mls_sql.cfg"),
           ("SqlOffsetWraps", "MC_storage_reads_sql.cfg"), ("SqlLikeIgnoresCase", "MC_storage_reads_sql.cfg"),
           ("MemRollbackStealsNostrId", "MC_storage_snap_mem.cfg"), ("MemOffsetOverflows", "MC_storage_reads_mem.cfg")]


def _mc(names, to=300):
    return [(n, to) for n in names]


MC_C09 = {"quick": _mc(["MC_storage_snap.cfg", "MC_storage_snap_mem.cfg", "MC_storage_snap_sql.cfg",
                        "MC_storage_mls.cfg", "MC_storage_mls_sql.cfg"]),
          "thorough": _mc(["MC_storage_snap_big.cfg", "MC_storage_snap.cfg", "MC_storage_snap_mem.cfg", "MC_storage_snap_sql.cfg",
                           "MC_storage_mls.cfg", "MC_storage_mls_mem.cfg", "MC_storage_mls_sql.cfg",
                           "MC_storage_misc.cfg", "MC_storage_misc_mem.cfg", "MC_storage_misc_sql.cfg"], 900)}
MC_C10 = {"quick": _mc(["MC_storage_snap.cfg", "MC_storage_reads.cfg", "MC_storage_reads_mem.cfg", "MC_storage_reads_sql.cfg",
                        "MC_storage_misc.cfg", "MC_storage_aux.cfg", "MC_storage_cap.cfg", "MC_storage_mls_sql.cfg"]),
          "thorough": _mc(["MC_storage_snap.cfg", "MC_storage_snap_mem.cfg", "MC_storage_snap_sql.cfg",
                           "MC_storage_reads.cfg", "MC_storage_reads_mem.cfg", "MC_storage_reads_sql.cfg",
                           "MC_storage_msgs.cfg", "MC_storage_msgs_mem.cfg", "MC_storage_msgs_sql.cfg",
                           "MC_storage_misc.cfg", "MC_storage_misc_mem.cfg", "MC_storage_misc_sql.cfg",
                           "MC_storage_mls.cfg", "MC_storage_mls_mem.cfg", "MC_storage_mls_sql.cfg", "MC_storage_cap.cfg",
                           "MC_storage_aux.cfg", "MC_storage_aux_mem.cfg", "MC_storage_aux_sql.cfg"], 900)}
MC_C18 = {"quick": _mc(["MC_storage_msgs.cfg", "MC_storage_reads.cfg", "MC_storage_reads_mem.cfg", "MC_storage_reads_sql.cfg"]),
          "thorough": _mc(["MC_storage_msgs.cfg", "MC_storage_msgs_mem.cfg", "MC_storage_msgs_sql.cfg",
                           "MC_storage_reads.cfg", "MC_storage_reads_mem.cfg", "MC_storage_reads_sql.cfg", "MC_storage_cap.cfg"], 900)}


def plan_C09(ctx, rt):
    profiles = {"quick": [dict(n=45, steps=40, profile="snap", ng=3, directed=1, sleeps=1),
                          dict(n=25, steps=50, profile="snap", ng=4, directed=0)],
                "thorough": [dict(n=150, steps=60, profile="snap", ng=[2, 3, 4][i % 3], directed=1 if i == 0 else 0, sleeps=1 if i == 0 else 0) for i in range(6)]
                            + [dict(n=100, steps=60, profile="mixed", ng=3, directed=0)]}
    return run_storage(ctx, rt, prop="C09", invariants=[], properties=["ActC09"], view="all", mc=MC_C09, profiles=profiles,
                       nontrivial=nt_rollback,
                       rule="directed scenarios (one per frame condition of Storage.tla) + seeded random op sequences over 1-4 groups, "
                            "2 snapshot names shared by all groups, create / rollback / release / prune in any order and nesting, on BOTH backends; "
                            "after every call every read method is dumped and bound to the model state, the frame conditions are TLC action "
                            "properties over consecutive observed states; distinct = hash of the op sequence per backend; non-trivial = a rollback "
                            "succeeded on a group modified since the snapshot")


def plan_C10(ctx, rt):
    profiles = {"quick": [dict(n=45, steps=50, profile="mixed", ng=3, directed=1),
                          dict(n=20, steps=40, profile="msgs", ng=2, directed=0),
                          dict(n=12, steps=40, profile="msgs", ng=2, cap=3, directed=1, backends="mem")],
                "thorough": [dict(n=120, steps=70, profile=["mixed", "msgs", "snap"][i % 3], ng=[3, 2, 4][i % 3], directed=1 if i == 0 else 0, sleeps=1 if i == 0 else 0) for i in range(8)]
                            + [dict(n=100, steps=50, profile="msgs", ng=2, cap=3, directed=1, backends="mem")]}
    return run_storage(ctx, rt, prop="C10", invariants=["InvC10"], properties=["ActErrNoEffect"], view="all", mc=MC_C10, profiles=profiles,
                       nontrivial=nt_overwrite,
                       rule="the same directed + seeded random op sequences (group, message, processed-message, welcome, exporter-secret, relay, "
                            "snapshot and OpenMLS-row calls; key pools of 2-4 forcing overwrites, ties, id reuse across groups, missing groups; "
                            "limit in {none,0,1,2,3,MAX,MAX+1}, offset in {none,0..5,1e6,2^63-1,2^63,usize::MAX}) are executed on the memory and the "
                            "SQLite backend; both traces must be behaviours of the SAME Storage.tla (return value of every call + full read dump bound); "
                            "InvC10 = no step needed a deviation that is not a listed finding; non-trivial = a key was overwritten, a message id lives "
                            "in two groups, or a rollback was applied")


def plan_C18S(ctx, rt):
    profiles = {"quick": [dict(n=60, steps=40, profile="msgs", ng=2, directed=1),
                          dict(n=15, steps=40, profile="mixed", ng=3, directed=0)],
                "thorough": [dict(n=150, steps=60, profile="msgs", ng=[2, 3][i % 2], directed=1 if i == 0 else 0) for i in range(6)]
                            + [dict(n=100, steps=50, profile="msgs", ng=2, cap=3, directed=1, backends="mem")]}
    return run_storage(ctx, rt, prop="C18", invariants=["InvC18"], properties=[], view="C18", mc=MC_C18, profiles=profiles,
                       nontrivial=nt_ties,
                       rule="message sets with created_at in {10,11} and processed_at in {20,21,22} (ties on both keys), 4 ids reused across groups, "
                            "arbitrary arrival order, re-saves, invalidation and rollbacks; after EVERY call both full listings (both sort modes), "
                            "last_message for both modes and find-by-id are bound to the model's one sorted list; random (limit, offset, sort) calls "
                            "incl. 0, MAX, MAX+1 and huge offsets are bound to the exact slice; TLC evaluates on every observed state that the pages "
                            "of every size partition the list; non-trivial = a listing call on a group holding a created_at tie")


PLANS = {"C09": plan_C09, "C10": plan_C10, "C18S": plan_C18S}
