mod crash;
mod drivers;
mod logcap;
mod world;

use std::io::Write;

use mdk_core::MdkConfig;
use serde_json::{Value, json};
use world::World;

pub struct Recorder {
    pub out: Box<dyn Write>,
    pub i: u64,
}
impl Recorder {
    pub fn emit(&mut self, mut v: Value) {
        self.i += 1;
        v.as_object_mut().unwrap().insert("i".into(), json!(self.i));
        writeln!(self.out, "{}", v).unwrap();
    }
}

pub fn meta(clients: &[&str], groups: &[&str], sql: &[&str], cfg: &MdkConfig) -> Value {
    let dev: Vec<String> = std::env::var("VERIF_DEV").unwrap_or_default().split(',').filter(|x| !x.is_empty()).map(|x| x.to_string()).collect();
    json!({"op":"Meta","clients":clients,"groups":groups,"sql":sql,
           "retention":cfg.epoch_snapshot_retention,"lookback":5,"maxpast":cfg.max_past_epochs,
           "oot":cfg.out_of_order_tolerance,"mfd":cfg.maximum_forward_distance,
           "dev":dev,
           "views":{"core":["st","mls","chain","members","pend","props","mdata","rec","res","out","notif"]}})
}

fn smoke(backend: &str) {
    let mut w = World::new(MdkConfig::default());
    for c in ["c1", "c2", "c3"] {
        w.add_client(c, backend);
    }
    let mut r = Recorder { out: Box::new(std::io::stdout()), i: 0 };
    r.emit(meta(&["c1", "c2", "c3"], &["g1"], if backend == "sql" { &["c1", "c2", "c3"] } else { &[] }, &MdkConfig::default()));
    let v = w.op_create("c1", "g1", &["c2".into(), "c3".into()], &["c1".into(), "c2".into()]);
    r.emit(v);
    let v = w.op_commit("c1", "g1", "rename", &json!("n1"), 5, 2);
    r.emit(v);
    let v = w.op_commit("c2", "g1", "rename", &json!("n2"), 4, 1);
    r.emit(v);
    let v = w.op_send("c3", "g1", 3, 0, 3);
    r.emit(v);
    for (c, e) in [("c3", "e1"), ("c3", "e2"), ("c1", "e1"), ("c1", "e2"), ("c2", "e2"), ("c2", "e1"), ("c1", "e3"), ("c2", "e3"), ("c3", "e3")] {
        let v = w.op_deliver(c, e, 9, 0);
        r.emit(v);
    }
}

fn main() {
    logcap::install();
    let args: Vec<String> = std::env::args().collect();
    match args.get(1).map(|s| s.as_str()) {
        Some("smoke") => smoke(args.get(2).map(|s| s.as_str()).unwrap_or("mem")),
        Some("crash") => {
            // crash <out> seed=N stride=S kinds=a,b,c
            let out = args.get(2).expect("out path");
            let mut kv = std::collections::HashMap::new();
            for a in &args[3..] {
                if let Some((k, v)) = a.split_once('=') { kv.insert(k.to_string(), v.to_string()); }
            }
            let seed: u64 = kv.get("seed").map(|s| s.parse().unwrap()).unwrap_or(1);
            let stride: u64 = kv.get("stride").map(|s| s.parse().unwrap()).unwrap_or(1);
            let kinds_s = kv.get("kinds").cloned().unwrap_or("messages,send,ownmsg,commit,race,proposal,own,welcome,create,txatomic".to_string());
            let kinds: Vec<&str> = kinds_s.split(',').collect();
            crash::run_crash(out, seed, stride, &kinds);
        }
        Some("sched") => {
            // sched <schedule.json> <out> [backend]: execute a schedule (list of actions of the shared vocabulary), e.g. one
            // produced from a TLC counterexample, against real clients and record the trace
            let sched: Vec<Value> = serde_json::from_str(&std::fs::read_to_string(args.get(2).expect("schedule")).unwrap()).unwrap();
            let out = args.get(3).expect("out path");
            let backend = args.get(4).map(|s| s.as_str()).unwrap_or("mem");
            let cfg = MdkConfig::default();
            let mut w = World::new(cfg.clone());
            let clients = ["c1", "c2", "c3", "c4"];
            for c in clients { w.add_client(c, backend); }
            let f = std::fs::File::create(out).expect("create out");
            let mut r = Recorder { out: Box::new(std::io::BufWriter::new(f)), i: 0 };
            let sql: Vec<&str> = if backend == "sql" { clients.to_vec() } else { vec![] };
            r.emit(meta(&clients, &["g1"], &sql, &cfg));
            r.emit(json!({"op":"Reset"}));
            for a in &sched {
                let v = drivers::exec_action(&mut w, a);
                r.emit(v);
            }
            let posts: Vec<Value> = clients.iter().map(|c| json!({"c":c,"g":"g1","post":w.project(c, "g1")})).collect();
            r.emit(json!({"op":"Snapshot","posts":posts}));
        }
        Some("rand") => {
            // rand <out> key=value...
            let out = args.get(2).expect("out path");
            let mut kv = std::collections::HashMap::new();
            for a in &args[3..] {
                if let Some((k, v)) = a.split_once('=') {
                    kv.insert(k.to_string(), v.to_string());
                }
            }
            let get = |k: &str, d: &str| kv.get(k).cloned().unwrap_or(d.to_string());
            let mut mdk = MdkConfig::default();
            mdk.epoch_snapshot_retention = get("retention", "5").parse().unwrap();
            mdk.max_past_epochs = get("maxpast", "5").parse().unwrap();
            mdk.out_of_order_tolerance = get("oot", "100").parse().unwrap();
            mdk.maximum_forward_distance = get("mfd", "1000").parse().unwrap();
            let cfg = drivers::RandCfg {
                seed: get("seed", "1").parse().unwrap(),
                histories: get("n", "5").parse().unwrap(),
                steps: get("steps", "30").parse().unwrap(),
                backend: get("backend", "mem"),
                regime: get("regime", "causal"),
                mdk,
                profile: get("profile", "core"),
                restarts: get("restarts", "0") == "1",
                ttl: get("ttl", "0") == "1",
                observers: get("observers", "0") == "1",
                replay_welcomes: get("wreplay", "0") == "1",
                junk: get("junk", "0") == "1",
                groups2: get("groups", "1") == "2",
                adversary: get("adv", "0") == "1",
            };
            let f = std::fs::File::create(out).expect("create out");
            let mut r = Recorder { out: Box::new(std::io::BufWriter::new(f)), i: 0 };
            drivers::run_random(&cfg, &mut r);
        }
        _ => eprintln!("usage: harness smoke [mem|sql]"),
    }
}
