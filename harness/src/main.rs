fn main() { println!("ok"); }
