//! C12: crash (process death) at every storage-operation index k of an API call on the SQLite backend,
//! using hook H2 (mdk_sqlite_storage::verif_hooks). One NDJSON line per experiment.

use std::panic::{AssertUnwindSafe, catch_unwind};
use std::path::PathBuf;

use mdk_core::MdkConfig;
use mdk_sqlite_storage::verif_hooks as h2;
use rand::rngs::StdRng;
use rand::{Rng, SeedableRng};
use serde_json::{Value, json};

use crate::Recorder;
use crate::drivers::exec_action;
use crate::world::World;

const V: &str = "c2"; // the victim (SQLite)

fn fp(post: &Value) -> Value {
    // the observable state compared between the interrupted and the uninterrupted run
    let mut msgs: Vec<Value> = post["msgs"].as_array().cloned().unwrap_or_default().into_iter()
        .map(|m| json!({"id":m["id"],"state":m["state"],"epoch":m["epoch"],"author":m["author"],"content":m["content"]})).collect();
    msgs.sort_by_key(|m| m["id"].to_string());
    let mut proc: Vec<Value> = post["proc"].as_array().cloned().unwrap_or_default().into_iter()
        .map(|p| json!({"e":p["e"],"state":p["state"],"epoch":p["epoch"]})).collect();
    proc.sort_by_key(|m| m["e"].to_string());
    json!({"st":post["st"],"mls":post["mls"],"chain":post["chain"],"epoch":post["epoch"],"members":post["members"],
           "mdata":post["mdata"],"rec":{"epoch":post["rec"]["epoch"],"name":post["rec"]["name"],"desc":post["rec"]["desc"],
           "admins":post["rec"]["admins"],"nid":post["rec"]["nid"],"relays":post["rec"]["relays"],"last":post["rec"]["last"]},
           "pend":post["pend"],"nprops":post["nprops"],"msgs":msgs,"proc":proc,"snaps":post["snaps"]})
}

fn diff_fields(a: &Value, b: &Value) -> Vec<String> {
    let mut d = vec![];
    // (dedup records are not compared: re-processing an already handled message rewrites its record even without a crash)
    for k in ["st", "mls", "chain", "epoch", "members", "mdata", "rec", "pend", "nprops", "msgs", "snaps"] {
        if a[k] != b[k] {
            d.push(k.to_string());
        }
    }
    d
}

/// Build the reference scenario: returns (world, victim op list). The victim's ops are executed in the reference run;
/// before each, the victim's database file is copied to `pre_<j>.db` in `work`.
fn scenario(rng: &mut StdRng, kind: &str, work: &PathBuf, cfg: &MdkConfig) -> (World, Vec<Value>, Vec<u64>, Vec<Vec<String>>, Vec<Value>) {
    let mut w = World::new(cfg.clone());
    w.add_client("c1", "mem");
    w.add_client(V, "sql");
    w.add_client("c3", "mem");
    w.add_client("c4", "mem");
    let g = "g1";
    // kinds may force a variant: "proposal_admin" (the victim is an admin and auto-commits), "own_merge" / "own_echo",
    // "merge_data" (the victim merges a commit of its own that changes the group data)
    let (kind, variant) = match kind.split_once('_') { Some((k, v)) => (k, v), None => (kind, "") };
    let v_admin = match variant { "admin" | "data" => true, "member" => false, _ => rng.gen_bool(0.5) };
    let admins: Vec<String> = if v_admin { vec!["c1".into(), V.into()] } else { vec!["c1".into()] };
    let mut trace: Vec<Value> = vec![];
    trace.push(w.op_create("c1", g, &[V.to_string(), "c3".to_string()], &admins));
    let mut vops: Vec<Value> = vec![];
    let mut clock = 20u64;
    let _ = &mut vops;
    let mut others = |w: &mut World, a: Value| -> Value { exec_action(w, &a) };
    // events produced by the other members, in the order the victim will be handed them
    match kind {
        "messages" => {
            for _ in 0..2 {
                clock += 1;
                let v = others(&mut w, json!({"op":"Send","c":"c3","g":g,"ts":clock,"rank":0,"mts":clock}));
                vops.push(json!({"op":"Deliver","c":V,"e":v["e"],"ts":clock,"rank":1}));
            }
        }
        "ownmsg" => {
            // the victim's own application message comes back from the relay
            vops.push(json!({"op":"Send","c":V,"g":g,"ts":clock + 1,"rank":0,"mts":clock + 1}));
            vops.push(json!({"op":"DeliverOwnLast","c":V}));
        }
        "send" => {
            vops.push(json!({"op":"Send","c":V,"g":g,"ts":clock + 1,"rank":0,"mts":clock + 1}));
        }
        "commit" => {
            clock += 1;
            let v = others(&mut w, json!({"op":"Commit","c":"c1","g":g,"kind":"rename","arg":"nmA","ts":clock,"rank":3}));
            others(&mut w, json!({"op":"Merge","c":"c1","g":g}));
            vops.push(json!({"op":"Deliver","c":V,"e":v["e"],"ts":clock,"rank":1}));
            clock += 1;
            let m = others(&mut w, json!({"op":"Send","c":"c1","g":g,"ts":clock,"rank":0,"mts":clock}));
            vops.push(json!({"op":"Deliver","c":V,"e":m["e"],"ts":clock,"rank":1}));
        }
        "race" => {
            // worse commit first, then the better one: commit-with-rollback
            let k1 = others(&mut w, json!({"op":"Commit","c":"c1","g":g,"kind":"rename","arg":"nmW","ts":clock + 5,"rank":9}));
            let k2 = others(&mut w, json!({"op":"Commit","c":"c3","g":g,"kind":"self_update","arg":"","ts":clock + 1,"rank":2}));
            vops.push(json!({"op":"Deliver","c":V,"e":k1["e"],"ts":clock + 6,"rank":1}));
            let m = others(&mut w, json!({"op":"Merge","c":"c1","g":g}));
            let _ = m;
            let msg = others(&mut w, json!({"op":"Send","c":"c1","g":g,"ts":clock + 6,"rank":0,"mts":clock + 6}));
            vops.push(json!({"op":"Deliver","c":V,"e":msg["e"],"ts":clock + 6,"rank":1}));
            vops.push(json!({"op":"Deliver","c":V,"e":k2["e"],"ts":clock + 7,"rank":1}));
        }
        "proposal" => {
            clock += 1;
            let p = others(&mut w, json!({"op":"Leave","c":"c3","g":g,"ts":clock,"rank":4}));
            vops.push(json!({"op":"Deliver","c":V,"e":p["e"],"ts":clock + 1,"rank":5}));
            if v_admin {
                vops.push(json!({"op":"Merge","c":V,"g":g}));
            }
        }
        "own" => {
            clock += 1;
            vops.push(json!({"op":"Commit","c":V,"g":g,"kind":"self_update","arg":"","ts":clock,"rank":6}));
            let merge = match variant { "merge" => true, "echo" => false, _ => rng.gen_bool(0.5) };
            if merge { vops.push(json!({"op":"Merge","c":V,"g":g})); } else { vops.push(json!({"op":"DeliverOwnPending","c":V})); }
        }
        "merge" => {
            // the victim (an admin) changes name and relays, merges its commit, then a message of another member arrives
            clock += 1;
            vops.push(json!({"op":"Commit","c":V,"g":g,"kind":"rename","arg":"nmV","ts":clock,"rank":6}));
            vops.push(json!({"op":"Merge","c":V,"g":g}));
        }
        "welcome" => {
            // the victim is removed and re-invited: process_welcome / accept_welcome
            clock += 1;
            let r = others(&mut w, json!({"op":"Commit","c":"c1","g":g,"kind":"remove","arg":[V],"ts":clock,"rank":3}));
            others(&mut w, json!({"op":"Merge","c":"c1","g":g}));
            vops.push(json!({"op":"Deliver","c":V,"e":r["e"],"ts":clock,"rank":1}));
            clock += 1;
            let a = others(&mut w, json!({"op":"Commit","c":"c1","g":g,"kind":"add","arg":[V],"ts":clock,"rank":4}));
            others(&mut w, json!({"op":"Merge","c":"c1","g":g}));
            let wn = a["welcomes"][0].as_str().unwrap_or("").to_string();
            vops.push(json!({"op":"Welcome","c":V,"w":wn,"what":"process","fresh":false}));
            vops.push(json!({"op":"Welcome","c":V,"w":wn,"what":"accept","fresh":false}));
        }
        "create" => {
            vops.push(json!({"op":"CreateSecond","c":V}));
        }
        "txatomic" => {
            // storage-level transactions called directly: snapshot creation, relay replacement, rollback
            clock += 1;
            let v = others(&mut w, json!({"op":"Commit","c":"c1","g":g,"kind":"relays","arg":["wss://r2.example","wss://r3.example"],"ts":clock,"rank":3}));
            others(&mut w, json!({"op":"Merge","c":"c1","g":g}));
            vops.push(json!({"op":"StSnapshot","c":V}));
            vops.push(json!({"op":"StRelays","c":V}));
            vops.push(json!({"op":"Deliver","c":V,"e":v["e"],"ts":clock,"rank":1}));
            vops.push(json!({"op":"StRollback","c":V}));
        }
        _ => panic!("unknown crash scenario {kind}"),
    }
    // reference run of the victim's ops, with db copies and tick counts
    let mut ticks: Vec<u64> = vec![];
    let mut labels: Vec<Vec<String>> = vec![];
    let mut results: Vec<Value> = vec![];
    let mut pre_fps: Vec<Value> = vec![];
    let mut post_fps: Vec<Value> = vec![];
    let db = w.clients[V].db_path().unwrap();
    for j in 0..vops.len() {
        // bind "the victim's own last message / pending commit" to the event of the reference run
        if vops[j]["op"] == json!("DeliverOwnLast") {
            let last = w.ev_order.iter().rev().find(|n| w.events[*n].author == V && w.events[*n].kind == "app").cloned().unwrap_or_default();
            vops[j]["e"] = json!(last);
        }
        if vops[j]["op"] == json!("DeliverOwnPending") {
            let pn = w.pending_name.get(&(V.to_string(), "g1".to_string())).cloned().unwrap_or_default();
            vops[j]["e"] = json!(pn);
        }
        let op = &vops[j].clone();
        std::fs::copy(&db, work.join(format!("pre_{j}.db"))).expect("copy db");
        pre_fps.push(fp(&w.project(V, "g1")));
        h2::reset(true, None);
        let v = run_vop(&mut w, op);
        post_fps.push(fp(&w.project(V, "g1")));
        ticks.push(h2::count());
        labels.push(h2::take_labels());
        // ops that create events: remember the created name for DeliverOwnPending
        results.push(v);
        h2::reset(false, None);
    }
    for (j, r) in results.iter_mut().enumerate() {
        r["pre_fp"] = pre_fps[j].clone();
        r["post_fp"] = post_fps[j].clone();
    }
    (w, vops, ticks, labels, results)
}

fn run_vop(w: &mut World, op: &Value) -> Value {
    match op["op"].as_str().unwrap() {
        "DeliverOwnLast" | "DeliverOwnPending" => {
            let e = op["e"].as_str().unwrap_or("").to_string();
            if e.is_empty() { return json!({"res":"NoEvent"}); }
            exec_action(w, &json!({"op":"Deliver","c":V,"e":e,"ts":41,"rank":1}))
        }
        "StSnapshot" | "StRelays" | "StRollback" => {
            use mdk_storage_traits::MdkStorageProvider as _;
            use mdk_storage_traits::groups::GroupStorage as _;
            use openmls_traits::OpenMlsProvider as _;
            let gid = w.groups["g1"].gid.clone();
            let what = op["op"].as_str().unwrap().to_string();
            let cl = &w.clients[V];
            let st = cl.store.as_ref().unwrap();
            let r: Result<(), String> = crate::with_mdk!(st, m => {
                let s = m.provider.storage();
                match what.as_str() {
                    "StSnapshot" => s.create_group_snapshot(&gid, "manual").map_err(|e| e.to_string()),
                    "StRelays" => {
                        let set: std::collections::BTreeSet<nostr::RelayUrl> = ["wss://x1.example", "wss://x2.example", "wss://x3.example"].iter().map(|u| nostr::RelayUrl::parse(u).unwrap()).collect();
                        s.replace_group_relays(&gid, set).map_err(|e| e.to_string())
                    }
                    _ => s.rollback_group_to_snapshot(&gid, "manual").map_err(|e| e.to_string()),
                }
            });
            json!({"res": if r.is_ok() { "Ok" } else { "Err" }})
        }
        "CreateSecond" => {
            // create_group as an interrupted call: a second group created by the victim with c4 as member
            let r = catch_unwind(AssertUnwindSafe(|| w.op_create(V, "g2", &["c4".to_string()], &[V.to_string()])));
            match r {
                Ok(v) => { let mut v = v; v["res"] = json!("Ok"); v }
                Err(_) => json!({"res":"Panic"}),
            }
        }
        _ => exec_action(w, op),
    }
}

pub fn run_crash(out: &str, seed: u64, stride: u64, kinds: &[&str]) {
    let f = std::fs::File::create(out).expect("create out");
    let mut r = Recorder { out: Box::new(std::io::BufWriter::new(f)), i: 0 };
    let mut rng = StdRng::seed_from_u64(seed);
    let cfg = MdkConfig::default();
    let dev: Vec<String> = std::env::var("VERIF_DEV").unwrap_or_default().split(',').filter(|x| !x.is_empty()).map(|x| x.to_string()).collect();
    r.emit(json!({"op":"Meta","engine":"crash","kinds":kinds,"stride":stride,"dev":dev}));
    // silence the panic message of simulated crashes
    let prev = std::panic::take_hook();
    std::panic::set_hook(Box::new(move |info| {
        let s = info.to_string();
        if !s.contains("mdk_verif: simulated process death") { prev(info); }
    }));
    for kind in kinds {
        let work = tempfile::tempdir().expect("tmp");
        let workp = work.path().to_path_buf();
        let (mut w, vops, ticks, labels, refres) = scenario(&mut rng, kind, &workp, &cfg);
        let reference = fp(&w.project(V, "g1"));
        let ref_g2 = if w.groups.contains_key("g2") { Some(fp(&w.project(V, "g2"))) } else { None };
        let key = w.clients[V].db_key;
        let ref_dir = w.clients.get_mut(V).unwrap().dir.take();
        let ref_store = w.clients.get_mut(V).unwrap().store.take();
        for (j, op) in vops.iter().enumerate() {
            let t = ticks[j];
            let opname = match (op["op"].as_str().unwrap(), op["what"].as_str()) {
                ("Welcome", Some("process")) => "WelcomeProcess".to_string(),
                ("Welcome", Some("accept")) => "WelcomeAccept".to_string(),
                (o, _) => o.to_string(),
            };
            let opkind = format!("{}:{}", opname, refres[j]["res"].as_str().unwrap_or(""));
            // after which tick is each write durable, and which table family does it touch?
            // plain statement: its own tick; transaction: the tick before COMMIT; savepoint body: the last inner tick
            let labs = &labels[j];
            let mut durable_at: Vec<u64> = vec![];
            let mut wclass: Vec<String> = vec![];
            for (i, l) in labs.iter().enumerate() {
                let idx = (i + 1) as u64;
                if l.ends_with(" W") {
                    let mut last = idx;
                    let mut n = i + 1;
                    while n < labs.len() && labs[n].starts_with("relays:") { last = (n + 1) as u64; n += 1; }
                    durable_at.push(last);
                    let file = l.split(':').next().unwrap_or("");
                    wclass.push(match file { "lib.rs" => "mls", "messages.rs" => "msg", "groups.rs" => "grp", "welcomes.rs" => "wel", _ => "other" }.to_string());
                } else if l.ends_with(":before-commit") {
                    durable_at.push(idx);
                    wclass.push(if l.starts_with("snapshot") { "snap" } else { "restore" }.to_string());
                } else if l == "snapshot:release" {
                    durable_at.push(idx);
                    wclass.push("release".to_string());
                }
            }
            let total_w = durable_at.len();
            for k in 1..=t {
                let lab = labels[j].get((k - 1) as usize).cloned().unwrap_or_default();
                let named = !lab.contains(".rs:") || k == 1 || k == t;
                // crash points that differ only by reads leave the same durable prefix: with stride > 1 every tick
                // just before a write (and every transaction-internal tick) is still taken, reads are sampled
                let before_write = lab.ends_with(" W");
                if stride > 1 && k % stride != 1 && !named && !before_write { continue; }
                // fresh copy of the database as it was before op j
                let cdir = tempfile::tempdir().expect("tmp");
                let cdb = cdir.path().join("mdk.db");
                std::fs::copy(workp.join(format!("pre_{j}.db")), &cdb).expect("copy");
                {
                    let c = w.clients.get_mut(V).unwrap();
                    c.dir = Some(cdir);
                    c.db_key = key;
                    c.open();
                }
                h2::reset(false, Some(k));
                let res = catch_unwind(AssertUnwindSafe(|| run_vop(&mut w, op)));
                h2::reset(false, None);
                let panicked = res.is_err();
                // abandon the connection, reopen the file
                w.clients.get_mut(V).unwrap().store = None;
                let reopen = catch_unwind(AssertUnwindSafe(|| w.clients.get_mut(V).unwrap().open()));
                let reopen_ok = reopen.is_ok();
                let mut loads = false;
                let mut retry_res = String::new();
                let mut rest: Vec<String> = vec![];
                let mut equal = false;
                let mut diffs: Vec<String> = vec![];
                let mut atomic = true;
                if reopen_ok {
                    let p = w.project(V, "g1");
                    let now_fp = fp(&p);
                    // all-or-nothing: right after the crash the store equals the state before or after the call
                    atomic = now_fp == refres[j]["pre_fp"] || now_fp == refres[j]["post_fp"];
                    loads = p["st"] == json!("none") || p["mls"] != json!("none") || p["st"] == json!("pending") || p["st"] == json!("inactive");
                    // processing the interrupted event again, then all later events
                    let rr = catch_unwind(AssertUnwindSafe(|| run_vop(&mut w, op)));
                    retry_res = match &rr { Ok(v) => v["res"].as_str().unwrap_or("").to_string(), Err(_) => "Panic".into() };
                    for later in vops.iter().skip(j + 1) {
                        let lr = catch_unwind(AssertUnwindSafe(|| run_vop(&mut w, later)));
                        rest.push(match &lr { Ok(v) => v["res"].as_str().unwrap_or("").to_string(), Err(_) => "Panic".into() });
                    }
                    let creating = matches!(op["op"].as_str().unwrap(), "Send" | "Commit" | "CreateSecond")
                        || refres[j]["res"] == json!("Proposal")
                        || vops.iter().skip(j + 1).any(|o| matches!(o["op"].as_str().unwrap(), "Send" | "Commit" | "CreateSecond"));
                    let fin = fp(&w.project(V, "g1"));
                    diffs = diff_fields(&reference, &fin);
                    if creating {
                        // events created by the retried call differ from the reference ones: compare structure only
                        diffs.retain(|d| d != "msgs" && d != "proc" && d != "rec" && d != "chain" && d != "snaps" && d != "mdata");
                    }
                    if let Some(rg2) = &ref_g2 {
                        let f2 = fp(&w.project(V, "g2"));
                        if rg2["st"] != f2["st"] || rg2["mls"] != f2["mls"] { diffs.push("g2".into()); }
                    }
                    equal = diffs.is_empty();
                }
                let nw = durable_at.iter().filter(|d| **d < k).count();
                let wdone: Vec<String> = wclass.iter().zip(durable_at.iter()).filter(|(_, d)| **d < k).map(|(c, _)| c.clone()).collect();
                let rollback_later = *kind == "race";
                r.emit(json!({"op":"Crash","scen":kind,"j":j,"opkind":opkind,"k":k,"T":t,"label":lab,"nw":nw,"W":total_w,
                              "wdone":wdone,"wall":wclass,"rollback_later":rollback_later,
                              "panicked":panicked,"reopen_ok":reopen_ok,"loads":loads,"retry":retry_res,"rest":rest,
                              "final_equal":equal,"diff":diffs,"atomic":atomic}));
                w.clients.get_mut(V).unwrap().store = None;
                w.clients.get_mut(V).unwrap().dir = None;
            }
        }
        let c = w.clients.get_mut(V).unwrap();
        c.dir = ref_dir;
        c.store = ref_store;
    }
}
