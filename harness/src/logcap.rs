//! Capture of every tracing record (TRACE and up) emitted by the library on this thread, for the C14 scan.
use std::cell::RefCell;
use std::fmt::Write as _;
use std::sync::atomic::{AtomicU64, Ordering};

use tracing::field::{Field, Visit};
use tracing::span::{Attributes, Id, Record};
use tracing::{Event, Metadata, Subscriber};

thread_local! {
    static BUF: RefCell<Vec<String>> = const { RefCell::new(Vec::new()) };
}

pub struct Capture {
    next: AtomicU64,
}

struct V<'a>(&'a mut String);
impl Visit for V<'_> {
    fn record_debug(&mut self, field: &Field, value: &dyn std::fmt::Debug) {
        let _ = write!(self.0, " {}={:?}", field.name(), value);
    }
    fn record_str(&mut self, field: &Field, value: &str) {
        let _ = write!(self.0, " {}={}", field.name(), value);
    }
}

impl Subscriber for Capture {
    fn enabled(&self, _m: &Metadata<'_>) -> bool {
        true
    }
    fn new_span(&self, attrs: &Attributes<'_>) -> Id {
        let mut s = format!("SPAN {}", attrs.metadata().name());
        attrs.record(&mut V(&mut s));
        BUF.with(|b| b.borrow_mut().push(s));
        Id::from_u64(self.next.fetch_add(1, Ordering::Relaxed) + 1)
    }
    fn record(&self, _span: &Id, values: &Record<'_>) {
        let mut s = String::from("RECORD");
        values.record(&mut V(&mut s));
        BUF.with(|b| b.borrow_mut().push(s));
    }
    fn record_follows_from(&self, _span: &Id, _follows: &Id) {}
    fn event(&self, event: &Event<'_>) {
        let m = event.metadata();
        let mut s = format!("{} {}", m.level(), m.target());
        event.record(&mut V(&mut s));
        BUF.with(|b| b.borrow_mut().push(s));
    }
    fn enter(&self, _span: &Id) {}
    fn exit(&self, _span: &Id) {}
}

pub fn install() {
    let _ = tracing::subscriber::set_global_default(Capture { next: AtomicU64::new(0) });
}

pub fn drain() -> Vec<String> {
    BUF.with(|b| std::mem::take(&mut *b.borrow_mut()))
}

pub fn push(s: String) {
    BUF.with(|b| b.borrow_mut().push(s));
}
