//! World: N real MDK clients, a net of published events, naming dictionaries,
//! execution of the action vocabulary and projection of the abstract state.

use std::collections::{BTreeMap, BTreeSet, HashMap};
use std::panic::{AssertUnwindSafe, catch_unwind};
use std::path::PathBuf;
use std::sync::{Arc, Mutex};

use mdk_core::callback::{MdkCallback, RollbackInfo};
use mdk_core::extension::NostrGroupDataExtension;
use mdk_core::groups::{NostrGroupConfigData, NostrGroupDataUpdate};
use mdk_core::messages::MessageProcessingResult;
use mdk_core::{Error, MDK, MdkConfig};
use mdk_memory_storage::MdkMemoryStorage;
use mdk_sqlite_storage::{EncryptionConfig, MdkSqliteStorage};
use mdk_storage_traits::messages::MessageStorage;
use mdk_storage_traits::welcomes::types::Welcome;
use mdk_storage_traits::{GroupId, MdkStorageProvider};
use nostr::{Event, EventBuilder, EventId, Keys, Kind, PublicKey, RelayUrl, UnsignedEvent};
use openmls_traits::OpenMlsProvider as _;
use serde_json::{Value, json};

#[derive(Debug, Default)]
pub struct CbLog(pub Mutex<Vec<RollbackInfo>>);
impl MdkCallback for CbLog {
    fn on_rollback(&self, info: &RollbackInfo) {
        self.0.lock().unwrap().push(info.clone());
    }
}

pub enum Store {
    Mem(MDK<MdkMemoryStorage>),
    Sql(MDK<MdkSqliteStorage>),
}

#[macro_export]
macro_rules! with_mdk {
    ($s:expr, $m:ident => $body:expr) => {
        match $s {
            $crate::world::Store::Mem($m) => $body,
            $crate::world::Store::Sql($m) => $body,
        }
    };
}

pub struct Client {
    pub name: String,
    pub keys: Keys,
    pub backend: String, // "mem" | "sql"
    pub store: Option<Store>,
    pub dir: Option<tempfile::TempDir>,
    pub db_key: [u8; 32],
    pub cb: Arc<CbLog>,
    pub cfg: MdkConfig,
    /// the driver's own record of when each stored snapshot was taken: (group, snapshot name) -> (t0, t1, stamp seen)
    pub snap_born: BTreeMap<(String, String), (u64, u64, u64)>,
}

#[derive(Clone)]
pub struct EvInfo {
    pub name: String,
    pub event: Event,
    pub kind: String, // commit | app | prop
    pub g: String,
    pub author: String,
    pub parent: String, // chain name at creation
    pub ts: u64,
    pub rank: u64,
    pub msg: Option<String>,
    pub jclass: String,
}

pub struct GroupInfo {
    pub gid: GroupId,
    pub base: u64,
}

pub struct WelcomeInfo {
    pub rumor: UnsignedEvent,
    pub to: String,
    pub from_commit: Option<String>, // commit event name (None for group creation)
    pub chain: String,               // chain the joiner lands on
    pub g: String,
    pub wrappers: Vec<EventId>,
    pub kp_ref: Vec<u8>, // serialized hash reference of the key package this invitation was built for
}

pub struct World {
    pub clients: BTreeMap<String, Client>,
    pub groups: BTreeMap<String, GroupInfo>,
    pub events: BTreeMap<String, EvInfo>,
    pub ev_order: Vec<String>,
    pub by_id: HashMap<EventId, String>,
    pub msgs: HashMap<EventId, String>,
    pub chains: HashMap<String, String>, // authenticator hex -> chain name
    pub chain_auth: HashMap<String, String>, // chain name -> authenticator hex
    pub nids: HashMap<[u8; 32], String>,
    pub welcomes: BTreeMap<String, WelcomeInfo>,
    pub base_ts: u64,
    pub counter: u64,
    pub cfg: MdkConfig,
    pub pending_name: HashMap<(String, String), String>, // (client, group) -> name of own pending commit
    pub needles: BTreeMap<String, String>, // needle text -> what it is (C14 scan)
}

pub fn chain_push(parent: &str, e: &str) -> String {
    if parent.is_empty() { e.to_string() } else { format!("{parent}.{e}") }
}
pub fn chain_len(chain: &str) -> u64 {
    if chain.is_empty() { 0 } else { chain.split('.').count() as u64 }
}
pub fn chain_json(chain: &str) -> Value {
    if chain.is_empty() { json!([]) } else { json!(chain.split('.').collect::<Vec<_>>()) }
}

pub fn res_class(r: &Result<MessageProcessingResult, Error>) -> String {
    match r {
        Ok(MessageProcessingResult::ApplicationMessage(_)) => "App".into(),
        Ok(MessageProcessingResult::Proposal(_)) => "Proposal".into(),
        Ok(MessageProcessingResult::PendingProposal { .. }) => "PendingProposal".into(),
        Ok(MessageProcessingResult::IgnoredProposal { .. }) => "IgnoredProposal".into(),
        Ok(MessageProcessingResult::ExternalJoinProposal { .. }) => "ExternalJoin".into(),
        Ok(MessageProcessingResult::Commit { .. }) => "Commit".into(),
        Ok(MessageProcessingResult::Unprocessable { .. }) => "Unprocessable".into(),
        Ok(MessageProcessingResult::PreviouslyFailed) => "PreviouslyFailed".into(),
        Err(_) => "Err".into(),
    }
}

impl World {
    pub fn new(cfg: MdkConfig) -> Self {
        let now = nostr::Timestamp::now().as_secs();
        World {
            clients: BTreeMap::new(),
            groups: BTreeMap::new(),
            events: BTreeMap::new(),
            ev_order: vec![],
            by_id: HashMap::new(),
            msgs: HashMap::new(),
            chains: HashMap::new(),
            chain_auth: HashMap::new(),
            nids: HashMap::new(),
            welcomes: BTreeMap::new(),
            base_ts: now - 100_000,
            counter: 0,
            cfg,
            pending_name: HashMap::new(),
            needles: BTreeMap::new(),
        }
    }

    pub fn add_client(&mut self, name: &str, backend: &str) {
        let keys = Keys::generate();
        let cb = Arc::new(CbLog::default());
        let mut db_key = [0u8; 32];
        rand::RngCore::fill_bytes(&mut rand::thread_rng(), &mut db_key);
        let mut c = Client {
            name: name.to_string(),
            keys,
            backend: backend.to_string(),
            store: None,
            dir: None,
            db_key,
            cb,
            cfg: self.cfg.clone(),
            snap_born: BTreeMap::new(),
        };
        if backend == "sql" {
            c.dir = Some(tempfile::tempdir().expect("tempdir"));
        }
        c.open();
        self.clients.insert(name.to_string(), c);
    }

    /// A second device of the user `primary`: same Nostr identity, own storage, own key packages, own leaf.
    pub fn add_client_sibling(&mut self, name: &str, primary: &str, backend: &str) {
        let keys = self.clients[primary].keys.clone();
        self.add_client(name, backend);
        let c = self.clients.get_mut(name).unwrap();
        c.keys = keys;
    }

    pub fn user_of(&self, pk: &PublicKey) -> String {
        for (n, c) in &self.clients {
            if c.keys.public_key() == *pk {
                return n.clone();
            }
        }
        format!("?{}", &pk.to_hex()[..8])
    }

    pub fn nid_name(&mut self, nid: &[u8; 32]) -> String {
        if let Some(n) = self.nids.get(nid) {
            return n.clone();
        }
        let n = format!("n{}", self.nids.len());
        self.nids.insert(*nid, n.clone());
        n
    }

    fn next_name(&mut self) -> String {
        self.counter += 1;
        format!("e{}", self.counter)
    }

    pub fn real_ts(&self, ts: u64) -> u64 {
        self.base_ts + ts
    }

    fn register_event(
        &mut self,
        event: Event,
        kind: &str,
        g: &str,
        author: &str,
        parent: &str,
        ts: u64,
        rank: u64,
        msg: Option<String>,
    ) -> String {
        let name = self.next_name();
        self.by_id.insert(event.id, name.clone());
        self.events.insert(
            name.clone(),
            EvInfo {
                name: name.clone(),
                event,
                kind: kind.into(),
                g: g.into(),
                author: author.into(),
                parent: parent.into(),
                ts,
                rank,
                msg,
                jclass: String::new(),
            },
        );
        self.ev_order.push(name.clone());
        name
    }

    /// Name the chain a client is on from its epoch authenticator; `hint` is the chain name we
    /// expect it to be on if the authenticator is new.
    pub fn chain_of(&mut self, c: &str, g: &str, hint: Option<&str>) -> String {
        let gid = match self.groups.get(g) {
            Some(gi) => gi.gid.clone(),
            None => return "?nogroup".into(),
        };
        let cl = &self.clients[c];
        let auth = match cl.store.as_ref() {
            Some(s) => with_mdk!(s, m => match m.load_mls_group(&gid) {
                Ok(Some(mg)) => Some((hex::encode(mg.epoch_authenticator().as_slice()), mg.epoch().as_u64())),
                _ => None,
            }),
            None => None,
        };
        let Some((auth, epoch)) = auth else { return "?none".into() };
        if let Some(n) = self.chains.get(&auth) {
            return n.clone();
        }
        if let Some(h) = hint {
            let base = self.groups[g].base;
            let key = format!("{g}/{h}");
            if base + chain_len(h) == epoch && !self.chain_auth.contains_key(&key) {
                self.chains.insert(auth.clone(), h.to_string());
                self.chain_auth.insert(key, auth);
                return h.to_string();
            }
            return format!("?conflict:{h}");
        }
        format!("?unnamed:{}", &auth[..8])
    }
}

impl Client {
    pub fn db_path(&self) -> Option<PathBuf> {
        self.dir.as_ref().map(|d| d.path().join("mdk.db"))
    }
    pub fn open(&mut self) {
        let store = if self.backend == "sql" {
            let st = MdkSqliteStorage::new_with_key(
                self.db_path().unwrap(),
                EncryptionConfig::new(self.db_key),
            )
            .expect("open sqlite");
            Store::Sql(
                MDK::builder(st)
                    .with_config(self.cfg.clone())
                    .with_callback(self.cb.clone())
                    .build(),
            )
        } else {
            Store::Mem(
                MDK::builder(MdkMemoryStorage::default())
                    .with_config(self.cfg.clone())
                    .with_callback(self.cb.clone())
                    .build(),
            )
        };
        self.store = Some(store);
    }
    pub fn restart(&mut self) {
        assert_eq!(self.backend, "sql");
        self.store = None;
        self.open();
    }
    pub fn pk(&self) -> PublicKey {
        self.keys.public_key()
    }
}

pub fn unix_now() -> u64 {
    std::time::SystemTime::now().duration_since(std::time::UNIX_EPOCH).unwrap().as_secs()
}

fn relay(s: &str) -> RelayUrl {
    RelayUrl::parse(s).unwrap()
}

/// Mirror of mdk-core's (crate-private) TLS layout of the group-data extension, for adversarial commits.
#[derive(tls_codec::TlsSerialize, tls_codec::TlsSize)]
struct RawGroupData {
    version: u16,
    nostr_group_id: [u8; 32],
    name: Vec<u8>,
    description: Vec<u8>,
    admin_pubkeys: Vec<[u8; 32]>,
    relays: Vec<Vec<u8>>,
    image_hash: Vec<u8>,
    image_key: Vec<u8>,
    image_nonce: Vec<u8>,
    image_upload_key: Vec<u8>,
}

pub fn id_rank(id: &EventId) -> u64 {
    let b = id.as_bytes();
    ((b[0] as u64) << 16) | ((b[1] as u64) << 8) | (b[2] as u64)
}

fn msg_pa(post: &Value, m: &str) -> u64 {
    post["msgs"].as_array().and_then(|a| a.iter().find(|x| x["id"] == m)).and_then(|x| x["pa"].as_u64()).unwrap_or(0)
}

pub fn needle_forms(bytes: &[u8]) -> Vec<String> {
    let lower = hex::encode(bytes);
    let upper = lower.to_uppercase();
    let list = format!("{:?}", bytes);
    vec![lower, upper, list.clone(), list.replace(", ", ",")]
}

/// Result of executing one action: one trace record (without index).
pub struct StepOut {
    pub rec: Value,
}

impl World {
    pub fn add_needle(&mut self, bytes: &[u8], what: &str) {
        if bytes.len() < 8 { return; }
        for f in needle_forms(bytes) {
            self.needles.entry(f).or_insert_with(|| what.to_string());
        }
    }

    /// Refresh the needle set (group ids, exporter secrets of every stored epoch, db keys) and scan `texts`.
    pub fn scan_leaks(&mut self, c: &str, texts: &[String]) -> Vec<String> {
        let gs: Vec<(String, GroupId)> = self.groups.iter().map(|(n, gi)| (n.clone(), gi.gid.clone())).collect();
        for (gn, gid) in &gs {
            self.add_needle(gid.as_slice(), &format!("mls_group_id({gn})"));
        }
        let nids: Vec<([u8; 32], String)> = self.nids.iter().map(|(k, v)| (*k, v.clone())).collect();
        for (nid, nn) in nids {
            self.add_needle(&nid, &format!("nostr_group_id({nn})"));
        }
        if let Some(cl) = self.clients.get(c) {
            let key = cl.db_key;
            let sql = cl.backend == "sql";
            let mut found: Vec<(Vec<u8>, String)> = vec![];
            if let Some(st) = cl.store.as_ref() {
                for (gn, gid) in &gs {
                    let cur = with_mdk!(st, m => m.get_group(gid)).ok().flatten().map(|g| g.epoch).unwrap_or(0);
                    for ep in cur.saturating_sub(6)..=cur + 1 {
                        use mdk_storage_traits::groups::GroupStorage as _;
                        if let Ok(Some(s)) = with_mdk!(st, m => m.provider.storage().get_group_exporter_secret(gid, ep)) {
                            found.push((s.secret.as_ref().to_vec(), format!("exporter_secret({gn},{ep})")));
                        }
                    }
                }
            }
            for (b, w) in found {
                self.add_needle(&b, &w);
            }
            if sql {
                self.add_needle(&key, "db_key");
            }
        }
        let mut hits: BTreeSet<String> = BTreeSet::new();
        for t in texts {
            for (n, what) in &self.needles {
                if t.contains(n.as_str()) {
                    hits.insert(format!("{what} in: {}", &t[..t.len().min(160)]));
                }
            }
        }
        hits.into_iter().collect()
    }

    fn set_override(&self, ts: u64, rank: u64) {
        let lead = if rank == 0 { None } else { Some((rank.min(15) * 16) as u8) };
        mdk_core::verif_hooks::set_wrapper_override(Some((self.real_ts(ts), lead)));
    }
    fn clear_override(&self) {
        mdk_core::verif_hooks::set_wrapper_override(None);
    }

    pub fn key_package_event(&self, c: &str) -> Event {
        self.key_package_event_ref(c).0
    }

    pub fn key_package_event_ref(&self, c: &str) -> (Event, Vec<u8>) {
        let cl = &self.clients[c];
        let (content, tags, href) = with_mdk!(cl.store.as_ref().unwrap(), m =>
            m.create_key_package_for_event(&cl.pk(), vec![relay("wss://r1.example")]))
        .expect("key package");
        (EventBuilder::new(Kind::MlsKeyPackage, content)
            .tags(tags)
            .sign_with_keys(&cl.keys)
            .expect("sign kp"), href)
    }

    /// Routine key-package rotation: the invitee deletes the key package invitation `w` was built for.
    pub fn op_dropkp(&mut self, c: &str, w: &str) -> Value {
        let wi = &self.welcomes[w];
        let g = wi.g.clone();
        let href = wi.kp_ref.clone();
        let cl = &self.clients[c];
        let res = if wi.to != c || href.is_empty() { "Skip" } else {
            let r = catch_unwind(AssertUnwindSafe(|| with_mdk!(cl.store.as_ref().unwrap(), m => m.delete_key_package_from_storage_by_hash_ref(&href))));
            match r { Err(_) => "Panic", Ok(Err(e)) => { crate::logcap::push(format!("ERRVAL {e} || {e:?}")); "Err" }, Ok(Ok(())) => "Ok" }
        };
        json!({"op":"DropKP","c":c,"w":w,"g":g,"res":res,"post":self.project(c,&g)})
    }

    /// Create group `g` at client `c` with `members` (all process+accept their welcome at once).
    pub fn op_create(&mut self, c: &str, g: &str, members: &[String], admins: &[String]) -> Value {
        let kps: Vec<Event> = members.iter().map(|m| self.key_package_event(m)).collect();
        let admin_pks: Vec<PublicKey> = admins.iter().map(|a| self.clients[a].pk()).collect();
        let cfg = NostrGroupConfigData::new(
            format!("name0-{g}"),
            format!("desc0-{g}"),
            None,
            None,
            None,
            vec![relay("wss://r1.example")],
            admin_pks,
        );
        let cl = &self.clients[c];
        let res = with_mdk!(cl.store.as_ref().unwrap(), m => m.create_group(&cl.pk(), kps, cfg))
            .expect("create_group");
        let gid = res.group.mls_group_id.clone();
        let base = res.group.epoch;
        self.groups.insert(g.to_string(), GroupInfo { gid: gid.clone(), base });
        let res_nid = res.group.nostr_group_id;
        let _ = self.nid_name(&res_nid);
        let chain = self.chain_of(c, g, Some(""));
        assert_eq!(chain, "");
        for (i, rumor) in res.welcome_rumors.into_iter().enumerate() {
            let to = members[i].clone();
            let wid = EventId::from_slice(&rand::random::<[u8; 32]>()).unwrap();
            let mc = &self.clients[&to];
            let w = with_mdk!(mc.store.as_ref().unwrap(), m => m.process_welcome(&wid, &rumor))
                .expect("process_welcome");
            with_mdk!(mc.store.as_ref().unwrap(), m => m.accept_welcome(&w)).expect("accept");
            let ch = self.chain_of(&to, g, None);
            assert_eq!(ch, "", "joiner must share creator's state");
        }
        let mut parts: Vec<String> = vec![c.to_string()];
        parts.extend(members.iter().cloned());
        let mut posts: Vec<Value> = vec![];
        for p in &parts {
            posts.push(json!({"c":p,"post":self.project(p, g)}));
        }
        let nid = self.nid_name(&res_nid);
        json!({"op":"Create","c":c,"g":g,"members":members,"admins":admins,"base":base,"nid":nid,"posts":posts})
    }

    fn gid(&self, g: &str) -> GroupId {
        self.groups[g].gid.clone()
    }

    /// Local commit-producing operation.
    pub fn op_commit(&mut self, c: &str, g: &str, kind: &str, arg: &Value, ts: u64, rank: u64) -> Value {
        let gid = self.gid(g);
        let parent = self.chain_of(c, g, None);
        self.set_override(ts, rank);
        let mut added: Vec<String> = vec![];
        let mut kp_refs: Vec<Vec<u8>> = vec![];
        let rot_nid: [u8; 32] = match arg.as_str().filter(|a| a.starts_with('=')) {
            // hostile admin: rotate onto an id that already belongs to another group
            Some(a) => self.nids.iter().find(|(_, n)| n.as_str() == &a[1..]).map(|(k, _)| *k).unwrap_or_else(rand::random),
            None => rand::random(),
        };
        let arg_owned: Value = if kind == "rotate" { json!(self.nid_name(&rot_nid)) } else if kind == "self_update" { json!("") } else { arg.clone() };
        let arg = &arg_owned;
        let cl = &self.clients[c];
        let st = cl.store.as_ref().unwrap();
        let r = catch_unwind(AssertUnwindSafe(|| match kind {
            "self_update" => with_mdk!(st, m => m.self_update(&gid)),
            "rename" => {
                let upd = NostrGroupDataUpdate::new().name(arg.as_str().unwrap_or("nm").to_string());
                with_mdk!(st, m => m.update_group_data(&gid, upd))
            }
            "redesc" => {
                let upd = NostrGroupDataUpdate::new().description(arg.as_str().unwrap_or("ds").to_string());
                with_mdk!(st, m => m.update_group_data(&gid, upd))
            }
            "relays" => {
                let rs: Vec<RelayUrl> = arg.as_array().map(|a| a.iter().map(|x| relay(x.as_str().unwrap())).collect()).unwrap_or_default();
                let upd = NostrGroupDataUpdate::new().relays(rs);
                with_mdk!(st, m => m.update_group_data(&gid, upd))
            }
            "admins" => {
                let pks: Vec<PublicKey> = arg.as_array().unwrap().iter().map(|x| self.clients[x.as_str().unwrap()].pk()).collect();
                let upd = NostrGroupDataUpdate::new().admins(pks);
                with_mdk!(st, m => m.update_group_data(&gid, upd))
            }
            "rotate" => {
                let nid: [u8; 32] = rot_nid;
                let upd = NostrGroupDataUpdate::new().nostr_group_id(nid);
                with_mdk!(st, m => m.update_group_data(&gid, upd))
            }
            "remove" => {
                let pks: Vec<PublicKey> = arg.as_array().unwrap().iter().map(|x| self.clients[x.as_str().unwrap()].pk()).collect();
                with_mdk!(st, m => m.remove_members(&gid, &pks))
            }
            "add" => {
                let names: Vec<String> = arg.as_array().unwrap().iter().map(|x| x.as_str().unwrap().to_string()).collect();
                let kpr: Vec<(Event, Vec<u8>)> = names.iter().map(|n| self.key_package_event_ref(n)).collect();
                let kps: Vec<Event> = kpr.iter().map(|x| x.0.clone()).collect();
                kp_refs = kpr.into_iter().map(|x| x.1).collect();
                added = names;
                with_mdk!(st, m => m.add_members(&gid, &kps))
            }
            _ => panic!("unknown commit kind {kind}"),
        }));
        self.clear_override();
        let (res, ename, welcomes) = match r {
            Err(_) => ("Panic".to_string(), None, vec![]),
            Ok(Err(e)) => { crate::logcap::push(format!("ERRVAL {e} || {e:?}")); ("Err".to_string(), None, vec![]) }
            Ok(Ok(ugr)) => {
                let name = self.register_event(ugr.evolution_event.clone(), "commit", g, c, &parent, ts, rank, None);
                self.pending_name.insert((c.to_string(), g.to_string()), name.clone());
                let mut wnames = vec![];
                if let Some(rumors) = ugr.welcome_rumors {
                    for (i, rumor) in rumors.into_iter().enumerate() {
                        let wn = format!("w{}", self.welcomes.len() + 1);
                        let wid = EventId::from_slice(&rand::random::<[u8; 32]>()).unwrap();
                        self.welcomes.insert(
                            wn.clone(),
                            WelcomeInfo {
                                rumor,
                                to: added.get(i).cloned().unwrap_or_default(),
                                from_commit: Some(name.clone()),
                                chain: chain_push(&parent, &name),
                                g: g.to_string(),
                                wrappers: vec![wid],
                                kp_ref: kp_refs.get(i).cloned().unwrap_or_default(),
                            },
                        );
                        wnames.push(wn);
                    }
                }
                ("Ok".to_string(), Some(name), wnames)
            }
        };
        json!({"op":"Commit","c":c,"g":g,"kind":kind,"arg":arg,"ts":ts,"rank":rank,"now":0,"res":res,
               "e":ename.unwrap_or_default(),"parent":chain_json(&parent),"welcomes":welcomes,"post":self.project(c,g)})
    }

    pub fn op_merge(&mut self, c: &str, g: &str) -> Value {
        let gid = self.gid(g);
        let parent = self.chain_of(c, g, None);
        let pn = self.pending_name.get(&(c.to_string(), g.to_string())).cloned();
        let cl = &self.clients[c];
        let r = catch_unwind(AssertUnwindSafe(|| with_mdk!(cl.store.as_ref().unwrap(), m => m.merge_pending_commit(&gid))));
        let res = match r { Err(_) => "Panic", Ok(Err(e)) => { crate::logcap::push(format!("ERRVAL {e} || {e:?}")); "Err" }, Ok(Ok(())) => "Ok" };
        let hint = pn.as_ref().map(|p| chain_push(&parent, p));
        let _ = self.chain_of(c, g, hint.as_deref());
        json!({"op":"Merge","c":c,"g":g,"res":res,"post":self.project(c,g)})
    }

    pub fn op_clear(&mut self, c: &str, g: &str) -> Value {
        let gid = self.gid(g);
        let cl = &self.clients[c];
        let r = catch_unwind(AssertUnwindSafe(|| with_mdk!(cl.store.as_ref().unwrap(), m => m.clear_pending_commit(&gid))));
        let res = match r { Err(_) => "Panic", Ok(Err(e)) => { crate::logcap::push(format!("ERRVAL {e} || {e:?}")); "Err" }, Ok(Ok(())) => "Ok" };
        json!({"op":"Clear","c":c,"g":g,"res":res,"post":self.project(c,g)})
    }

    pub fn op_send(&mut self, c: &str, g: &str, ts: u64, rank: u64, rumor_ts: u64) -> Value {
        let gid = self.gid(g);
        let parent = self.chain_of(c, g, None);
        self.set_override(ts, rank);
        let cl = &self.clients[c];
        let mname = format!("m{}", self.msgs.len() + 1);
        let rumor = EventBuilder::new(Kind::Custom(9), format!("text-{mname}"))
            .custom_created_at(nostr::Timestamp::from_secs(self.real_ts(rumor_ts)))
            .build(cl.pk());
        let r = catch_unwind(AssertUnwindSafe(|| with_mdk!(cl.store.as_ref().unwrap(), m => m.create_message(&gid, rumor.clone()))));
        self.clear_override();
        let mut idr = 0u64;
        let (res, ename) = match r {
            Err(_) => ("Panic", None),
            Ok(Err(e)) => { crate::logcap::push(format!("ERRVAL {e} || {e:?}")); ("Err", None) }
            Ok(Ok(ev)) => {
                let mut rr = rumor.clone();
                let rid = rr.id();
                idr = id_rank(&rid);
                self.msgs.insert(rid, mname.clone());
                let n = self.register_event(ev, "app", g, c, &parent, ts, rank, Some(mname.clone()));
                ("Ok", Some(n))
            }
        };
        let post = self.project(c, g);
        let now = msg_pa(&post, &mname);
        json!({"op":"Send","c":c,"g":g,"ts":ts,"rank":rank,"now":now,"mts":rumor_ts,"res":res,"e":ename.unwrap_or_default(),"m":mname,
               "claimed":c,"content":format!("text-{mname}"),"idr":idr,
               "parent":chain_json(&parent),"post":post})
    }

    pub fn op_leave(&mut self, c: &str, g: &str, ts: u64, rank: u64) -> Value {
        let gid = self.gid(g);
        let parent = self.chain_of(c, g, None);
        self.set_override(ts, rank);
        let cl = &self.clients[c];
        let r = catch_unwind(AssertUnwindSafe(|| with_mdk!(cl.store.as_ref().unwrap(), m => m.leave_group(&gid))));
        self.clear_override();
        let (res, ename) = match r {
            Err(_) => ("Panic", None),
            Ok(Err(e)) => { crate::logcap::push(format!("ERRVAL {e} || {e:?}")); ("Err", None) }
            Ok(Ok(ugr)) => {
                let n = self.register_event(ugr.evolution_event, "prop", g, c, &parent, ts, rank, None);
                ("Ok", Some(n))
            }
        };
        json!({"op":"Leave","c":c,"g":g,"ts":ts,"rank":rank,"now":0,"res":res,"e":ename.unwrap_or_default(),"parent":chain_json(&parent),"post":self.project(c,g)})
    }

    /// Hand event `e` to client `c`. `ots/orank` = override for any event the call itself creates.
    pub fn op_deliver(&mut self, c: &str, e: &str, ots: u64, orank: u64) -> Value {
        let info = self.events[e].clone();
        let g = info.g.clone();
        let before = self.chain_of(c, &g, None);
        let cb_before = self.clients[c].cb.0.lock().unwrap().len();
        self.set_override(ots, orank);
        let t0 = unix_now();
        let cl = &self.clients[c];
        let r = catch_unwind(AssertUnwindSafe(|| with_mdk!(cl.store.as_ref().unwrap(), m => m.process_message(&info.event))));
        let t1 = unix_now();
        self.clear_override();
        self.note_snapshots(c, &g, t0, t1);
        let mut out: Option<String> = None;
        let res = match &r {
            Err(_) => "Panic".to_string(),
            Ok(r) => {
                match r {
                    Ok(v) => crate::logcap::push(format!("RESVAL {v:?}")),
                    Err(e) => crate::logcap::push(format!("ERRVAL {e} || {e:?}")),
                }
                res_class(r)
            }
        };
        if let Ok(Ok(MessageProcessingResult::Proposal(ugr))) = r {
            let n = self.register_event(ugr.evolution_event, "commit", &g, c, &before, ots, orank, None);
            self.pending_name.insert((c.to_string(), g.clone()), n.clone());
            out = Some(n);
        }
        // Name the chain we may have landed on.
        // (a tampered copy of one's own commit makes the client merge its *pending* commit)
        let hint = if info.kind == "commit" {
            Some(chain_push(&info.parent, e))
        } else if info.kind == "junk" {
            // the client merged one of its own commits (possibly after a rollback restored an older pending one):
            // name the chain only if exactly one own commit fits the epoch reached
            let epoch_now = {
                let gid = self.groups[&g].gid.clone();
                let cl = &self.clients[c];
                with_mdk!(cl.store.as_ref().unwrap(), m => m.load_mls_group(&gid)).ok().flatten().map(|mg| mg.epoch().as_u64()).unwrap_or(0)
            };
            let base = self.groups[&g].base;
            let cands: Vec<String> = self.events.values()
                .filter(|k| k.kind == "commit" && k.author == c && k.g == g && base + chain_len(&k.parent) + 1 == epoch_now
                    && !self.chain_auth.contains_key(&format!("{g}/{}", chain_push(&k.parent, &k.name))))
                .map(|k| chain_push(&k.parent, &k.name)).collect();
            if cands.len() == 1 { Some(cands[0].clone()) } else { None }
        } else {
            None
        };
        let _ = self.chain_of(c, &g, hint.as_deref());
        let cbs: Vec<Value> = {
            let log = self.clients[c].cb.0.lock().unwrap();
            log[cb_before..]
                .iter()
                .map(|i| {
                    json!({"target": i.target_epoch,
                       "head": self.by_id.get(&i.new_head_event).cloned().unwrap_or("?".into()),
                       "invalidated": i.invalidated_messages.iter().map(|x| self.msgs.get(x).cloned().unwrap_or("?".into())).collect::<BTreeSet<_>>(),
                       "refetch": i.messages_needing_refetch.iter().map(|x| self.by_id.get(x).cloned().unwrap_or("?".into())).collect::<BTreeSet<_>>()})
                })
                .collect()
        };
        let post = self.project(c, &g);
        let now = info.msg.as_ref().map(|m| msg_pa(&post, m)).unwrap_or(0);
        json!({"op":"Deliver","c":c,"g":g,"e":e,"ts":ots,"rank":orank,"now":now,"t":t1,"res":res,"out":out.unwrap_or_default(),"rollbacks":cbs,"post":post})
    }


    /// Build a hostile / malformed wrapper event of class `class` for group `g` (using client `c`'s view of the
    /// group: current nostr id and exporter secret) and publish it. Returns the trace record of its creation.
    pub fn op_junk(&mut self, c: &str, g: &str, class: &str, ts: u64, rank: u64, base_name: &str) -> Value {
        use mdk_storage_traits::groups::GroupStorage as _;
        use nostr::nips::nip44;
        let gid = self.gid(g);
        let parent = self.chain_of(c, g, None);
        let cl = &self.clients[c];
        let st = cl.store.as_ref().unwrap();
        let rec = with_mdk!(st, m => m.get_group(&gid)).ok().flatten();
        let Some(rec) = rec else { return json!({"op":"Junk","c":c,"g":g,"class":class,"res":"Err","e":""}) };
        // a real event to tamper with (if requested): we need the exporter secret of ITS epoch
        let base = if base_name.is_empty() { None } else { self.events.get(base_name).cloned() };
        let base_epoch = base.as_ref().map(|b| self.groups[g].base + chain_len(&b.parent)).unwrap_or(rec.epoch);
        let secret = with_mdk!(st, m => m.provider.storage().get_group_exporter_secret(&gid, base_epoch)).ok().flatten();
        let keys_from = |sec: &[u8; 32]| Keys::new(nostr::SecretKey::from_slice(sec).unwrap());
        let real_ts = self.real_ts(ts);
        let nid_hex = hex::encode(rec.nostr_group_id);
        let rnd = |n: usize| -> Vec<u8> { (0..n).map(|_| rand::random::<u8>()).collect() };
        let mut kind = Kind::MlsGroupMessage;
        let mut tags: Vec<nostr::Tag> = vec![nostr::Tag::custom(nostr::TagKind::h(), [nid_hex.clone()])];
        let mut created = real_ts;
        let mut content = String::new();
        let mut needs_secret = false;
        match class {
            "badkind" => { kind = Kind::MlsWelcome; }
            "noh" => { tags = vec![]; }
            "multih" => { tags.push(nostr::Tag::custom(nostr::TagKind::h(), [nid_hex.clone()])); }
            "shorth" => { tags = vec![nostr::Tag::custom(nostr::TagKind::h(), ["abcdef0123".to_string()])]; }
            "nonhexh" => { tags = vec![nostr::Tag::custom(nostr::TagKind::h(), ["z".repeat(64)])]; }
            "stale" => { created = nostr::Timestamp::now().as_secs() - 60 * 86400; }
            "future" => { created = nostr::Timestamp::now().as_secs() + 7200; }
            "nogroup" => { tags = vec![nostr::Tag::custom(nostr::TagKind::h(), [hex::encode(rand::random::<[u8; 32]>())])]; }
            "undecryptable" => {
                let k = Keys::generate();
                content = nip44::encrypt(k.secret_key(), &k.public_key, rnd(80), nip44::Version::default()).unwrap();
            }
            "mlsjunk" | "truncated" | "bitflip" => { needs_secret = true; }
            _ => panic!("unknown junk class {class}"),
        }
        if needs_secret {
            let Some(sec) = secret else { return json!({"op":"Junk","c":c,"g":g,"class":class,"res":"Err","e":""}) };
            let k = keys_from(sec.secret.as_ref());
            let payload: Vec<u8> = match (class, &base) {
                ("mlsjunk", _) | (_, None) => rnd(120),
                (_, Some(b)) => {
                    let Ok(plain) = nip44::decrypt_to_bytes(k.secret_key(), &k.public_key, &b.event.content) else {
                        return json!({"op":"Junk","c":c,"g":g,"class":class,"res":"Err","e":"","base":base_name});
                    };
                    if class == "truncated" { plain[..plain.len() / 2].to_vec() } else {
                        let mut p = plain.clone();
                        let i = p.len() - 1 - (rand::random::<usize>() % (p.len() / 4).max(1));
                        p[i] ^= 0x40;
                        p
                    }
                }
            };
            content = nip44::encrypt(k.secret_key(), &k.public_key, payload, nip44::Version::default()).unwrap();
        } else if content.is_empty() {
            // otherwise a copy of a valid content (or junk) — validation fails before it is looked at
            content = base.as_ref().map(|b| b.event.content.clone()).unwrap_or_else(|| "AAAA".to_string());
        }
        let lead = if rank == 0 { None } else { Some((rank.min(15) * 16) as u8) };
        let ev = loop {
            let ek = Keys::generate();
            let ev = EventBuilder::new(kind, content.clone())
                .tags(tags.clone())
                .custom_created_at(nostr::Timestamp::from_secs(created))
                .sign_with_keys(&ek)
                .expect("sign junk");
            if lead.is_none_or(|b| ev.id.as_bytes()[0] == b) { break ev; }
        };
        let parent = if class == "bitflip" || class == "truncated" { base.as_ref().map(|b| b.parent.clone()).unwrap_or(parent) } else { parent };
        let tagname = match class { "noh" | "multih" | "shorth" | "nonhexh" | "nogroup" => String::new(), _ => self.nid_name(&rec.nostr_group_id) };
        let name = self.register_event(ev, "junk", g, "", &parent, ts, rank, None);
        self.events.get_mut(&name).unwrap().jclass = class.to_string();
        let blog = if class == "bitflip" || class == "truncated" { base_name } else { "" };
        json!({"op":"Junk","c":c,"g":g,"class":class,"res":"Ok","e":name,"tag":tagname,"base":blog,"parent":chain_json(&parent),"ts":ts,"rank":rank,"now":0})
    }


    // ------------------------------------------------------------------------------------------------
    // Adversarial member (C04 / C05): a real member that bypasses mdk's sender-side checks.

    /// A member encrypts a rumor with an arbitrary `pubkey` field (claimed author) and an optionally pre-set id
    /// through the public create_message. idclass: "none" | "random" | "other:<message name>".
    pub fn op_forge(&mut self, c: &str, g: &str, claimed: &str, idclass: &str, ts: u64, rumor_ts: u64) -> Value {
        let gid = self.gid(g);
        let parent = self.chain_of(c, g, None);
        self.set_override(ts, 0);
        let claimed_pk = self.clients[claimed].pk();
        let fresh = format!("m{}", self.msgs.len() + 1);
        let content = format!("forged-{fresh}");
        let mut rumor = EventBuilder::new(Kind::Custom(9), content.clone())
            .custom_created_at(nostr::Timestamp::from_secs(self.real_ts(rumor_ts)))
            .build(claimed_pk);
        let true_id = { let mut r2 = rumor.clone(); r2.id = None; r2.id() };
        let mut preset_name = String::new();
        match idclass {
            "none" => { rumor.id = None; }
            "random" => { rumor.id = Some(EventId::from_slice(&rand::random::<[u8; 32]>()).unwrap()); preset_name = format!("{fresh}r"); }
            x if x.starts_with("other:") => {
                let target = &x[6..];
                if let Some((id, _)) = self.msgs.iter().find(|(_, n)| n.as_str() == target) {
                    rumor.id = Some(*id);
                    preset_name = target.to_string();
                }
            }
            _ => {}
        }
        let cl = &self.clients[c];
        let r = catch_unwind(AssertUnwindSafe(|| with_mdk!(cl.store.as_ref().unwrap(), m => m.create_message(&gid, rumor.clone()))));
        self.clear_override();
        let (res, ename) = match r {
            Err(_) => ("Panic", None),
            Ok(Err(e)) => { crate::logcap::push(format!("ERRVAL {e} || {e:?}")); ("Err", None) }
            Ok(Ok(ev)) => {
                self.msgs.entry(true_id).or_insert(fresh.clone());
                if let Some(pid) = rumor.id { if idclass == "random" { self.msgs.entry(pid).or_insert(format!("{fresh}r")); } }
                let n = self.register_event(ev, "app", g, c, &parent, ts, 0, Some(fresh.clone()));
                ("Ok", Some(n))
            }
        };
        let post = self.project(c, g);
        json!({"op":"Forge","c":c,"g":g,"ts":ts,"rank":0,"now":msg_pa(&post, &fresh),"mts":rumor_ts,"res":res,"e":ename.unwrap_or_default(),
               "m":fresh,"claimed":claimed,"content":content,"idr":id_rank(&true_id),"idclass":idclass,"preset":preset_name,
               "parent":chain_json(&parent),"post":post})
    }

    /// Wrap a serialized MLS message exactly like mdk's build_message_event (NIP-44 under the exporter secret of the
    /// client's current epoch, ephemeral signer, h tag = nostr id in force at that client).
    fn wrap_raw(&self, c: &str, g: &str, payload: Vec<u8>, ts: u64, rank: u64) -> Option<Event> {
        use mdk_storage_traits::groups::GroupStorage as _;
        use nostr::nips::nip44;
        let gid = self.gid(g);
        let cl = &self.clients[c];
        let st = cl.store.as_ref().unwrap();
        let rec = with_mdk!(st, m => m.get_group(&gid)).ok().flatten()?;
        let mg = with_mdk!(st, m => m.load_mls_group(&gid)).ok().flatten()?;
        let _ = mg;
        let sec = with_mdk!(st, m => m.provider.storage().get_group_exporter_secret(&gid, rec.epoch)).ok().flatten()?;
        let k = Keys::new(nostr::SecretKey::from_slice(sec.secret.as_ref()).ok()?);
        let content = nip44::encrypt(k.secret_key(), &k.public_key, payload, nip44::Version::default()).ok()?;
        let lead = if rank == 0 { None } else { Some((rank.min(15) * 16) as u8) };
        loop {
            let ek = Keys::generate();
            let ev = EventBuilder::new(Kind::MlsGroupMessage, content.clone())
                .tag(nostr::Tag::custom(nostr::TagKind::h(), [hex::encode(rec.nostr_group_id)]))
                .custom_created_at(nostr::Timestamp::from_secs(self.real_ts(ts)))
                .sign_with_keys(&ek)
                .ok()?;
            if lead.is_none_or(|b| ev.id.as_bytes()[0] == b) { return Some(ev); }
        }
    }

    /// A member builds a commit / proposal directly with OpenMLS, bypassing mdk's admin checks.
    /// kind: "rename" (group-context-extension change), "remove" (arg = [user]), "admins_self" (adds itself to the
    /// admin list), "prop_remove" (a Remove proposal for arg[0], not committed).
    pub fn op_raw(&mut self, c: &str, g: &str, kind: &str, arg: &Value, ts: u64, rank: u64) -> Value {
        use openmls::prelude::*;
        use openmls_basic_credential::SignatureKeyPair;
        use tls_codec::Serialize as _;
        let gid = self.gid(g);
        let parent = self.chain_of(c, g, None);
        let fail = |why: &str| json!({"op":"Raw","c":c,"g":g,"kind":kind,"arg":arg,"res":"Err","why":why,"e":"","ts":ts,"rank":rank,"now":0});
        let target_pk: Option<PublicKey> = arg.as_array().and_then(|a| a.first()).and_then(|x| x.as_str()).map(|n| self.clients[n].pk());
        // the wrapper needs the stored exporter secret of the current epoch: check before touching the MLS group
        {
            use mdk_storage_traits::groups::GroupStorage as _;
            let cl = &self.clients[c];
            let st = cl.store.as_ref().unwrap();
            let ok = with_mdk!(st, m => m.get_group(&gid)).ok().flatten()
                .and_then(|rec| with_mdk!(st, m => m.provider.storage().get_group_exporter_secret(&gid, rec.epoch)).ok().flatten()).is_some();
            if !ok { return fail("no stored exporter secret yet"); }
        }
        let cl = &self.clients[c];
        let st = cl.store.as_ref().unwrap();
        let own_pk = cl.pk();
        let payload: Result<Vec<u8>, String> = with_mdk!(st, m => (|| -> Result<Vec<u8>, String> {
            let mut mg = m.load_mls_group(&gid).map_err(|e| e.to_string())?.ok_or("no group")?;
            if mg.pending_commit().is_some() { return Err("pending commit".into()); }
            let own_leaf = mg.own_leaf().ok_or("no leaf")?;
            let signer = SignatureKeyPair::read(m.provider.storage(), own_leaf.signature_key().as_slice(), mg.ciphersuite().signature_algorithm()).ok_or("no signer")?;
            let leaf_of = |mg: &MlsGroup, pk: &PublicKey| -> Option<LeafNodeIndex> {
                mg.members().find(|mb| BasicCredential::try_from(mb.credential.clone()).ok().and_then(|bc| PublicKey::from_slice(bc.identity()).ok()) == Some(*pk)).map(|mb| mb.index)
            };
            let out = match kind {
                "remove" => {
                    let idx = leaf_of(&mg, &target_pk.ok_or("no target")?).ok_or("target not member")?;
                    mg.remove_members(&m.provider, &signer, &[idx]).map_err(|e| e.to_string())?.0
                }
                "prop_remove" => {
                    let idx = leaf_of(&mg, &target_pk.ok_or("no target")?).ok_or("target not member")?;
                    mg.propose_remove_member(&m.provider, &signer, idx).map_err(|e| e.to_string())?.0
                }
                "rename" | "admins_self" => {
                    let mut gd = NostrGroupDataExtension::from_group(&mg).map_err(|e| e.to_string())?;
                    if kind == "rename" { gd.set_name(arg.as_str().unwrap_or("rawname").to_string()); } else { gd.add_admin(own_pk); }
                    let raw = RawGroupData {
                        version: gd.version, nostr_group_id: gd.nostr_group_id, name: gd.name.as_bytes().to_vec(),
                        description: gd.description.as_bytes().to_vec(),
                        admin_pubkeys: gd.admins.iter().map(|p| *p.as_bytes()).collect(),
                        relays: gd.relays.iter().map(|u| u.to_string().into_bytes()).collect(),
                        image_hash: gd.image_hash.map(|h| h.to_vec()).unwrap_or_default(),
                        image_key: gd.image_key.map(|h| h.to_vec()).unwrap_or_default(),
                        image_nonce: gd.image_nonce.map(|h| h.to_vec()).unwrap_or_default(),
                        image_upload_key: gd.image_upload_key.map(|h| h.to_vec()).unwrap_or_default(),
                    };
                    let bytes = raw.tls_serialize_detached().map_err(|e| e.to_string())?;
                    let ext = Extension::Unknown(gd.extension_type(), UnknownExtension(bytes));
                    let mut exts = mg.extensions().clone();
                    exts.add_or_replace(ext).map_err(|e| e.to_string())?;
                    mg.update_group_context_extensions(&m.provider, exts, &signer).map_err(|e| e.to_string())?.0
                }
                "update_identity" | "prop_update" => {
                    // a leaf update whose credential carries ANOTHER member's Nostr identity but keeps the own signature key
                    let ident = if kind == "update_identity" { target_pk.ok_or("no target")? } else { own_pk };
                    let cwk = CredentialWithKey {
                        credential: BasicCredential::new(ident.to_bytes().to_vec()).into(),
                        signature_key: own_leaf.signature_key().clone(),
                    };
                    let params = LeafNodeParameters::builder().with_credential_with_key(cwk).build();
                    if kind == "update_identity" {
                        mg.self_update(&m.provider, &signer, params).map_err(|e| e.to_string())?.into_commit()
                    } else {
                        mg.propose_self_update(&m.provider, &signer, params).map_err(|e| e.to_string())?.0
                    }
                }
                _ => return Err("unknown raw kind".into()),
            };
            out.tls_serialize_detached().map_err(|e| e.to_string())
        })());
        let payload = match payload { Ok(p) => p, Err(e) => return fail(&e) };
        let Some(ev) = self.wrap_raw(c, g, payload, ts, rank) else { return fail("wrap") };
        let ekind = if kind == "prop_remove" || kind == "prop_update" { "prop" } else { "commit" };
        let name = self.register_event(ev, ekind, g, c, &parent, ts, rank, None);
        if ekind == "commit" { self.pending_name.insert((c.to_string(), g.to_string()), name.clone()); }
        json!({"op":"Raw","c":c,"g":g,"kind":kind,"arg":arg,"res":"Ok","e":name,"ts":ts,"rank":rank,"now":0,
               "parent":chain_json(&parent),"post":self.project(c,g)})
    }

    /// The driver's own clock for snapshot ages (never the store's created_at stamps, which are only used to notice a retake).
    fn note_snapshots(&mut self, c: &str, g: &str, t0: u64, t1: u64) {
        let gid = match self.groups.get(g) { Some(gi) => gi.gid.clone(), None => return };
        let listed: Vec<(String, u64)> = {
            let cl = &self.clients[c];
            match cl.store.as_ref() { Some(st) => with_mdk!(st, m => m.provider.storage().list_group_snapshots(&gid)).unwrap_or_default(), None => vec![] }
        };
        let cl = self.clients.get_mut(c).unwrap();
        let names: BTreeSet<String> = listed.iter().map(|(n, _)| n.clone()).collect();
        cl.snap_born.retain(|(gg, n), _| gg != g || names.contains(n));
        for (n, stamp) in listed {
            let k = (g.to_string(), n);
            match cl.snap_born.get(&k) {
                Some((_, _, st)) if *st == stamp => {}
                _ => { cl.snap_born.insert(k, (t0, t1, stamp)); }
            }
        }
    }

    /// Reopen the database. With `ttl` the new instance is built with snapshot_ttl_seconds = ttl; the driver first waits
    /// until, by its own clock, every stored snapshot is either surely older or surely younger than the TTL at start-up.
    pub fn op_restart(&mut self, c: &str, ttl: Option<u64>) -> Value {
        let mut line = json!({"op":"Restart","c":c});
        if let Some(ttl) = ttl {
            let mut now;
            loop {
                now = unix_now();
                // the build may run in second `now` or `now + 1`; a snapshot was taken in [t0, t1]
                let unsure = self.clients[c].snap_born.values().any(|(t0, t1, _)| {
                    let surely_old = (*t1 as i64) < now as i64 - ttl as i64;
                    let surely_young = (*t0 as i64) >= now as i64 + 1 - ttl as i64;
                    !(surely_old || surely_young)
                });
                if !unsure { break; }
                std::thread::sleep(std::time::Duration::from_millis(250));
            }
            let cl = self.clients.get_mut(c).unwrap();
            cl.cfg.snapshot_ttl_seconds = ttl;
            line["ttl"] = json!(ttl);
            line["now"] = json!(now);
        }
        self.clients.get_mut(c).unwrap().restart();
        let gs: Vec<String> = self.groups.keys().cloned().collect();
        let mut posts: Vec<Value> = vec![];
        for g in gs {
            let (t0, t1) = (unix_now(), unix_now());
            self.note_snapshots(c, &g, t0, t1);
            posts.push(json!({"g":g,"post":self.project(c, &g)}));
        }
        line["posts"] = json!(posts);
        line
    }

    pub fn op_welcome(&mut self, c: &str, w: &str, what: &str, fresh: bool) -> Value {
        if fresh {
            let wid = EventId::from_slice(&rand::random::<[u8; 32]>()).unwrap();
            self.welcomes.get_mut(w).unwrap().wrappers.push(wid);
        }
        let wi = &self.welcomes[w];
        let xi = wi.wrappers.len();
        let wrapper = wi.wrappers[xi - 1];
        let xname = format!("{w}x{xi}");
        let g = wi.g.clone();
        let chain = wi.chain.clone();
        let cl = &self.clients[c];
        let st = cl.store.as_ref().unwrap();
        let res: String = match what {
            "process" => {
                let r = catch_unwind(AssertUnwindSafe(|| with_mdk!(st, m => m.process_welcome(&wrapper, &wi.rumor))));
                match r { Err(_) => "Panic".into(), Ok(Err(e)) => { crate::logcap::push(format!("ERRVAL {e} || {e:?}")); "Err" }.into(), Ok(Ok(_)) => "Ok".into() }
            }
            "accept" | "decline" => {
                let stored: Option<Welcome> = wi.rumor.id.and_then(|id| with_mdk!(st, m => m.get_welcome(&id)).ok().flatten());
                match stored {
                    None => "NoWelcome".into(),
                    Some(wl) => {
                        let r = catch_unwind(AssertUnwindSafe(|| if what == "accept" {
                            with_mdk!(st, m => m.accept_welcome(&wl))
                        } else {
                            with_mdk!(st, m => m.decline_welcome(&wl))
                        }));
                        match r { Err(_) => "Panic".into(), Ok(Err(e)) => { crate::logcap::push(format!("ERRVAL {e} || {e:?}")); "Err" }.into(), Ok(Ok(())) => "Ok".into() }
                    }
                }
            }
            _ => panic!("bad welcome op"),
        };
        if what == "accept" {
            let _ = self.chain_of(c, &g, Some(&chain));
        }
        // a welcome call must not touch any OTHER group the client holds
        let hs: Vec<String> = self.groups.keys().filter(|h| **h != g).cloned().collect();
        let mut others: Vec<Value> = vec![];
        for h in hs { let p = self.project(c, &h); others.push(json!({"g":h,"post":p})); }
        json!({"op":"Welcome","c":c,"g":g,"w":w,"x":xname,"what":what,"res":res,"chain":chain_json(&chain),"post":self.project(c,&g),"posts":others})
    }

    /// Projection of client `c`'s view of group `g` to the abstract state (null-free JSON).
    pub fn project(&mut self, c: &str, g: &str) -> Value {
        let none = json!({"st":"none","mls":"none","msgs":[],"proc":[],"snaps":[],"prem":[],"padd":[],"nsu":false,"listed":false,"pwel":[]});
        let Some(gi) = self.groups.get(g) else { return none };
        let gid = gi.gid.clone();
        let chain = self.chain_of(c, g, None);
        let cl = &self.clients[c];
        let st = cl.store.as_ref().unwrap();
        let rec = with_mdk!(st, m => m.get_group(&gid)).ok().flatten();
        let mls = with_mdk!(st, m => m.load_mls_group(&gid)).ok().flatten();
        let mut o = serde_json::Map::new();
        o.insert("st".into(), json!(rec.as_ref().map(|r| r.state.as_str().to_string()).unwrap_or("none".into())));
        o.insert("chain".into(), chain_json(&chain));
        o.insert("chain_ok".into(), json!(!chain.starts_with('?')));
        if let Some(rec) = &rec {
            let nid_rec = rec.nostr_group_id;
            let rec_admins: BTreeSet<String> = rec.admin_pubkeys.iter().map(|p| self.user_of(p)).collect();
            let relays: BTreeSet<String> = with_mdk!(st, m => m.get_relays(&gid))
                .map(|s| s.into_iter().map(|r| r.to_string()).collect())
                .unwrap_or_default();
            let last = rec.last_message_id.map(|id| self.msgs.get(&id).cloned().unwrap_or(format!("x{}", &id.to_hex()[..8]))).unwrap_or_default();
            let nid_rec_name = self.nid_name(&nid_rec);
            o.insert("rec".into(), json!({"epoch":rec.epoch,"name":rec.name,"desc":rec.description,"admins":rec_admins,
                "nid":nid_rec_name,"relays":relays,"last":last,
                "su": matches!(rec.self_update_state, mdk_storage_traits::groups::types::SelfUpdateState::Required)}));
        }
        match &mls {
            None => { o.insert("mls".into(), json!("none")); }
            Some(mg) => {
                let members: BTreeSet<String> = mg
                    .members()
                    .filter_map(|mb| {
                        openmls::prelude::BasicCredential::try_from(mb.credential.clone())
                            .ok()
                            .and_then(|bc| PublicKey::from_slice(bc.identity()).ok())
                    })
                    .map(|pk| self.user_of(&pk))
                    .collect();
                let ext = NostrGroupDataExtension::from_group(mg).ok();
                o.insert("mls".into(), json!(if mg.is_active() { "ok" } else { "evicted" }));
                o.insert("epoch".into(), json!(mg.epoch().as_u64()));
                o.insert("members".into(), json!(members));
                o.insert("pend".into(), json!(mg.pending_commit().is_some()));
                o.insert("nprops".into(), json!(mg.pending_proposals().count()));
                match ext {
                    Some(x) => {
                        let admins: BTreeSet<String> = x.admins.iter().map(|p| self.user_of(p)).collect();
                        let rl: BTreeSet<String> = x.relays.iter().map(|r| r.to_string()).collect();
                        let nidn = self.nid_name(&x.nostr_group_id);
                        o.insert("mdata".into(), json!({"name":x.name,"desc":x.description,"admins":admins,"nid":nidn,"relays":rl}));
                    }
                    None => { o.insert("mdata".into(), json!({"name":"?","desc":"?","admins":[],"nid":"?","relays":[]})); }
                }
            }
        }
        // read-only views derived from the same state: pending member changes, rotation obligation, pending welcomes
        {
            let cl = &self.clients[c];
            let st = cl.store.as_ref().unwrap();
            let prem: Vec<PublicKey> = with_mdk!(st, m => m.pending_removed_members_pubkeys(&gid)).unwrap_or_default();
            let padd: Vec<PublicKey> = with_mdk!(st, m => m.pending_added_members_pubkeys(&gid)).unwrap_or_default();
            let prem_n: BTreeSet<String> = prem.iter().map(|p| self.user_of(p)).collect();
            let padd_n: BTreeSet<String> = padd.iter().map(|p| self.user_of(p)).collect();
            o.insert("prem".into(), json!(prem_n));
            o.insert("padd".into(), json!(padd_n));
            let nsu = with_mdk!(st, m => m.groups_needing_self_update(u64::MAX / 4)).map(|v| v.contains(&gid)).unwrap_or(false);
            o.insert("nsu".into(), json!(nsu));
            let listed = with_mdk!(st, m => m.get_groups()).map(|v| v.iter().any(|x| x.mls_group_id == gid)).unwrap_or(false);
            o.insert("listed".into(), json!(listed));
            let pw = with_mdk!(st, m => m.get_pending_welcomes(None)).unwrap_or_default();
            let pwn: BTreeSet<String> = pw.iter().filter(|x| x.mls_group_id == gid)
                .map(|x| self.welcomes.iter().find(|(_, wi)| wi.rumor.id == Some(x.id)).map(|(k, _)| k.clone()).unwrap_or("?".into())).collect();
            o.insert("pwel".into(), json!(pwn));
        }
        // messages
        let cl = &self.clients[c];
        let st = cl.store.as_ref().unwrap();
        let msgs = with_mdk!(st, m => m.get_messages(&gid, None)).unwrap_or_default();
        let mut mm: Vec<Value> = vec![];
        for m in &msgs {
            let name = self.msgs.get(&m.id).cloned().unwrap_or(format!("x{}", &m.id.to_hex()[..8]));
            let ev = m.event.clone();
            let idok = ev.id.is_some() && ev.verify_id().is_ok() && ev.id == Some(m.id)
                && ev.pubkey == m.pubkey && ev.content == m.content && ev.created_at == m.created_at && ev.kind == m.kind && ev.tags == m.tags;
            mm.push(json!({"id":name,"state":m.state.as_str(),"epoch":m.epoch.map(|e| e as i64).unwrap_or(-1),"author":self.user_of(&m.pubkey),
                "w": self.by_id.get(&m.wrapper_event_id).cloned().unwrap_or("?".into()),
                "content": m.content, "idok": idok,
                "ca": m.created_at.as_secs().saturating_sub(self.base_ts), "pa": m.processed_at.as_secs().saturating_sub(self.base_ts)}));
        }
        o.insert("msgs".into(), Value::Array(mm));
        o.insert("msgorder".into(), json!(msgs.iter().map(|m| self.msgs.get(&m.id).cloned().unwrap_or("x".into())).collect::<Vec<_>>()));
        // processed records for every known event of this group
        let mut pm: Vec<Value> = vec![];
        for en in &self.ev_order {
            let ei = &self.events[en];
            if ei.g != g { continue; }
            let r = with_mdk!(st, m => m.provider.storage().find_processed_message_by_event_id(&ei.event.id)).ok().flatten();
            if let Some(r) = r {
                pm.push(json!({"e":en,"state":r.state.as_str(),"epoch":r.epoch.map(|e| e as i64).unwrap_or(-1),"hasg":r.mls_group_id.is_some()}));
            }
        }
        o.insert("proc".into(), Value::Array(pm));
        // snapshots as stored
        let snaps = with_mdk!(st, m => m.provider.storage().list_group_snapshots(&gid)).unwrap_or_default();
        let sn: Vec<Value> = snaps
            .iter()
            .map(|(n, _ts)| {
                let parts: Vec<&str> = n.split('_').collect();
                if parts.len() == 4 {
                    let ep: u64 = parts[2].parse().unwrap_or(0);
                    let cid = EventId::parse(parts[3]).ok().and_then(|id| self.by_id.get(&id).cloned()).unwrap_or("?".into());
                    json!({"epoch":ep,"commit":cid})
                } else {
                    json!({"epoch":0,"commit":"?"})
                }
            })
            .collect();
        o.insert("snaps".into(), json!(sn));
        Value::Object(o)
    }
}
