//! Schedule execution (spec -> implementation) and seeded random drivers (implementation -> spec).

use std::collections::{BTreeMap, BTreeSet};

use mdk_core::MdkConfig;
use rand::rngs::StdRng;
use rand::seq::SliceRandom;
use rand::{Rng, SeedableRng};
use serde_json::{Value, json};

use crate::world::{World, chain_push};
use crate::{Recorder, meta};

fn strs(v: &Value) -> Vec<String> {
    v.as_array().map(|a| a.iter().map(|x| x.as_str().unwrap().to_string()).collect()).unwrap_or_default()
}

/// Execute one action and attach the C14 scan of everything the library logged or returned during it.
pub fn exec_action(w: &mut World, a: &Value) -> Value {
    let _ = crate::logcap::drain();
    let mut v = exec_action_inner(w, a);
    let texts = crate::logcap::drain();
    let c = a["c"].as_str().unwrap_or("").to_string();
    let leaks = w.scan_leaks(&c, &texts);
    let o = v.as_object_mut().unwrap();
    o.insert("leak".into(), json!(leaks));
    o.insert("nlog".into(), json!(texts.len()));
    if std::env::var("VERIF_DEBUG_LOG").is_ok() {
        o.insert("logs".into(), json!(texts));
    }
    v
}

fn exec_action_inner(w: &mut World, a: &Value) -> Value {
    let op = a["op"].as_str().unwrap();
    let c = a["c"].as_str().unwrap_or("");
    let g = a["g"].as_str().unwrap_or("g1");
    let ts = a["ts"].as_u64().unwrap_or(1);
    let rank = a["rank"].as_u64().unwrap_or(0);
    match op {
        "Create" => w.op_create(c, g, &strs(&a["members"]), &strs(&a["admins"])),
        "Commit" => w.op_commit(c, g, a["kind"].as_str().unwrap(), &a["arg"], ts, rank),
        "Merge" => w.op_merge(c, g),
        "Clear" => w.op_clear(c, g),
        "Send" => w.op_send(c, g, ts, rank, a["mts"].as_u64().unwrap_or(ts)),
        "Leave" => w.op_leave(c, g, ts, rank),
        "Deliver" => w.op_deliver(c, a["e"].as_str().unwrap(), ts, rank),
        "Restart" => w.op_restart(c, a["ttl"].as_u64()),
        "Forge" => w.op_forge(c, g, a["claimed"].as_str().unwrap(), a["idclass"].as_str().unwrap(), ts, a["mts"].as_u64().unwrap_or(ts)),
        "Raw" => w.op_raw(c, g, a["kind"].as_str().unwrap(), &a["arg"], ts, rank),
        "Junk" => w.op_junk(c, g, a["class"].as_str().unwrap(), ts, rank, a["base"].as_str().unwrap_or("")),
        "DropKP" => w.op_dropkp(c, a["w"].as_str().unwrap()),
        "Welcome" => w.op_welcome(c, a["w"].as_str().unwrap(), a["what"].as_str().unwrap(), a["fresh"].as_bool().unwrap_or(false)),
        _ => panic!("unknown op {op}"),
    }
}

pub struct RandCfg {
    pub seed: u64,
    pub histories: usize,
    pub steps: usize,
    pub backend: String, // mem | sql | mixed
    pub regime: String,  // causal | free
    pub mdk: MdkConfig,
    pub profile: String, // core | ...
    pub restarts: bool,
    pub ttl: bool,
    pub observers: bool,
    pub replay_welcomes: bool,
    pub junk: bool,
    pub groups2: bool,
    pub adversary: bool,
}

fn fingerprint(post: &Value) -> String {
    // everything except volatile clocks
    let mut p = post.clone();
    if let Some(ms) = p.get_mut("msgs").and_then(|m| m.as_array_mut()) {
        for m in ms {
            m.as_object_mut().unwrap().remove("pa");
        }
    }
    p.to_string()
}

/// One random history; emits trace records through `r`.
pub fn random_history(cfg: &RandCfg, rng: &mut StdRng, r: &mut Recorder, clients: &[&str]) {
    let mut w = World::new(cfg.mdk.clone());
    for (i, c) in clients.iter().enumerate() {
        let be = match cfg.backend.as_str() {
            "mixed" => if i % 2 == 0 { "mem" } else { "sql" },
            x => x,
        };
        w.add_client(c, be);
    }
    r.emit(json!({"op":"Reset"}));
    let n = clients.len();
    let nmem = rng.gen_range(2..=n.min(4)); // group size incl. creator
    let members: Vec<String> = clients[1..nmem].iter().map(|s| s.to_string()).collect();
    let mut admins: Vec<String> = vec![clients[0].to_string()];
    for m in &members {
        if rng.gen_bool(0.5) {
            admins.push(m.clone());
        }
    }
    r.emit(w.op_create(clients[0], "g1", &members, &admins));
    // optionally a second group with overlapping membership, created by another client
    let two = cfg.groups2 && rng.gen_bool(0.7);
    let mut g2_members: Vec<String> = vec![];
    if two {
        let creator = clients[1];
        for x in clients { if *x != creator && rng.gen_bool(0.6) { g2_members.push(x.to_string()); } }
        if g2_members.is_empty() { g2_members.push(clients[0].to_string()); }
        let mut adm2 = vec![creator.to_string()];
        for m in &g2_members { if rng.gen_bool(0.4) { adm2.push(m.clone()); } }
        r.emit(w.op_create(creator, "g2", &g2_members, &adm2));
        g2_members.push(creator.to_string());
    }

    // chains each client has held, per group (for the epoch-causal regime)
    let mut held: BTreeMap<(String, String), BTreeSet<String>> = BTreeMap::new();
    for c in clients {
        held.entry((c.to_string(), "g1".to_string())).or_default();
        held.entry((c.to_string(), "g2".to_string())).or_default();
    }
    held.get_mut(&(clients[0].to_string(), "g1".to_string())).unwrap().insert(String::new());
    for m in &members { held.get_mut(&(m.clone(), "g1".to_string())).unwrap().insert(String::new()); }
    for m in &g2_members { held.get_mut(&(m.clone(), "g2".to_string())).unwrap().insert(String::new()); }
    let mut clock: u64 = 10;
    let mut used_ranks: BTreeSet<u64> = BTreeSet::new();
    let mut delivered: BTreeSet<String> = BTreeSet::new();
    let mut junk_events: Vec<String> = vec![];
    // a client that swapped its own MLS identity (adversarial raw commit) is the attacker's own wreck: it takes no further part
    let mut tainted: BTreeSet<String> = BTreeSet::new();
    let mut withdrawn: BTreeSet<String> = BTreeSet::new();
    let note_chain = |w: &mut World, held: &mut BTreeMap<(String, String), BTreeSet<String>>, c: &str, g: &str| {
        let ch = w.chain_of(c, g, None);
        if !ch.starts_with('?') { held.entry((c.to_string(), g.to_string())).or_default().insert(ch); }
    };

    for _ in 0..cfg.steps {
        let g: &str = if two && rng.gen_bool(0.4) { "g2" } else { "g1" };
        let mut c = clients[rng.gen_range(0..n)].to_string();
        if tainted.contains(&c) { continue; }
        let roll = rng.gen_range(0..100);
        // state-aware choice: for commit-producing actions prefer an actor that can succeed
        // (an admin member without a pending commit); 25% of the time keep the blind choice so
        // that refusals are exercised too
        let commit_roll = (cfg.profile == "members" && roll < 6) || (roll >= 9 && roll < 18) || (cfg.profile != "members" && roll < 18);
        if commit_roll && rng.gen_bool(0.75) {
            let mut eligible: Vec<String> = vec![];
            for x in clients {
                let p = w.project(x, g);
                let is_member = p["mls"] == json!("ok");
                let pend = p["pend"] == json!(true);
                let admin = p["mdata"]["admins"].as_array().map(|a| a.iter().any(|y| y == x)).unwrap_or(false);
                if is_member && !pend && (admin || rng.gen_bool(0.3)) {
                    eligible.push(x.to_string());
                }
            }
            eligible.retain(|x| !tainted.contains(x));
            if !eligible.is_empty() {
                c = eligible[rng.gen_range(0..eligible.len())].clone();
            }
        }
        // timestamps: small window so that ties and inversions happen
        let ts = clock - rng.gen_range(0..4);
        let mut rank = rng.gen_range(1..=15u64);
        let _ = &mut rank;
        if rng.gen_bool(0.3) {
            clock += 1;
        }
        let members_profile = cfg.profile == "members";
        let rec = if members_profile && roll < 6 {
            // membership / admin / routing changes
            let post = w.project(&c, g);
            let cur_members: Vec<String> = post["members"].as_array().map(|a| a.iter().map(|x| x.as_str().unwrap().to_string()).collect()).unwrap_or_default();
            let outsiders: Vec<String> = clients.iter().map(|x| x.to_string()).filter(|x| !cur_members.contains(x)).collect();
            let others: Vec<String> = cur_members.iter().filter(|x| **x != c).cloned().collect();
            let mut rk = rank;
            while used_ranks.contains(&(ts * 100 + rk)) { rk = rk % 15 + 1; }
            used_ranks.insert(ts * 100 + rk);
            match rng.gen_range(0..5) {
                0 if !others.is_empty() => {
                    let t = others[rng.gen_range(0..others.len())].clone();
                    Some(exec_action(&mut w, &json!({"op":"Commit","c":c,"g":g,"kind":"remove","arg":[t],"ts":ts,"rank":rk})))
                }
                1 if !outsiders.is_empty() => {
                    let t = outsiders[rng.gen_range(0..outsiders.len())].clone();
                    Some(exec_action(&mut w, &json!({"op":"Commit","c":c,"g":g,"kind":"add","arg":[t],"ts":ts,"rank":rk})))
                }
                2 if !cur_members.is_empty() => {
                    let mut adm: Vec<String> = cur_members.iter().filter(|_| rng.gen_bool(0.5)).cloned().collect();
                    if adm.is_empty() { adm.push(cur_members[0].clone()); }
                    Some(exec_action(&mut w, &json!({"op":"Commit","c":c,"g":g,"kind":"admins","arg":adm,"ts":ts,"rank":rk})))
                }
                3 => {
                    // now and then a hostile admin rotates onto the OTHER group's nostr id
                    let other = if g == "g1" { "g2" } else { "g1" };
                    // (the id of a group is public on the relays; the hostile admin itself is not a member of that group,
                    //  so only OTHER members of its own group that also belong to the victim group are hit)
                    let arg = if two && cfg.adversary && rng.gen_bool(0.5) && w.project(&c, other)["st"] == json!("none") {
                        let mut on = String::new();
                        for x in clients { let p = w.project(x, other); if p["mls"] == json!("ok") { on = p["rec"]["nid"].as_str().unwrap_or("").to_string(); break; } }
                        if on.is_empty() { String::new() } else { format!("={on}") }
                    } else { String::new() };
                    Some(exec_action(&mut w, &json!({"op":"Commit","c":c,"g":g,"kind":"rotate","arg":arg,"ts":ts,"rank":rk})))
                }
                _ => Some(exec_action(&mut w, &json!({"op":"Leave","c":c,"g":g,"ts":ts,"rank":rk}))),
            }
        } else if members_profile && roll < 9 {
            // welcome handling for invited clients
            let mine: Vec<String> = w.welcomes.iter().filter(|(_, wi)| wi.to == c).map(|(k, _)| k.clone()).collect();
            if mine.is_empty() { None } else {
                let wn = mine[rng.gen_range(0..mine.len())].clone();
                let what = ["process", "accept", "accept", "decline", "process"][rng.gen_range(0..5)];
                // now and then the same rumor comes back under a fresh wrapper id (replay)
                let fresh = cfg.replay_welcomes && what == "process" && rng.gen_bool(0.4);
                Some(exec_action(&mut w, &json!({"op":"Welcome","c":c,"w":wn,"what":what,"fresh":fresh})))
            }
        } else if roll < 18 {

            let kinds = ["rename", "redesc", "self_update", "relays", "rename", "self_update"];
            let kind = kinds[rng.gen_range(0..kinds.len())];
            let arg = match kind {
                "rename" => json!(format!("nm{}", rng.gen_range(0..3))),
                "redesc" => json!(format!("ds{}", rng.gen_range(0..3))),
                "relays" => json!([format!("wss://r{}.example", rng.gen_range(1..4))]),
                _ => json!(""),
            };
            // distinct (ts, rank) among commits so that the MIP-03 order is decided by the schedule
            let mut rk = rank;
            while used_ranks.contains(&(ts * 100 + rk)) {
                rk = rk % 15 + 1;
            }
            used_ranks.insert(ts * 100 + rk);
            Some(exec_action(&mut w, &json!({"op":"Commit","c":c,"g":g,"kind":kind,"arg":arg,"ts":ts,"rank":rk})))
        } else if cfg.adversary && roll >= 82 && roll < 92 {
            // a malicious member: forged rumors (arbitrary pubkey, pre-set ids) and raw MLS commits / proposals
            let post = w.project(&c, g);
            let cur_members: Vec<String> = post["members"].as_array().map(|a| a.iter().map(|x| x.as_str().unwrap().to_string()).collect()).unwrap_or_default();
            let others: Vec<String> = cur_members.iter().filter(|x| **x != c).cloned().collect();
            let mut rk = rank;
            while used_ranks.contains(&(ts * 100 + rk)) { rk = rk % 15 + 1; }
            if others.is_empty() || post["mls"] != json!("ok") { None } else {
                let victim = others[rng.gen_range(0..others.len())].clone();
                match rng.gen_range(0..9) {
                    7 => {
                        used_ranks.insert(ts * 100 + rk);
                        let v = exec_action(&mut w, &json!({"op":"Raw","c":c,"g":g,"kind":"update_identity","arg":[victim],"ts":ts,"rank":rk}));
                        if v["res"] == json!("Ok") { tainted.insert(c.clone()); }
                        Some(v)
                    }
                    8 => { used_ranks.insert(ts * 100 + rk); Some(exec_action(&mut w, &json!({"op":"Raw","c":c,"g":g,"kind":"prop_update","arg":"","ts":ts,"rank":rk}))) }
                    0 => Some(exec_action(&mut w, &json!({"op":"Forge","c":c,"g":g,"claimed":victim,"idclass":"none","ts":ts,"mts":clock}))),
                    1 => Some(exec_action(&mut w, &json!({"op":"Forge","c":c,"g":g,"claimed":c,"idclass":"random","ts":ts,"mts":clock}))),
                    2 => {
                        // pre-set the id of an existing message of somebody else
                        let known: Vec<String> = post["msgs"].as_array().map(|a| a.iter().filter(|m| m["author"] != json!(c)).map(|m| m["id"].as_str().unwrap().to_string()).collect()).unwrap_or_default();
                        if known.is_empty() { None } else {
                            let t = known[rng.gen_range(0..known.len())].clone();
                            Some(exec_action(&mut w, &json!({"op":"Forge","c":c,"g":g,"claimed":c,"idclass":format!("other:{t}"),"ts":ts,"mts":clock})))
                        }
                    }
                    3 => { used_ranks.insert(ts * 100 + rk); Some(exec_action(&mut w, &json!({"op":"Raw","c":c,"g":g,"kind":"rename","arg":format!("raw{}", rng.gen_range(0..3)),"ts":ts,"rank":rk}))) }
                    4 => { used_ranks.insert(ts * 100 + rk); Some(exec_action(&mut w, &json!({"op":"Raw","c":c,"g":g,"kind":"remove","arg":[victim],"ts":ts,"rank":rk}))) }
                    5 => { used_ranks.insert(ts * 100 + rk); Some(exec_action(&mut w, &json!({"op":"Raw","c":c,"g":g,"kind":"admins_self","arg":"","ts":ts,"rank":rk}))) }
                    _ => { used_ranks.insert(ts * 100 + rk); Some(exec_action(&mut w, &json!({"op":"Raw","c":c,"g":g,"kind":"prop_remove","arg":[victim],"ts":ts,"rank":rk}))) }
                }
            }
        } else if cfg.junk && roll >= 90 && roll < 96 {
            let classes = ["badkind", "noh", "multih", "shorth", "nonhexh", "stale", "future", "nogroup", "undecryptable", "mlsjunk", "truncated", "bitflip"];
            let class = classes[rng.gen_range(0..classes.len())];
            // tampering needs a real event to start from: any published non-junk event (old commits included)
            let real: Vec<String> = w.ev_order.iter().filter(|n| w.events[*n].kind != "junk").cloned().collect();
            let base = if (class == "bitflip" || class == "truncated") && !real.is_empty() { real[rng.gen_range(0..real.len())].clone() } else { String::new() };
            let mut rk = rank;
            while used_ranks.contains(&(ts * 100 + rk)) { rk = rk % 15 + 1; }
            used_ranks.insert(ts * 100 + rk);
            let v = exec_action(&mut w, &json!({"op":"Junk","c":c,"g":g,"class":class,"ts":ts,"rank":rk,"base":base}));
            if v["res"] == json!("Ok") { junk_events.push(v["e"].as_str().unwrap().to_string()); }
            Some(v)
        } else if cfg.restarts && roll >= 96 && w.clients[&c].backend == "sql" {
            if cfg.ttl && rng.gen_range(0..100) < 60 {
                // start-up pruning: TTL values around the ages of the stored snapshots (0-2 s), sometimes after a pause
                if rng.gen_range(0..100) < 30 { std::thread::sleep(std::time::Duration::from_millis(1100)); }
                let ttl = [0u64, 1, 2, 3][rng.gen_range(0..4)];
                Some(exec_action(&mut w, &json!({"op":"Restart","c":c,"ttl":ttl})))
            } else {
                Some(exec_action(&mut w, &json!({"op":"Restart","c":c})))
            }
        } else if roll < 26 {
            Some(exec_action(&mut w, &json!({"op":"Merge","c":c,"g":g})))
        } else if roll < 28 {
            // clear_pending_commit models a failed publication: only for a commit nobody has seen
            match w.pending_name.get(&(c.clone(), g.to_string())).cloned() {
                Some(pn) if !delivered.contains(&pn) && !withdrawn.contains(&pn)
                    && w.project(&c, g)["pend"] == json!(true) && w.chain_of(&c, g, None) == w.events[&pn].parent => {
                    withdrawn.insert(pn);
                    Some(exec_action(&mut w, &json!({"op":"Clear","c":c,"g":g})))
                }
                _ => None,
            }
        } else if roll < 42 {
            // with narrow sender-ratchet windows configured, senders talk in bursts so that late / early generations occur
            if cfg.mdk.out_of_order_tolerance < 10 && rng.gen_bool(0.35) {
                for _ in 0..rng.gen_range(1..5) {
                    let v = exec_action(&mut w, &json!({"op":"Send","c":c,"g":g,"ts":ts,"rank":0,"mts":clock}));
                    r.emit(v);
                }
            }
            Some(exec_action(&mut w, &json!({"op":"Send","c":c,"g":g,"ts":ts,"rank":0,"mts":clock - rng.gen_range(0..3)})))
        } else {
            // deliver some event
            if w.ev_order.is_empty() {
                None
            } else {
                // bias to recent events
                let k = w.ev_order.len();
                let idx = if rng.gen_bool(0.7) { k - 1 - rng.gen_range(0..k.min(4)) } else { rng.gen_range(0..k) };
                let e = w.ev_order[idx].clone();
                let parent = w.events[&e].parent.clone();
                let eg = w.events[&e].g.clone();
                let ok = (cfg.regime != "causal" || held[&(c.clone(), eg.clone())].contains(&parent) || w.events[&e].kind == "junk") && !withdrawn.contains(&e);
                if ok {
                    delivered.insert(e.clone());
                    let mut rk = rank;
                    while used_ranks.contains(&(ts * 100 + rk)) { rk = rk % 15 + 1; }
                    let v = exec_action(&mut w, &json!({"op":"Deliver","c":c,"e":e,"ts":ts,"rank":rk}));
                    if v["out"] != json!("") { used_ranks.insert(ts * 100 + rk); }
                    Some(v)
                } else {
                    None
                }
            }
        };
        if let Some(v) = rec {
            // hostile events of a member are pushed to a few other members at once, so that they are met in the epoch
            // they were made for (the random deliveries alone mostly hand them over too late)
            let push: Option<(String, String)> = if cfg.adversary && matches!(v["op"].as_str(), Some("Raw") | Some("Forge")) && v["res"] == json!("Ok") {
                Some((v["e"].as_str().unwrap_or("").to_string(), v["g"].as_str().unwrap_or("g1").to_string()))
            } else { None };
            r.emit(v);
            note_chain(&mut w, &mut held, &c, "g1");
            if two { note_chain(&mut w, &mut held, &c, "g2"); }
            if let Some((e, eg)) = push {
                if !e.is_empty() && rng.gen_bool(0.7) {
                    let parent = w.events[&e].parent.clone();
                    for x in clients {
                        if *x == c.as_str() || tainted.contains(*x) || !rng.gen_bool(0.6) { continue; }
                        if cfg.regime == "causal" && !held[&(x.to_string(), eg.clone())].contains(&parent) { continue; }
                        delivered.insert(e.clone());
                        let mut rk = 1u64;
                        while used_ranks.contains(&(clock * 100 + rk)) { rk = rk % 15 + 1; if rk == 1 { break; } }
                        let dv = exec_action(&mut w, &json!({"op":"Deliver","c":x,"e":e,"ts":clock,"rank":rk}));
                        if dv["out"] != json!("") { used_ranks.insert(clock * 100 + rk); }
                        r.emit(dv);
                        note_chain(&mut w, &mut held, x, "g1");
                        if two { note_chain(&mut w, &mut held, x, "g2"); }
                    }
                }
            }
        }
    }

    // observers are also handed every welcome ever published
    if cfg.observers {
        let wnames: Vec<String> = w.welcomes.keys().cloned().collect();
        for wn in wnames {
            for c in clients {
                if w.welcomes[&wn].to != *c {
                    r.emit(exec_action(&mut w, &json!({"op":"Welcome","c":c,"w":wn,"what":"process"})));
                }
            }
        }
    }
    // quiescence: offer everything to everyone until a full pass changes nothing
    let mut passes = 0;
    loop {
        passes += 1;
        let mut changed = false;
        let mut order: Vec<(String, String)> = vec![];
        for c in clients {
            for e in &w.ev_order {
                order.push((c.to_string(), e.clone()));
            }
        }
        order.shuffle(rng);
        for (c, e) in order {
            if tainted.contains(&c) { continue; }
            let parent = w.events[&e].parent.clone();
            let g: &str = &w.events[&e].g.clone();
            // observers (clients without an operational group: never added, pending, evicted) are fed everything
            // ... and late joiners are also handed the events created before they joined
            let observer = cfg.observers && (w.project(&c, g)["mls"] != json!("ok")
                || held[&(c.clone(), g.to_string())].iter().any(|h| h.len() > parent.len() && (parent.is_empty() || h.starts_with(&format!("{parent}.")))));
            if withdrawn.contains(&e) || (cfg.regime == "causal" && !held[&(c.clone(), g.to_string())].contains(&parent) && !observer && w.events[&e].kind != "junk") {
                continue;
            }
            let before = fingerprint(&w.project(&c, g));
            let mut rk = 1u64;
            while used_ranks.contains(&(clock * 100 + rk)) { rk += 1; if rk > 15 { clock += 1; rk = 1; } }
            let v = exec_action(&mut w, &json!({"op":"Deliver","c":c,"e":e,"ts":clock,"rank":rk}));
            if v["out"] != json!("") { used_ranks.insert(clock * 100 + rk); }
            let after = fingerprint(&v["post"]);
            r.emit(v);
            note_chain(&mut w, &mut held, &c, g);
            if before != after {
                changed = true;
            }
        }
        if !changed || passes >= 6 {
            let mut posts: Vec<Value> = clients.iter().filter(|c| !tainted.contains(**c)).map(|c| json!({"c":c,"g":"g1","post":w.project(c, "g1")})).collect();
            if two { posts.extend(clients.iter().filter(|c| !tainted.contains(**c)).map(|c| json!({"c":c,"g":"g2","post":w.project(c, "g2")}))); }
            r.emit(json!({"op":"Quiesce","passes":passes,"stable":!changed,"regime":cfg.regime,"posts":posts}));
            break;
        }
    }
    let _ = chain_push;
}

/// Directed-random invitation scenarios (C16): invitations valid / replayed under fresh wrapper ids / for a group the
/// recipient already holds (active, pending, inactive) / delivered to somebody else, in random order relative to the
/// group's other events, to recipients in every state.
pub fn welcome_history(cfg: &RandCfg, rng: &mut StdRng, r: &mut Recorder, clients: &[&str]) {
    let mut w = World::new(cfg.mdk.clone());
    for (i, c) in clients.iter().enumerate() {
        let be = match cfg.backend.as_str() { "mixed" => if i % 2 == 0 { "mem" } else { "sql" }, x => x };
        w.add_client(c, be);
    }
    r.emit(json!({"op":"Reset"}));
    let g = "g1";
    let admins: Vec<String> = if rng.gen_bool(0.5) { vec!["c1".into(), "c2".into()] } else { vec!["c1".into()] };
    r.emit(w.op_create("c1", g, &["c2".to_string()], &admins));
    let mut clock = 10u64;
    let mut rk = 1u64;
    let mut step = |w: &mut World, r: &mut Recorder, a: Value| -> Value { let v = exec_action(w, &a); r.emit(v.clone()); v };
    let joiner = if rng.gen_bool(0.7) { "c3" } else { "c4" };
    // a hostile outsider runs a second group, gives it g1's (public) nostr id and invites a member of g1 into it:
    // the invitation must fail without touching g1
    if rng.gen_bool(0.35) {
        let hostile = if joiner == "c3" { "c4" } else { "c3" };
        let victim = if rng.gen_bool(0.5) { "c1" } else { "c2" };
        let other = if victim == "c1" { "c2" } else { "c1" };
        r.emit(w.op_create(hostile, "g2", &[other.to_string()], &[hostile.to_string()]));
        let n1 = w.project("c1", g)["rec"]["nid"].as_str().unwrap_or("").to_string();
        let v = step(&mut w, r, json!({"op":"Commit","c":hostile,"g":"g2","kind":"rotate","arg":format!("={n1}"),"ts":5,"rank":1}));
        if v["res"] == json!("Ok") {
            step(&mut w, r, json!({"op":"Merge","c":hostile,"g":"g2"}));
            let v2 = step(&mut w, r, json!({"op":"Commit","c":hostile,"g":"g2","kind":"add","arg":[victim],"ts":6,"rank":1}));
            if v2["res"] == json!("Ok") {
                step(&mut w, r, json!({"op":"Merge","c":hostile,"g":"g2"}));
                let hw = v2["welcomes"][0].as_str().unwrap().to_string();
                for _ in 0..rng.gen_range(1..3) {
                    step(&mut w, r, json!({"op":"Welcome","c":victim,"w":hw,"what":"process","fresh":rng.gen_bool(0.5)}));
                    if rng.gen_bool(0.5) { step(&mut w, r, json!({"op":"Welcome","c":victim,"w":hw,"what":"accept","fresh":false})); }
                }
            }
        }
    }
    for round in 0..rng.gen_range(1..4) {
        clock += 1; rk = rk % 15 + 1;
        // the inviter adds the joiner (possibly while the joiner still holds the group from an earlier round)
        let inviter = if admins.len() > 1 && rng.gen_bool(0.4) { "c2" } else { "c1" };
        // (re-adding somebody the inviter still sees as a member would create a second leaf for one identity:
        //  multi-device groups are outside this model)
        if w.project(inviter, g)["members"].as_array().map(|a| a.iter().any(|x| x == joiner)).unwrap_or(true) { break; }
        let v = step(&mut w, r, json!({"op":"Commit","c":inviter,"g":g,"kind":"add","arg":[joiner],"ts":clock,"rank":rk}));
        if v["res"] != json!("Ok") { break; }
        let e = v["e"].as_str().unwrap().to_string();
        let wn = v["welcomes"][0].as_str().unwrap().to_string();
        if rng.gen_bool(0.7) { step(&mut w, r, json!({"op":"Merge","c":inviter,"g":g})); } else { step(&mut w, r, json!({"op":"Deliver","c":inviter,"e":e,"ts":clock,"rank":0})); }
        for m in ["c1", "c2"] { if m != inviter { step(&mut w, r, json!({"op":"Deliver","c":m,"e":e,"ts":clock,"rank":0})); } }
        // the joiner still holds the group with a commit of its own in flight: process, merge the old commit, accept
        if w.project(joiner, g)["pend"] == json!(true) && rng.gen_bool(0.6) {
            step(&mut w, r, json!({"op":"Welcome","c":joiner,"w":wn,"what":"process","fresh":false}));
            step(&mut w, r, json!({"op":"Merge","c":joiner,"g":g}));
            step(&mut w, r, json!({"op":"Welcome","c":joiner,"w":wn,"what":"accept","fresh":false}));
        }
        // welcome handling in random order with replays and bystanders
        let n_ops = rng.gen_range(2..7);
        for _ in 0..n_ops {
            let who = if rng.gen_bool(0.8) { joiner } else { clients[rng.gen_range(0..clients.len())] };
            let what = ["process", "process", "accept", "decline", "accept"][rng.gen_range(0..5)];
            let fresh = what == "process" && rng.gen_bool(0.35);
            if rng.gen_bool(0.12) { step(&mut w, r, json!({"op":"DropKP","c":joiner,"w":wn})); }
            // the joiner may still hold the group from an earlier round with a commit of its own in flight
            if rng.gen_bool(0.15) { step(&mut w, r, json!({"op":"Merge","c":joiner,"g":g})); }
            step(&mut w, r, json!({"op":"Welcome","c":who,"w":wn,"what":what,"fresh":fresh}));
            if rng.gen_bool(0.3) {
                clock += 1;
                let s = ["c1", "c2", joiner][rng.gen_range(0..3)];
                let v = step(&mut w, r, json!({"op":"Send","c":s,"g":g,"ts":clock,"rank":0,"mts":clock}));
                if v["res"] == json!("Ok") {
                    let me = v["e"].as_str().unwrap().to_string();
                    for m in ["c1", "c2", joiner] { step(&mut w, r, json!({"op":"Deliver","c":m,"e":me,"ts":clock,"rank":0})); }
                }
            }
            if rng.gen_bool(0.25) {
                clock += 1; rk = rk % 15 + 1;
                let v = step(&mut w, r, json!({"op":"Commit","c":"c1","g":g,"kind":"rename","arg":format!("r{round}{clock}"),"ts":clock,"rank":rk}));
                if v["res"] == json!("Ok") {
                    let ce = v["e"].as_str().unwrap().to_string();
                    step(&mut w, r, json!({"op":"Merge","c":"c1","g":g}));
                    for m in ["c2", joiner] { step(&mut w, r, json!({"op":"Deliver","c":m,"e":ce,"ts":clock,"rank":0})); }
                }
            }
        }
        // an old welcome may come back later (replay after the joiner moved on)
        if rng.gen_bool(0.5) {
            step(&mut w, r, json!({"op":"Welcome","c":joiner,"w":wn,"what":"process","fresh":true}));
            if rng.gen_bool(0.5) {
                let what2 = ["accept", "decline"][rng.gen_range(0..2)];
                step(&mut w, r, json!({"op":"Welcome","c":joiner,"w":wn,"what":what2,"fresh":false}));
            }
        }
        // the joiner starts a self-update and leaves it in flight (merged, if ever, during the next invitation)
        if rng.gen_bool(0.4) && w.project(joiner, g)["mls"] == json!("ok") {
            clock += 1; rk = rk % 15 + 1;
            step(&mut w, r, json!({"op":"Commit","c":joiner,"g":g,"kind":"self_update","arg":"","ts":clock,"rank":rk}));
        }
        // sometimes remove the joiner again so that the next round re-invites an ex-member; sometimes the joiner
        // never sees its removal (it then holds the group as Active when re-invited)
        if rng.gen_bool(0.6) {
            clock += 1; rk = rk % 15 + 1;
            let v = step(&mut w, r, json!({"op":"Commit","c":"c1","g":g,"kind":"remove","arg":[joiner],"ts":clock,"rank":rk}));
            if v["res"] == json!("Ok") {
                let re = v["e"].as_str().unwrap().to_string();
                step(&mut w, r, json!({"op":"Merge","c":"c1","g":g}));
                step(&mut w, r, json!({"op":"Deliver","c":"c2","e":re,"ts":clock,"rank":0}));
                if rng.gen_bool(0.6) {
                    step(&mut w, r, json!({"op":"Deliver","c":joiner,"e":re,"ts":clock,"rank":0}));
                    // relay replay: the very wrapper the joiner came in with is delivered again after its removal
                    if rng.gen_bool(0.5) {
                        step(&mut w, r, json!({"op":"Welcome","c":joiner,"w":wn,"what":"process","fresh":false}));
                        if rng.gen_bool(0.7) { step(&mut w, r, json!({"op":"Welcome","c":joiner,"w":wn,"what":"accept","fresh":false})); }
                        let s2 = ["c1", "c2"][rng.gen_range(0..2)];
                        let mv = step(&mut w, r, json!({"op":"Send","c":s2,"g":g,"ts":clock,"rank":0,"mts":clock}));
                        if mv["res"] == json!("Ok") { step(&mut w, r, json!({"op":"Deliver","c":joiner,"e":mv["e"],"ts":clock,"rank":0})); }
                    }
                }
            }
        }
    }
    let posts: Vec<Value> = clients.iter().map(|c| json!({"c":c,"g":g,"post":w.project(c, g)})).collect();
    r.emit(json!({"op":"Snapshot","posts":posts}));
}

/// Directed-random deep forks and window boundaries (C01 retention depth / look-back; C02 past-epoch and look-back windows):
/// a bystander follows a losing chain of depth d, messages of older epochs arrive k epochs late, then the winner arrives.
pub fn fork_history(cfg: &RandCfg, rng: &mut StdRng, r: &mut Recorder, clients: &[&str]) {
    let mut w = World::new(cfg.mdk.clone());
    for (i, c) in clients.iter().enumerate() {
        let be = match cfg.backend.as_str() { "mixed" => if i % 2 == 0 { "mem" } else { "sql" }, x => x };
        w.add_client(c, be);
    }
    r.emit(json!({"op":"Reset"}));
    let g = "g1";
    r.emit(w.op_create("c1", g, &["c2".to_string(), "c3".to_string()], &["c1".to_string(), "c2".to_string()]));
    let mut step = |w: &mut World, r: &mut Recorder, a: Value| -> Value { let v = exec_action(w, &a); r.emit(v.clone()); v };
    let depth = rng.gen_range(1..=7u64);
    let mut clock = 30u64;
    // messages created on the base chain by c2 and c3 (to be delivered late)
    let m_base = step(&mut w, r, json!({"op":"Send","c":"c2","g":g,"ts":clock,"rank":0,"mts":clock}));
    let m_base3 = step(&mut w, r, json!({"op":"Send","c":"c3","g":g,"ts":clock,"rank":0,"mts":clock}));
    // the eventual winner: created by c2 on the base chain with the earliest timestamp, published late
    let winner = step(&mut w, r, json!({"op":"Commit","c":"c2","g":g,"kind":"rename","arg":"winner","ts":10,"rank":1}));
    // the losing chain, built and applied at once by c1, followed by the bystander c3
    let mut losers: Vec<String> = vec![];
    let late_at = rng.gen_range(0..=depth);
    for i in 0..depth {
        clock += 1;
        let kind = ["rename", "self_update", "redesc"][rng.gen_range(0..3)];
        let v = step(&mut w, r, json!({"op":"Commit","c":"c1","g":g,"kind":kind,"arg":format!("l{i}"),"ts":clock,"rank":(i % 14) + 2}));
        if v["res"] != json!("Ok") { break; }
        let e = v["e"].as_str().unwrap().to_string();
        step(&mut w, r, json!({"op":"Merge","c":"c1","g":g}));
        step(&mut w, r, json!({"op":"Deliver","c":"c3","e":e,"ts":clock,"rank":0}));
        losers.push(e);
        if i + 1 == late_at {
            // a message of the base epoch reaches the bystander `late_at` epochs late
            step(&mut w, r, json!({"op":"Deliver","c":"c3","e":m_base["e"],"ts":clock,"rank":0}));
        }
        if rng.gen_bool(0.4) {
            // traffic on the losing branch
            let mv = step(&mut w, r, json!({"op":"Send","c":"c1","g":g,"ts":clock,"rank":0,"mts":clock}));
            if mv["res"] == json!("Ok") { step(&mut w, r, json!({"op":"Deliver","c":"c3","e":mv["e"],"ts":clock,"rank":0})); }
        }
    }
    // now the winner is seen by everybody (its author applies it on echo)
    let we = winner["e"].as_str().unwrap_or("").to_string();
    if !we.is_empty() {
        for c in ["c3", "c1", "c2"] {
            step(&mut w, r, json!({"op":"Deliver","c":c,"e":we,"ts":clock + 1,"rank":0}));
        }
    }
    // quiescence passes over everything
    for _ in 0..3 {
        let evs = w.ev_order.clone();
        for e in &evs {
            for c in ["c1", "c2", "c3"] {
                step(&mut w, r, json!({"op":"Deliver","c":c,"e":e,"ts":clock + 2,"rank":0}));
            }
        }
    }
    let _ = m_base3;
    let posts: Vec<Value> = clients.iter().map(|c| json!({"c":c,"g":g,"post":w.project(c, g)})).collect();
    r.emit(json!({"op":"Quiesce","passes":3,"stable":true,"regime":"free","posts":posts}));
}

/// Directed-random proposal races (C01 / C05 / C09): a queued proposal (a member leaves) is auto-committed by several admins
/// at once, possibly next to an explicit admin commit; members apply a MIP-03-worse commit first (their own or a foreign one)
/// and meet the better one later, so rollbacks have to restore the proposal queue; the proposal itself may arrive late.
pub fn props_history(cfg: &RandCfg, rng: &mut StdRng, r: &mut Recorder, clients: &[&str]) {
    let mut w = World::new(cfg.mdk.clone());
    for (i, c) in clients.iter().enumerate() {
        let be = match cfg.backend.as_str() { "mixed" => if i % 2 == 0 { "mem" } else { "sql" }, x => x };
        w.add_client(c, be);
    }
    r.emit(json!({"op":"Reset"}));
    let g = "g1";
    let n_admins = rng.gen_range(2..=3usize);
    let admins: Vec<String> = ["c1", "c2", "c3"][..n_admins].iter().map(|s| s.to_string()).collect();
    let members: Vec<String> = vec!["c2".into(), "c3".into(), "c4".into()];
    r.emit(w.op_create("c1", g, &members, &admins));
    let mut step = |w: &mut World, r: &mut Recorder, a: Value| -> Value { let v = exec_action(w, &a); r.emit(v.clone()); v };
    let all = ["c1", "c2", "c3", "c4"];
    let mut clock = 20u64;
    let mut ranks: Vec<u64> = (1..=15).collect();
    for _round in 0..rng.gen_range(1..=2) {
        // who leaves: a non-admin if there is one still in the group
        let leaver = if n_admins == 2 && rng.gen_bool(0.5) { "c3" } else { "c4" };
        if w.project(leaver, g)["mls"] != json!("ok") { break; }
        if rng.gen_bool(0.5) {
            clock += 1;
            let s = all[rng.gen_range(0..4)];
            let mv = step(&mut w, r, json!({"op":"Send","c":s,"g":g,"ts":clock,"rank":0,"mts":clock}));
            if mv["res"] == json!("Ok") { for c in all { if rng.gen_bool(0.7) { step(&mut w, r, json!({"op":"Deliver","c":c,"e":mv["e"],"ts":clock,"rank":0})); } } }
        }
        clock += 1;
        let lv = step(&mut w, r, json!({"op":"Leave","c":leaver,"g":g,"ts":clock,"rank":0}));
        if lv["res"] != json!("Ok") { break; }
        let p = lv["e"].as_str().unwrap().to_string();
        // the proposal reaches the admins (each auto-commits with its own timestamp / id) and some of the others
        let mut commits: Vec<String> = vec![];
        let mut order: Vec<&str> = all.iter().cloned().filter(|c| *c != leaver).collect();
        order.shuffle(rng);
        let late: Option<&str> = if rng.gen_bool(0.3) { Some(order[order.len() - 1]) } else { None };
        let explicit: Option<String> = if rng.gen_bool(0.3) { Some(admins[rng.gen_range(0..n_admins)].clone()) } else { None };
        for c in &order {
            if Some(*c) == late { continue; }
            if explicit.as_deref() == Some(*c) {
                // this admin commits something of its own before it sees the proposal
                let rk = ranks.remove(rng.gen_range(0..ranks.len()));
                let ts = clock + rng.gen_range(0..3);
                let v = step(&mut w, r, json!({"op":"Commit","c":c,"g":g,"kind":"rename","arg":format!("x{clock}"),"ts":ts,"rank":rk}));
                if v["res"] == json!("Ok") { commits.push(v["e"].as_str().unwrap().to_string()); }
                continue;
            }
            let rk = ranks.remove(rng.gen_range(0..ranks.len()));
            let ts = clock + rng.gen_range(0..3);
            let v = step(&mut w, r, json!({"op":"Deliver","c":c,"e":p,"ts":ts,"rank":rk}));
            if let Some(o) = v["out"].as_str() { if !o.is_empty() { commits.push(o.to_string()); } }
        }
        // a non-admin that holds the queued proposal refreshes its own leaf: self_update() sweeps the proposal store into a
        // commit that everybody must refuse (it carries out somebody else's proposal without admin rights)
        if n_admins == 2 && rng.gen_bool(0.4) {
            let na = if leaver == "c4" { "c3" } else { "c4" };
            if Some(na) != late && w.project(na, g)["nprops"] != json!(0) {
                let rk = ranks.remove(rng.gen_range(0..ranks.len()));
                let ts = clock + rng.gen_range(0..3);
                let v = step(&mut w, r, json!({"op":"Commit","c":na,"g":g,"kind":"self_update","arg":"","ts":ts,"rank":rk}));
                if v["res"] == json!("Ok") { commits.push(v["e"].as_str().unwrap().to_string()); }
            }
        }
        clock += 3;
        // the commits travel in random order; everybody (authors included) is offered each of them, some twice
        let mut deliveries: Vec<(String, String)> = vec![];
        for e in &commits { for c in all { deliveries.push((c.to_string(), e.clone())); if rng.gen_bool(0.2) { deliveries.push((c.to_string(), e.clone())); } } }
        deliveries.shuffle(rng);
        for (i, (c, e)) in deliveries.iter().enumerate() {
            step(&mut w, r, json!({"op":"Deliver","c":c,"e":e,"ts":clock,"rank":0}));
            if let Some(l) = late { if i == deliveries.len() / 2 { step(&mut w, r, json!({"op":"Deliver","c":l,"e":p,"ts":clock,"rank":0})); } }
            if cfg.restarts && rng.gen_range(0..100) < 4 && w.clients[c.as_str()].backend == "sql" {
                step(&mut w, r, json!({"op":"Restart","c":c}));
            }
        }
        if ranks.len() < 5 { break; }
    }
    // quiescence passes over everything, in publication order
    let mut stable = false;
    let mut passes = 0;
    for _ in 0..4 {
        passes += 1;
        let before: Vec<Value> = all.iter().map(|c| w.project(c, g)).collect();
        let evs = w.ev_order.clone();
        for e in &evs { for c in all { step(&mut w, r, json!({"op":"Deliver","c":c,"e":e,"ts":clock + 5,"rank":0})); } }
        let after: Vec<Value> = all.iter().map(|c| w.project(c, g)).collect();
        if before == after { stable = true; break; }
    }
    let posts: Vec<Value> = clients.iter().map(|c| json!({"c":c,"g":g,"post":w.project(c, g)})).collect();
    if stable { r.emit(json!({"op":"Quiesce","passes":passes,"stable":true,"regime":"free","posts":posts})); }
    else { r.emit(json!({"op":"Snapshot","posts":posts})); }
}

/// Directed-random leaf reuse (C04 / C03): a member writes messages (honest ones and ones claiming somebody else's key) in
/// epoch e, is removed, a newcomer is added and takes over the freed leaf; the old wrappers arrive late, while e is still
/// inside the past-epoch windows. Authentication must be against the sender's credential of epoch e.
pub fn leaf_history(cfg: &RandCfg, rng: &mut StdRng, r: &mut Recorder, clients: &[&str]) {
    let mut w = World::new(cfg.mdk.clone());
    for (i, c) in clients.iter().enumerate() {
        let be = match cfg.backend.as_str() { "mixed" => if i % 2 == 0 { "mem" } else { "sql" }, x => x };
        w.add_client(c, be);
    }
    r.emit(json!({"op":"Reset"}));
    let g = "g1";
    r.emit(w.op_create("c1", g, &["c2".to_string(), "c3".to_string()], &["c1".to_string()]));
    let step = |w: &mut World, r: &mut Recorder, a: Value| -> Value { let v = exec_action(w, &a); r.emit(v.clone()); v };
    let mut clock = 40u64;
    let b = if rng.gen_bool(0.5) { "c2" } else { "c3" };
    let stay = if b == "c2" { "c3" } else { "c2" };
    // B's messages of epoch e: honest, claiming the newcomer's key, claiming a present member's key
    let mut late: Vec<String> = vec![];
    for _ in 0..rng.gen_range(1..4) {
        clock += 1;
        let v = match rng.gen_range(0..3) {
            0 => step(&mut w, r, json!({"op":"Send","c":b,"g":g,"ts":clock,"rank":0,"mts":clock})),
            1 => step(&mut w, r, json!({"op":"Forge","c":b,"g":g,"claimed":"c4","idclass":"none","ts":clock,"mts":clock})),
            _ => step(&mut w, r, json!({"op":"Forge","c":b,"g":g,"claimed":stay,"idclass":"none","ts":clock,"mts":clock})),
        };
        if v["res"] == json!("Ok") { late.push(v["e"].as_str().unwrap().to_string()); }
    }
    // B is removed, the newcomer is added (and lands in the freed leaf), possibly with commits in between
    clock += 1;
    let rm = step(&mut w, r, json!({"op":"Commit","c":"c1","g":g,"kind":"remove","arg":[b],"ts":clock,"rank":1}));
    if rm["res"] != json!("Ok") { return; }
    step(&mut w, r, json!({"op":"Merge","c":"c1","g":g}));
    step(&mut w, r, json!({"op":"Deliver","c":stay,"e":rm["e"],"ts":clock,"rank":0}));
    if rng.gen_bool(0.5) { step(&mut w, r, json!({"op":"Deliver","c":b,"e":rm["e"],"ts":clock,"rank":0})); }
    clock += 1;
    let ad = step(&mut w, r, json!({"op":"Commit","c":"c1","g":g,"kind":"add","arg":["c4"],"ts":clock,"rank":2}));
    if ad["res"] == json!("Ok") {
        step(&mut w, r, json!({"op":"Merge","c":"c1","g":g}));
        step(&mut w, r, json!({"op":"Deliver","c":stay,"e":ad["e"],"ts":clock,"rank":0}));
        let wn = ad["welcomes"][0].as_str().unwrap().to_string();
        step(&mut w, r, json!({"op":"Welcome","c":"c4","w":wn,"what":"process","fresh":false}));
        step(&mut w, r, json!({"op":"Welcome","c":"c4","w":wn,"what":"accept","fresh":false}));
    }
    for _ in 0..rng.gen_range(0..3) {
        clock += 1;
        let v = step(&mut w, r, json!({"op":"Commit","c":"c1","g":g,"kind":"rename","arg":format!("n{clock}"),"ts":clock,"rank":3}));
        if v["res"] == json!("Ok") {
            step(&mut w, r, json!({"op":"Merge","c":"c1","g":g}));
            for c in [stay, "c4"] { step(&mut w, r, json!({"op":"Deliver","c":c,"e":v["e"],"ts":clock,"rank":0})); }
        }
    }
    // the old wrappers arrive late at everybody (twice)
    for _ in 0..2 {
        for e in &late { for c in ["c1", stay, "c4", b] { step(&mut w, r, json!({"op":"Deliver","c":c,"e":e,"ts":clock + 1,"rank":0})); } }
    }
    let posts: Vec<Value> = clients.iter().map(|c| json!({"c":c,"g":g,"post":w.project(c, g)})).collect();
    r.emit(json!({"op":"Snapshot","posts":posts}));
}

/// Directed-random multi-device histories (C03 / C04 / C05): c4 is a second device of c3's user (same Nostr identity, own leaf).
/// Devices are added one by one, write, leave on their own, and the user is removed by an admin (every leaf must go).
pub fn devices_history(cfg: &RandCfg, rng: &mut StdRng, r: &mut Recorder, clients: &[&str]) {
    let mut w = World::new(cfg.mdk.clone());
    for (i, c) in clients.iter().enumerate() {
        let be = match cfg.backend.as_str() { "mixed" => if i % 2 == 0 { "mem" } else { "sql" }, x => x };
        if *c == "c4" { w.add_client_sibling("c4", "c3", be); } else { w.add_client(c, be); }
    }
    r.emit(json!({"op":"Reset"}));
    let g = "g1";
    let user_admin = rng.gen_bool(0.4);          // is the two-device user an admin?
    let admins: Vec<String> = if user_admin { vec!["c1".into(), "c3".into()] } else { vec!["c1".into()] };
    r.emit(w.op_create("c1", g, &["c2".to_string(), "c3".to_string()], &admins));
    let step = |w: &mut World, r: &mut Recorder, a: Value| -> Value { let v = exec_action(w, &a); r.emit(v.clone()); v };
    let mut clock = 50u64;
    let mut rk = 1u64;
    let everyone = ["c1", "c2", "c3", "c4"];
    let mut spread = |w: &mut World, r: &mut Recorder, e: &str, clock: u64, rng: &mut StdRng, skip: &str| {
        let mut order: Vec<&str> = everyone.iter().cloned().filter(|x| *x != skip).collect();
        order.shuffle(rng);
        for c in order { let v = exec_action(w, &json!({"op":"Deliver","c":c,"e":e,"ts":clock,"rank":0})); r.emit(v); }
    };
    // the second device joins
    clock += 1; rk += 1;
    let adder = if user_admin && rng.gen_bool(0.5) { "c3" } else { "c1" };
    let ad = step(&mut w, r, json!({"op":"Commit","c":adder,"g":g,"kind":"add","arg":["c4"],"ts":clock,"rank":rk}));
    if ad["res"] != json!("Ok") { return; }
    step(&mut w, r, json!({"op":"Merge","c":adder,"g":g}));
    let ade = ad["e"].as_str().unwrap().to_string();
    spread(&mut w, r, &ade, clock, rng, adder);
    let wn = ad["welcomes"][0].as_str().unwrap().to_string();
    // the welcome is also offered to the sibling device, which holds the same identity but not the key package
    if rng.gen_bool(0.5) { step(&mut w, r, json!({"op":"Welcome","c":"c3","w":wn,"what":"process","fresh":false})); }
    step(&mut w, r, json!({"op":"Welcome","c":"c4","w":wn,"what":"process","fresh":false}));
    step(&mut w, r, json!({"op":"Welcome","c":"c4","w":wn,"what":"accept","fresh":false}));
    // traffic from both devices and the others
    for _ in 0..rng.gen_range(2..6) {
        clock += 1;
        let s = everyone[rng.gen_range(0..4)];
        let v = step(&mut w, r, json!({"op":"Send","c":s,"g":g,"ts":clock,"rank":0,"mts":clock}));
        if v["res"] == json!("Ok") { let e = v["e"].as_str().unwrap().to_string(); spread(&mut w, r, &e, clock, rng, ""); }
        if rng.gen_bool(0.3) {
            clock += 1; rk = rk % 15 + 1;
            let who = if user_admin { ["c1", "c3", "c4"][rng.gen_range(0..3)] } else { "c1" };
            let kd = ["rename", "self_update"][rng.gen_range(0..2)];
            let v = step(&mut w, r, json!({"op":"Commit","c":who,"g":g,"kind":kd,"arg":format!("n{clock}"),"ts":clock,"rank":rk}));
            if v["res"] == json!("Ok") { step(&mut w, r, json!({"op":"Merge","c":who,"g":g})); let e = v["e"].as_str().unwrap().to_string(); spread(&mut w, r, &e, clock, rng, who); }
        }
    }
    // one device leaves on its own, or the whole user is removed by the admin
    clock += 1; rk = rk % 15 + 1;
    match rng.gen_range(0..3) {
        0 => {
            let dev = if rng.gen_bool(0.5) { "c3" } else { "c4" };
            let lv = step(&mut w, r, json!({"op":"Leave","c":dev,"g":g,"ts":clock,"rank":0}));
            if lv["res"] == json!("Ok") {
                let p = lv["e"].as_str().unwrap().to_string();
                let v = step(&mut w, r, json!({"op":"Deliver","c":"c1","e":p,"ts":clock,"rank":rk}));
                let out = v["out"].as_str().unwrap_or("").to_string();
                let mut outs: Vec<String> = if out.is_empty() { vec![] } else { vec![out] };
                for c in ["c2", "c3", "c4"] {
                    // (the sibling device of an admin user is an admin too and auto-commits: every delivery gets its own id rank)
                    rk = rk % 15 + 1;
                    let v2 = step(&mut w, r, json!({"op":"Deliver","c":c,"e":p,"ts":clock,"rank":rk}));
                    if let Some(o) = v2["out"].as_str() { if !o.is_empty() { outs.push(o.to_string()); } }
                }
                outs.shuffle(rng);
                for o in outs { spread(&mut w, r, &o, clock, rng, ""); }
            }
        }
        _ => {
            let rm = step(&mut w, r, json!({"op":"Commit","c":"c1","g":g,"kind":"remove","arg":["c3"],"ts":clock,"rank":rk}));
            if rm["res"] == json!("Ok") {
                step(&mut w, r, json!({"op":"Merge","c":"c1","g":g}));
                let e = rm["e"].as_str().unwrap().to_string();
                spread(&mut w, r, &e, clock, rng, "c1");
            }
        }
    }
    // later traffic: nobody who is out may read it
    for _ in 0..rng.gen_range(1..4) {
        clock += 1;
        let s = ["c1", "c2", "c3", "c4"][rng.gen_range(0..4)];
        let v = step(&mut w, r, json!({"op":"Send","c":s,"g":g,"ts":clock,"rank":0,"mts":clock}));
        if v["res"] == json!("Ok") { let e = v["e"].as_str().unwrap().to_string(); spread(&mut w, r, &e, clock, rng, ""); }
    }
    let evs = w.ev_order.clone();
    for e in &evs { for c in everyone { step(&mut w, r, json!({"op":"Deliver","c":c,"e":e,"ts":clock + 3,"rank":0})); } }
    let posts: Vec<Value> = clients.iter().map(|c| json!({"c":c,"g":g,"post":w.project(c, g)})).collect();
    r.emit(json!({"op":"Snapshot","posts":posts}));
}

/// Directed-random re-join after a fork (C01 / C02 / C03 / C20): an admin walks down a branch of its own while the other admin
/// removes it on the competing branch and later invites it back; the returning member then meets every event of both branches
/// (its own old commits, its removal, the traffic of the branch it missed) in random order.
pub fn rejoin_history(cfg: &RandCfg, rng: &mut StdRng, r: &mut Recorder, clients: &[&str]) {
    let mut w = World::new(cfg.mdk.clone());
    for (i, c) in clients.iter().enumerate() {
        let be = match cfg.backend.as_str() { "mixed" => if i % 2 == 0 { "mem" } else { "sql" }, x => x };
        w.add_client(c, be);
    }
    r.emit(json!({"op":"Reset"}));
    let g = "g1";
    r.emit(w.op_create("c1", g, &["c2".to_string(), "c3".to_string()], &["c1".to_string(), "c2".to_string()]));
    let step = |w: &mut World, r: &mut Recorder, a: Value| -> Value { let v = exec_action(w, &a); r.emit(v.clone()); v };
    let mut clock = 60u64;
    let mut rk = 0u64;
    // c1's own branch: d1 commits (late timestamps: they lose), applied by merge or by echo, with some traffic
    let d1 = rng.gen_range(1..4);
    for i in 0..d1 {
        clock += 1; rk += 1;
        let kd = ["rename", "self_update", "redesc"][rng.gen_range(0..3)];
        let v = step(&mut w, r, json!({"op":"Commit","c":"c1","g":g,"kind":kd,"arg":format!("a{i}"),"ts":clock + 100,"rank":rk}));
        if v["res"] != json!("Ok") { break; }
        if rng.gen_bool(0.5) { step(&mut w, r, json!({"op":"Merge","c":"c1","g":g})); }
        else { step(&mut w, r, json!({"op":"Deliver","c":"c1","e":v["e"],"ts":clock + 100,"rank":0})); }
        if rng.gen_bool(0.5) { step(&mut w, r, json!({"op":"Send","c":"c1","g":g,"ts":clock + 100,"rank":0,"mts":clock})); }
    }
    // the competing branch: c2 removes c1, commits d2 more times, then invites c1 back
    clock += 1; rk += 1;
    let rm = step(&mut w, r, json!({"op":"Commit","c":"c2","g":g,"kind":"remove","arg":["c1"],"ts":clock,"rank":rk}));
    if rm["res"] != json!("Ok") { return; }
    step(&mut w, r, json!({"op":"Merge","c":"c2","g":g}));
    step(&mut w, r, json!({"op":"Deliver","c":"c3","e":rm["e"],"ts":clock,"rank":0}));
    for i in 0..rng.gen_range(0..3) {
        clock += 1; rk += 1;
        let who = if rng.gen_bool(0.7) { "c2" } else { "c3" };
        if who == "c2" {
            let v = step(&mut w, r, json!({"op":"Commit","c":"c2","g":g,"kind":"rename","arg":format!("b{i}"),"ts":clock,"rank":rk}));
            if v["res"] == json!("Ok") { step(&mut w, r, json!({"op":"Merge","c":"c2","g":g})); step(&mut w, r, json!({"op":"Deliver","c":"c3","e":v["e"],"ts":clock,"rank":0})); }
        } else {
            let v = step(&mut w, r, json!({"op":"Send","c":"c3","g":g,"ts":clock,"rank":0,"mts":clock}));
            if v["res"] == json!("Ok") { step(&mut w, r, json!({"op":"Deliver","c":"c2","e":v["e"],"ts":clock,"rank":0})); }
        }
    }
    clock += 1; rk += 1;
    let ad = step(&mut w, r, json!({"op":"Commit","c":"c2","g":g,"kind":"add","arg":["c1"],"ts":clock,"rank":rk}));
    if ad["res"] != json!("Ok") { return; }
    step(&mut w, r, json!({"op":"Merge","c":"c2","g":g}));
    step(&mut w, r, json!({"op":"Deliver","c":"c3","e":ad["e"],"ts":clock,"rank":0}));
    let wn = ad["welcomes"][0].as_str().unwrap().to_string();
    // c1 may see part of the other branch before it comes back
    if rng.gen_bool(0.4) { step(&mut w, r, json!({"op":"Deliver","c":"c1","e":rm["e"],"ts":clock,"rank":0})); }
    step(&mut w, r, json!({"op":"Welcome","c":"c1","w":wn,"what":"process","fresh":false}));
    step(&mut w, r, json!({"op":"Welcome","c":"c1","w":wn,"what":"accept","fresh":false}));
    // traffic after the return
    for s in ["c2", "c1", "c3"] {
        if rng.gen_bool(0.7) {
            clock += 1;
            let v = step(&mut w, r, json!({"op":"Send","c":s,"g":g,"ts":clock,"rank":0,"mts":clock}));
            if v["res"] == json!("Ok") { for c in ["c1", "c2", "c3"] { step(&mut w, r, json!({"op":"Deliver","c":c,"e":v["e"],"ts":clock,"rank":0})); } }
        }
    }
    if rng.gen_bool(0.5) {
        clock += 1; rk += 1;
        let v = step(&mut w, r, json!({"op":"Commit","c":"c2","g":g,"kind":"rename","arg":"after","ts":clock,"rank":rk}));
        if v["res"] == json!("Ok") { step(&mut w, r, json!({"op":"Merge","c":"c2","g":g})); for c in ["c1", "c3"] { step(&mut w, r, json!({"op":"Deliver","c":c,"e":v["e"],"ts":clock,"rank":0})); } }
    }
    // everything is offered to everybody until nothing changes
    let mut stable = false; let mut passes = 0;
    for _ in 0..4 {
        passes += 1;
        let before: Vec<Value> = ["c1", "c2", "c3"].iter().map(|c| w.project(c, g)).collect();
        let mut order: Vec<(String, String)> = vec![];
        for e in &w.ev_order { for c in ["c1", "c2", "c3"] { order.push((c.to_string(), e.clone())); } }
        order.shuffle(rng);
        for (c, e) in order { step(&mut w, r, json!({"op":"Deliver","c":c,"e":e,"ts":clock + 5,"rank":0})); }
        let after: Vec<Value> = ["c1", "c2", "c3"].iter().map(|c| w.project(c, g)).collect();
        if before == after { stable = true; break; }
    }
    let posts: Vec<Value> = clients.iter().map(|c| json!({"c":c,"g":g,"post":w.project(c, g)})).collect();
    if stable { r.emit(json!({"op":"Quiesce","passes":passes,"stable":true,"regime":"free","posts":posts})); }
    else { r.emit(json!({"op":"Snapshot","posts":posts})); }
}

pub fn run_random(cfg: &RandCfg, r: &mut Recorder) {
    let clients = ["c1", "c2", "c3", "c4"];
    let sql: Vec<&str> = match cfg.backend.as_str() {
        "sql" => clients.to_vec(),
        "mixed" => clients.iter().enumerate().filter(|(i, _)| i % 2 == 1).map(|(_, c)| *c).collect(),
        _ => vec![],
    };
    let mut m = meta(&clients, &["g1", "g2"], &sql, &cfg.mdk);
    if cfg.profile == "devices" { m["users"] = json!({"c1":"c1","c2":"c2","c3":"c3","c4":"c3"}); }
    r.emit(m);
    let mut rng = StdRng::seed_from_u64(cfg.seed);
    for _ in 0..cfg.histories {
        if cfg.profile == "welcome" { welcome_history(cfg, &mut rng, r, &clients); }
        else if cfg.profile == "fork" { fork_history(cfg, &mut rng, r, &clients); }
        else if cfg.profile == "props" { props_history(cfg, &mut rng, r, &clients); }
        else if cfg.profile == "leaf" { leaf_history(cfg, &mut rng, r, &clients); }
        else if cfg.profile == "devices" { devices_history(cfg, &mut rng, r, &clients); }
        else if cfg.profile == "rejoin" { rejoin_history(cfg, &mut rng, r, &clients); }
        else { random_history(cfg, &mut rng, r, &clients); }
    }
}
