//! Tables "ext" (decode) and "extenc" (encode through MDK::update_group_data).

use std::collections::BTreeSet;

use mdk_core::MDK;
use mdk_core::extension::NostrGroupDataExtension;
use mdk_core::groups::{NostrGroupConfigData, NostrGroupDataUpdate};
use mdk_memory_storage::MdkMemoryStorage;
use nostr::{Keys, PublicKey, RelayUrl};
use openmls::prelude::{Extension, ExtensionType, UnknownExtension};
use openmls_basic_credential::SignatureKeyPair;
use openmls_traits::OpenMlsProvider as _;
use rand::rngs::StdRng;
use rand::seq::SliceRandom;
use rand::Rng;
use serde_json::{Value, json};

use crate::enc::{RawExt, ctx_with_ext, wire_presence};
use crate::generate as g;

fn s<'a>(shape: &'a Value, f: &str) -> &'a str {
    shape[f].as_str().unwrap_or_else(|| panic!("shape field {f}"))
}

fn opt_field(r: &mut StdRng, cls: &str, n: usize) -> Vec<u8> {
    match cls {
        "absent" => vec![],
        "exact" => g::bytes(r, n),
        "short" => {
            let k = *[1usize, n - 1, r.gen_range(1..n)].choose(r).unwrap();
            g::bytes(r, k)
        }
        "long" => {
            let k = *[n + 1, n + r.gen_range(1..40), 2 * n, n + 4].choose(r).unwrap();
            g::bytes(r, k)
        }
        _ => panic!("opt class {cls}"),
    }
}

struct Built {
    bytes: Vec<u8>,
    raw: RawExt,
    admins: BTreeSet<PublicKey>,
    relays: BTreeSet<RelayUrl>,
    detail: String,
}

fn build(r: &mut StdRng, shape: &Value) -> Built {
    let ver = shape["ver"].as_u64().unwrap() as u16;
    let nid_cls = s(shape, "nid");
    let mut name = match s(shape, "name") {
        "badutf8" => g::bad_utf8(r),
        c => g::string_of(r, c).into_bytes(),
    };
    let desc = match s(shape, "desc") {
        "badutf8" => g::bad_utf8(r),
        c => g::string_of(r, c).into_bytes(),
    };
    let nid = match nid_cls {
        "exact" => g::bytes(r, 32),
        "short" => {
            // the parser now takes the name's length byte as nid[31] and reads the name header from the name's
            // first byte: a letter >= 'P' announces >= 4096 bytes, more than the (short) rest of the struct
            name = format!("{}{}", ['P', 'Q', 'Z', 'p', 'z'].choose(r).unwrap(), g::ascii(r, 8)).into_bytes();
            g::bytes(r, 31)
        }
        "long" => {
            // the 33rd byte is read as the name's length header: 0b11...... is not a valid length prefix
            let mut v = g::bytes(r, 32);
            v.push(0xc0 | r.r#gen::<u8>());
            v
        }
        c => panic!("nid class {c}"),
    };
    let mut admins_set = BTreeSet::new();
    let mut admin_bytes: Vec<[u8; 32]> = vec![];
    let mut ragged_extra = vec![];
    match s(shape, "adm") {
        "0" => {}
        "1" => admin_bytes.push(g::arr32(r)),
        "2" => {
            admin_bytes.push(g::arr32(r));
            admin_bytes.push(g::arr32(r));
        }
        "dup" => {
            let a = g::arr32(r);
            admin_bytes.push(a);
            if r.gen_bool(0.5) {
                admin_bytes.push(g::arr32(r));
            }
            admin_bytes.push(a);
        }
        "ragged" => {
            admin_bytes.push(g::arr32(r));
            let k = r.gen_range(1..32);
            ragged_extra = g::bytes(r, k);
        }
        c => panic!("adm class {c}"),
    }
    admin_bytes.shuffle(r);
    let mut admins = vec![];
    for a in &admin_bytes {
        admins.extend_from_slice(a);
        admins_set.insert(PublicKey::from_byte_array(*a));
    }
    admins.extend(ragged_extra);
    let mut relay_strs: Vec<Vec<u8>> = vec![];
    match s(shape, "rel") {
        "0" => {}
        "1" => relay_strs.extend(g::distinct_relays(r, 1).into_iter().map(String::into_bytes)),
        "2" => relay_strs.extend(g::distinct_relays(r, 2).into_iter().map(String::into_bytes)),
        "dup" => {
            let u = g::distinct_relays(r, 2);
            relay_strs.push(u[0].clone().into_bytes());
            if r.gen_bool(0.5) {
                relay_strs.push(u[1].clone().into_bytes());
            }
            relay_strs.push(u[0].clone().into_bytes());
        }
        "badutf8" => {
            relay_strs.push(g::distinct_relays(r, 1)[0].clone().into_bytes());
            let mut b = b"wss://".to_vec();
            b.extend(g::bad_utf8(r));
            relay_strs.push(b);
        }
        "noturl" => {
            relay_strs.push(g::distinct_relays(r, 1)[0].clone().into_bytes());
            relay_strs.push(g::bad_relay(r).into_bytes());
        }
        c => panic!("rel class {c}"),
    }
    relay_strs.shuffle(r);
    let mut relays_set = BTreeSet::new();
    for x in &relay_strs {
        if let Ok(st) = std::str::from_utf8(x) {
            if let Ok(u) = RelayUrl::parse(st) {
                relays_set.insert(u);
            }
        }
    }
    let raw = RawExt {
        ver,
        nid,
        name,
        desc,
        admins,
        relays: relay_strs,
        hash: opt_field(r, s(shape, "hash"), 32),
        key: opt_field(r, s(shape, "key"), 32),
        nonce: opt_field(r, s(shape, "nonce"), 12),
        upload: opt_field(r, s(shape, "upload"), 32),
    };
    let mut bytes = raw.encode();
    let mut detail = format!(
        "len={} name={}B desc={}B hash={} key={} nonce={} upload={}",
        bytes.len(), raw.name.len(), raw.desc.len(), raw.hash.len(), raw.key.len(), raw.nonce.len(), raw.upload.len()
    );
    match s(shape, "tail") {
        "none" => {}
        "trailing" => {
            let k = r.gen_range(1..9);
            let mut t = g::bytes(r, k);
            if r.gen_bool(0.3) {
                t[0] = 0;
            }
            bytes.extend(t);
            detail.push_str(&format!(" +{k} trailing"));
        }
        "truncated" => {
            let keep = if r.gen_bool(0.3) { bytes.len() - 1 } else { r.gen_range(1..bytes.len()) };
            bytes.truncate(keep);
            detail.push_str(&format!(" cut to {keep}"));
        }
        "emptyinput" => bytes.clear(),
        c => panic!("tail class {c}"),
    }
    Built { bytes, raw, admins: admins_set, relays: relays_set, detail }
}

/// names / descriptions that go through a storage backend stay within its limits (memory: 256 / 4096 bytes)
fn rand_string(r: &mut StdRng, cap: usize) -> String {
    let c = *["empty", "ascii", "multi", "b64", "big"].choose(r).unwrap();
    g::string_capped(r, c, cap)
}

fn pres(v: &NostrGroupDataExtension) -> [bool; 4] {
    [v.image_hash.is_some(), v.image_key.is_some(), v.image_nonce.is_some(), v.image_upload_key.is_some()]
}

pub fn run_decode(r: &mut StdRng, shape: &Value) -> (Value, String) {
    let b = build(r, shape);
    let ctx = ctx_with_ext(&b.bytes).expect("group context");
    match NostrGroupDataExtension::from_group_context(&ctx) {
        Err(e) => {
            let es = format!("{e:?}");
            // error class = which check of the parser refused (diagnostic view only)
            let ecls = if es.starts_with("Tls(") { "tls" }
                else if es.starts_with("ExtensionFormatError") { "trailing" }
                else if es.starts_with("InvalidExtensionVersion") { "version" }
                else if es.starts_with("Utf8(") || es.starts_with("FromUtf8") { "utf8" }
                else if es.starts_with("RelayUrl(") { "relay_url" }
                else if es.starts_with("InvalidImageHashLength") { "hash_len" }
                else if es.starts_with("InvalidImageKeyLength") { "key_len" }
                else if es.starts_with("InvalidImageNonceLength") { "nonce_len" }
                else if es.starts_with("InvalidImageUploadKeyLength") { "upload_len" }
                else { "other" };
            (json!({"res":"refuse","ver":-1,"hash":false,"key":false,"nonce":false,"upload":false,"equal":false,"ecls":ecls,"err":es.chars().take(60).collect::<String>()}), b.detail)
        }
        Ok(v) => {
            let p = pres(&v);
            let equal = v.nostr_group_id.as_slice() == b.raw.nid.as_slice()
                && v.name.as_bytes() == b.raw.name.as_slice()
                && v.description.as_bytes() == b.raw.desc.as_slice()
                && v.admins == b.admins
                && v.relays == b.relays
                && v.image_hash.map(|x| x.to_vec()).unwrap_or_default() == b.raw.hash
                && v.image_key.map(|x| x.to_vec()).unwrap_or_default() == b.raw.key
                && v.image_nonce.map(|x| x.to_vec()).unwrap_or_default() == b.raw.nonce
                && v.image_upload_key.map(|x| x.to_vec()).unwrap_or_default() == b.raw.upload;
            (json!({"res":"accept","ver":v.version,"hash":p[0],"key":p[1],"nonce":p[2],"upload":p[3],"equal":equal,"ecls":"ok","err":""}), b.detail)
        }
    }
}

/// extenc: a real single-member group gets a group-data extension of the given shape (installed with raw OpenMLS),
/// then MDK::update_group_data + merge_pending_commit re-serialise it; the result is read back from the MLS group.
pub fn run_encode(r: &mut StdRng, shape: &Value) -> (Value, String) {
    let mdk = MDK::new(MdkMemoryStorage::default());
    let keys = Keys::generate();
    let me = keys.public_key();
    let cfg = NostrGroupConfigData::new("g".into(), "d".into(), None, None, None, vec![RelayUrl::parse("wss://r.example").unwrap()], vec![me]);
    let res = mdk.create_group(&me, vec![], cfg).expect("create_group");
    let gid = res.group.mls_group_id.clone();

    let ver = shape["ver"].as_u64().unwrap() as u16;
    let b = |f: &str| shape[f].as_bool().unwrap();
    let mut admins: BTreeSet<PublicKey> = BTreeSet::new();
    admins.insert(me);
    if r.gen_bool(0.5) {
        admins.insert(PublicKey::from_byte_array(g::arr32(r)));
    }
    let nrel = r.gen_range(0..3);
    let relays: BTreeSet<RelayUrl> = g::distinct_relays(r, nrel).iter().map(|u| RelayUrl::parse(u).unwrap()).collect();
    let mut val = NostrGroupDataExtension {
        version: ver,
        nostr_group_id: g::arr32(r),
        name: rand_string(r, 256),
        description: rand_string(r, 4096),
        admins,
        relays,
        image_hash: b("hash").then(|| g::arr32(r)),
        image_key: b("key").then(|| g::arr32(r)),
        image_nonce: b("nonce").then(|| g::arr12(r)),
        image_upload_key: b("upload").then(|| g::arr32(r)),
    };
    // reference encoding of the base value (admins / relays in random order)
    let mut adm: Vec<[u8; 32]> = val.admins.iter().map(|p| *p.as_bytes()).collect();
    adm.shuffle(r);
    let mut rel: Vec<Vec<u8>> = val.relays.iter().map(|u| u.to_string().into_bytes()).collect();
    rel.shuffle(r);
    let raw = RawExt {
        ver,
        nid: val.nostr_group_id.to_vec(),
        name: val.name.clone().into_bytes(),
        desc: val.description.clone().into_bytes(),
        admins: adm.concat(),
        relays: rel,
        hash: val.image_hash.map(|x| x.to_vec()).unwrap_or_default(),
        key: val.image_key.map(|x| x.to_vec()).unwrap_or_default(),
        nonce: val.image_nonce.map(|x| x.to_vec()).unwrap_or_default(),
        upload: val.image_upload_key.map(|x| x.to_vec()).unwrap_or_default(),
    };
    {
        let mut grp = mdk.load_mls_group(&gid).unwrap().unwrap();
        let signer = SignatureKeyPair::read(
            mdk.provider.storage(),
            grp.own_leaf().unwrap().signature_key().as_slice(),
            grp.ciphersuite().signature_algorithm(),
        )
        .expect("signer");
        let mut exts = grp.extensions().clone();
        exts.add_or_replace(Extension::Unknown(0xF2EE, UnknownExtension(raw.encode()))).expect("replace ext");
        grp.update_group_context_extensions(&mdk.provider, exts, &signer).expect("install ext");
        grp.merge_pending_commit(&mdk.provider).expect("merge install");
    }
    // the update
    let upd_cls = s(shape, "upd");
    let mut upd = NostrGroupDataUpdate::new();
    match upd_cls {
        "none" => {}
        "rename" => {
            val.name = rand_string(r, 256);
            upd = upd.name(val.name.clone());
        }
        "redesc" => {
            val.description = rand_string(r, 4096);
            upd = upd.description(val.description.clone());
        }
        "relays" => {
            let nr = r.gen_range(0..4);
            let rs: Vec<RelayUrl> = g::distinct_relays(r, nr).iter().map(|u| RelayUrl::parse(u).unwrap()).collect();
            val.relays = rs.iter().cloned().collect();
            upd = upd.relays(rs);
        }
        "rotate" => {
            val.nostr_group_id = g::arr32(r);
            upd = upd.nostr_group_id(val.nostr_group_id);
        }
        "set_image" => {
            val.image_hash = Some(g::arr32(r));
            val.image_key = Some(g::arr32(r));
            val.image_nonce = Some(g::arr12(r));
            val.image_upload_key = Some(g::arr32(r));
            upd = upd.image_hash(val.image_hash).image_key(val.image_key).image_nonce(val.image_nonce).image_upload_key(val.image_upload_key);
        }
        "clear_image" => {
            val.image_hash = None;
            val.image_key = None;
            val.image_nonce = None;
            val.image_upload_key = None;
            upd = upd.image_hash(None);
        }
        "set_upload" => {
            val.image_upload_key = Some(g::arr32(r));
            upd = upd.image_upload_key(val.image_upload_key);
        }
        "clear_upload" => {
            val.image_upload_key = None;
            upd = upd.image_upload_key(None);
        }
        c => panic!("upd class {c}"),
    }
    let detail = format!("name={}B desc={}B admins={} relays={}", val.name.len(), val.description.len(), val.admins.len(), val.relays.len());
    let fail = |e: String| (json!({"res":"refuse","ver":-1,"hash":false,"key":false,"nonce":false,"upload":false,"equal":false,"err":e.chars().take(80).collect::<String>()}), detail.clone());
    if let Err(e) = mdk.update_group_data(&gid, upd) {
        return fail(format!("update_group_data: {e:?}"));
    }
    if let Err(e) = mdk.merge_pending_commit(&gid) {
        return fail(format!("merge_pending_commit: {e:?}"));
    }
    let grp = mdk.load_mls_group(&gid).unwrap().unwrap();
    let wire: Vec<u8> = grp
        .extensions()
        .iter()
        .find_map(|e| match e {
            Extension::Unknown(t, UnknownExtension(b)) if *t == 0xF2EE => Some(b.clone()),
            _ => None,
        })
        .unwrap_or_default();
    let _ = ExtensionType::Unknown(0xF2EE);
    let Some((wver, lens)) = wire_presence(&wire) else { return fail("wire not parseable by the reference reader".into()) };
    let back = match NostrGroupDataExtension::from_group(&grp) {
        Ok(v) => v,
        Err(e) => return fail(format!("from_group: {e:?}")),
    };
    // the stored group record must mirror it as well (what the application sees)
    let rec = mdk.get_group(&gid).ok().flatten();
    let rec_ok = rec.map(|g| g.name == val.name && g.description == val.description && g.image_hash == val.image_hash && g.nostr_group_id == val.nostr_group_id).unwrap_or(false);
    let equal = back == val && rec_ok;
    (
        json!({"res":"accept","ver":wver,"hash":lens[0]==32,"key":lens[1]==32,"nonce":lens[2]==12,"upload":lens[3]==32,"equal":equal,"err":""}),
        detail,
    )
}
