//! Reference wire encoder for the group-data extension (independent of mdk's as_raw) and helpers to hand
//! arbitrary extension bytes to the real parser through a GroupContext.

use openmls::group::GroupContext;
use tls_codec::Deserialize as _;

/// MLS variable-length header (RFC 9420 section 2.1.2)
pub fn vl(n: usize) -> Vec<u8> {
    if n < 64 {
        vec![n as u8]
    } else if n < 16384 {
        vec![0x40 | (n >> 8) as u8, n as u8]
    } else {
        vec![0x80 | (n >> 24) as u8, (n >> 16) as u8, (n >> 8) as u8, n as u8]
    }
}
pub fn vlb(b: &[u8]) -> Vec<u8> {
    let mut o = vl(b.len());
    o.extend_from_slice(b);
    o
}

/// The extension on the wire, field by field (every field raw so that ill-formed encodings can be built).
#[derive(Clone, Debug)]
pub struct RawExt {
    pub ver: u16,
    pub nid: Vec<u8>,          // 32 bytes when well-formed (no length prefix on the wire)
    pub name: Vec<u8>,
    pub desc: Vec<u8>,
    pub admins: Vec<u8>,       // concatenated 32-byte keys (body of the vector)
    pub relays: Vec<Vec<u8>>,
    pub hash: Vec<u8>,
    pub key: Vec<u8>,
    pub nonce: Vec<u8>,
    pub upload: Vec<u8>,
}

impl RawExt {
    pub fn encode(&self) -> Vec<u8> {
        let mut o = vec![];
        o.extend_from_slice(&self.ver.to_be_bytes());
        o.extend_from_slice(&self.nid);
        o.extend(vlb(&self.name));
        o.extend(vlb(&self.desc));
        o.extend(vlb(&self.admins));
        let mut r = vec![];
        for x in &self.relays {
            r.extend(vlb(x));
        }
        o.extend(vlb(&r));
        o.extend(vlb(&self.hash));
        o.extend(vlb(&self.key));
        o.extend(vlb(&self.nonce));
        o.extend(vlb(&self.upload));
        o
    }
}

fn read_vl(b: &[u8], p: &mut usize) -> Option<usize> {
    let f = *b.get(*p)?;
    let (len, n) = match f >> 6 {
        0 => ((f & 0x3f) as usize, 1),
        1 => ((((f & 0x3f) as usize) << 8) | *b.get(*p + 1)? as usize, 2),
        2 => (
            (((f & 0x3f) as usize) << 24) | ((*b.get(*p + 1)? as usize) << 16) | ((*b.get(*p + 2)? as usize) << 8) | *b.get(*p + 3)? as usize,
            4,
        ),
        _ => return None,
    };
    *p += n;
    Some(len)
}
fn read_vlb<'a>(b: &'a [u8], p: &mut usize) -> Option<&'a [u8]> {
    let n = read_vl(b, p)?;
    let s = b.get(*p..*p + n)?;
    *p += n;
    Some(s)
}

/// Minimal reader of a well-formed extension: (version, lengths of the four optional fields). Used only to
/// observe what mdk put on the wire.
pub fn wire_presence(b: &[u8]) -> Option<(u16, [usize; 4])> {
    let ver = u16::from_be_bytes([*b.first()?, *b.get(1)?]);
    let mut p = 2 + 32;
    read_vlb(b, &mut p)?; // name
    read_vlb(b, &mut p)?; // desc
    read_vlb(b, &mut p)?; // admins
    read_vlb(b, &mut p)?; // relays
    let h = read_vlb(b, &mut p)?.len();
    let k = read_vlb(b, &mut p)?.len();
    let n = read_vlb(b, &mut p)?.len();
    let u = read_vlb(b, &mut p)?.len();
    if p != b.len() {
        return None;
    }
    Some((ver, [h, k, n, u]))
}

/// A syntactically valid GroupContext whose only extension is 0xF2EE with the given body.
pub fn ctx_with_ext(ext_bytes: &[u8]) -> Result<GroupContext, String> {
    let mut o = vec![];
    o.extend_from_slice(&1u16.to_be_bytes()); // ProtocolVersion::Mls10
    o.extend_from_slice(&1u16.to_be_bytes()); // MLS_128_DHKEMX25519_AES128GCM_SHA256_Ed25519
    o.extend(vlb(b"verif-group"));
    o.extend_from_slice(&3u64.to_be_bytes());
    o.extend(vlb(&[1u8; 32]));
    o.extend(vlb(&[2u8; 32]));
    let mut ext = vec![];
    ext.extend_from_slice(&0xF2EEu16.to_be_bytes());
    ext.extend(vlb(ext_bytes));
    o.extend(vlb(&ext));
    GroupContext::tls_deserialize_exact(&o).map_err(|e| format!("{e:?}"))
}
