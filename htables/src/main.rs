// probe (temporary)
use mdk_core::MDK;
use mdk_core::extension::NostrGroupDataExtension;
use mdk_core::groups::{NostrGroupConfigData, NostrGroupDataUpdate};
use mdk_memory_storage::MdkMemoryStorage;
use nostr::base64::Engine;
use nostr::base64::engine::general_purpose::STANDARD as B64;
use nostr::{Event, EventBuilder, EventId, Keys, Kind, RelayUrl, Tag, TagKind};
use openmls::group::GroupContext;
use openmls::prelude::*;
use openmls_basic_credential::SignatureKeyPair;
use openmls_traits::OpenMlsProvider as _;
use tls_codec::{Deserialize as _, Serialize as _};

fn vl(n: usize) -> Vec<u8> {
    // MLS variable-length header (QUIC style)
    if n < 64 {
        vec![n as u8]
    } else if n < 16384 {
        vec![0x40 | (n >> 8) as u8, n as u8]
    } else {
        vec![0x80 | (n >> 24) as u8, (n >> 16) as u8, (n >> 8) as u8, n as u8]
    }
}
fn vlb(b: &[u8]) -> Vec<u8> {
    let mut o = vl(b.len());
    o.extend_from_slice(b);
    o
}

fn ctx_with_ext(ext_bytes: &[u8]) -> Result<GroupContext, String> {
    let mut o = vec![];
    o.extend_from_slice(&1u16.to_be_bytes()); // mls10
    o.extend_from_slice(&1u16.to_be_bytes()); // ciphersuite
    o.extend(vlb(b"gid"));
    o.extend_from_slice(&3u64.to_be_bytes());
    o.extend(vlb(&[1u8; 32]));
    o.extend(vlb(&[2u8; 32]));
    let mut ext = vec![];
    ext.extend_from_slice(&0xF2EEu16.to_be_bytes());
    ext.extend(vlb(ext_bytes));
    o.extend(vlb(&ext));
    GroupContext::tls_deserialize_exact(&o).map_err(|e| format!("{e:?}"))
}

fn main() {
    // 1. group context from bytes
    let mut e = vec![];
    e.extend_from_slice(&1u16.to_be_bytes());
    e.extend_from_slice(&[7u8; 32]);
    e.extend(vlb("näme".as_bytes()));
    e.extend(vlb(b""));
    e.extend(vlb(&[])); // admins
    e.extend(vlb(&[])); // relays
    e.extend(vlb(&[])); // hash
    e.extend(vlb(&[])); // key
    e.extend(vlb(&[])); // nonce
    e.extend(vlb(&[9u8; 32])); // upload key
    let ctx = ctx_with_ext(&e).expect("ctx");
    println!("ext v1: {:?}", NostrGroupDataExtension::from_group_context(&ctx));
    let mut e2 = e.clone();
    e2.push(0);
    let ctx = ctx_with_ext(&e2).expect("ctx");
    println!("ext trailing: {:?}", NostrGroupDataExtension::from_group_context(&ctx).is_ok());

    // 2. key package trailing bytes
    let mdk = MDK::new(MdkMemoryStorage::default());
    let keys = Keys::generate();
    let (content, tags, _) = mdk.create_key_package_for_event(&keys.public_key(), vec![RelayUrl::parse("wss://r.example").unwrap()]).unwrap();
    let ev = EventBuilder::new(Kind::MlsKeyPackage, content.clone()).tags(tags.clone()).sign_with_keys(&keys).unwrap();
    println!("kp ok: {}", mdk.parse_key_package(&ev).is_ok());
    let mut raw = B64.decode(&content).unwrap();
    raw.extend_from_slice(&[0, 1, 2]);
    let ev2 = EventBuilder::new(Kind::MlsKeyPackage, B64.encode(&raw)).tags(tags.clone()).sign_with_keys(&keys).unwrap();
    println!("kp trailing accepted: {}", mdk.parse_key_package(&ev2).is_ok());
    let tags3: Vec<Tag> = tags.iter().filter(|t| t.as_slice()[0] != "encoding").cloned().collect();
    let ev3 = EventBuilder::new(Kind::MlsKeyPackage, content.clone()).tags(tags3).sign_with_keys(&keys).unwrap();
    println!("kp no encoding accepted: {}", mdk.parse_key_package(&ev3).is_ok());
    for t in &tags {
        println!("  tag {:?}", t.as_slice());
    }

    // 3. welcome trailing bytes
    let bob = MDK::new(MdkMemoryStorage::default());
    let bk = Keys::generate();
    let (c2, t2, _) = bob.create_key_package_for_event(&bk.public_key(), vec![RelayUrl::parse("wss://r.example").unwrap()]).unwrap();
    let kpe = EventBuilder::new(Kind::MlsKeyPackage, c2).tags(t2).sign_with_keys(&bk).unwrap();
    let cfg = NostrGroupConfigData::new("n".into(), "d".into(), None, None, None, vec![RelayUrl::parse("wss://r.example").unwrap()], vec![keys.public_key()]);
    let res = mdk.create_group(&keys.public_key(), vec![kpe], cfg).unwrap();
    let rumor = res.welcome_rumors[0].clone();
    for t in rumor.tags.iter() {
        println!("  wtag {:?}", t.as_slice());
    }
    println!("  rumor id {:?} kind {:?}", rumor.id, rumor.kind);
    let mut r2 = rumor.clone();
    let mut raw = B64.decode(&rumor.content).unwrap();
    raw.extend_from_slice(&[0, 1, 2]);
    r2.content = B64.encode(&raw);
    r2.id = None;
    r2.ensure_id();
    let wid = EventId::from_slice(&[5u8; 32]).unwrap();
    println!("welcome trailing accepted: {:?}", bob.process_welcome(&wid, &r2).map(|w| w.group_name));
    let wid2 = EventId::from_slice(&[6u8; 32]).unwrap();
    println!("welcome plain accepted: {:?}", bob.process_welcome(&wid2, &rumor).map(|w| w.group_name));

    // 4. media: same content, different name, later epoch
    let gid = res.group.mls_group_id.clone();
    let mm = mdk.media_manager(gid.clone());
    let data = b"hello world".to_vec();
    let up1 = mm.encrypt_for_upload(&data, "text/plain", "a.txt").unwrap();
    let tag1 = mm.create_imeta_tag(&up1, "https://x/1");
    let rumor1 = EventBuilder::new(Kind::Custom(9), "f1").tags([tag1.clone()]).build(keys.public_key());
    let _ev1 = mdk.create_message(&gid, rumor1).unwrap();
    // advance epoch
    let u = mdk.update_group_data(&gid, NostrGroupDataUpdate::new().name("x")).unwrap();
    let _ = u;
    mdk.merge_pending_commit(&gid).unwrap();
    let up2 = mm.encrypt_for_upload(&data, "text/plain", "b.txt").unwrap();
    let tag2 = mm.create_imeta_tag(&up2, "https://x/2");
    let rumor2 = EventBuilder::new(Kind::Custom(9), "f2").tags([tag2.clone()]).build(keys.public_key());
    let _ev2 = mdk.create_message(&gid, rumor2).unwrap();
    let r1 = mm.parse_imeta_tag(&tag1).unwrap();
    let r2 = mm.parse_imeta_tag(&tag2).unwrap();
    println!("same epoch: f1 {:?} f2 {:?}", mm.decrypt_from_download(&up1.encrypted_data, &r1).is_ok(), mm.decrypt_from_download(&up2.encrypted_data, &r2).is_ok());
    mdk.update_group_data(&gid, NostrGroupDataUpdate::new().name("y")).unwrap();
    mdk.merge_pending_commit(&gid).unwrap();
    println!("later epoch: f1 {:?} f2 {:?}", mm.decrypt_from_download(&up1.encrypted_data, &r1).map(|d| d == data), mm.decrypt_from_download(&up2.encrypted_data, &r2).map(|d| d == data));
    // empty payload
    let up0 = mm.encrypt_for_upload(&[], "text/plain", "e.txt");
    println!("empty payload: {:?}", up0.as_ref().map(|u| u.encrypted_data.len()));
    let _ = (SignatureKeyPair::read(mdk.provider.storage(), &[], SignatureScheme::ED25519).is_none(), TagKind::Relays, Event::verify);
}
