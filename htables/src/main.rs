//! htables: executes the cases enumerated by TLC from Tables.tla against the real mdk code and drives the
//! media-history scenarios of TablesMedia.tla.  Rust only executes and projects; the verdict is TLC's.
//!
//!   htables tables <cases.ndjson> <out.ndjson> seed=N inst=K tables=ext,kp,... tier=quick
//!   htables hist   <out.ndjson> seed=N n=K backend=mem|sql|mixed

mod enc;
mod generate;
mod hist;
mod t_ext;
mod t_kp;
mod t_media;
mod t_wl;

use std::collections::HashMap;
use std::io::{BufRead, Write};
use std::panic::{AssertUnwindSafe, catch_unwind};

use serde_json::{Value, json};

fn kv(args: &[String]) -> HashMap<String, String> {
    let mut m = HashMap::new();
    for a in args {
        if let Some((k, v)) = a.split_once('=') {
            m.insert(k.to_string(), v.to_string());
        }
    }
    m
}

fn panic_obs(t: &str) -> Value {
    match t {
        "media" => json!({"enc":"panic","dec":"panic","err":"panic"}),
        "gimg" => json!({"dec":"panic","err":"panic"}),
        "ext" | "extenc" => json!({"res":"panic","ver":-1,"hash":false,"key":false,"nonce":false,"upload":false,"equal":false,"ecls":"panic","err":"panic"}),
        _ => json!({"res":"panic","equal":false,"err":"panic"}),
    }
}

fn run_tables(cases: &str, out: &str, opt: &HashMap<String, String>) {
    let seed: u64 = opt.get("seed").map(|s| s.parse().unwrap()).unwrap_or(1);
    let inst: u64 = opt.get("inst").map(|s| s.parse().unwrap()).unwrap_or(1);
    let tier = opt.get("tier").cloned().unwrap_or("quick".into());
    let only: Option<String> = opt.get("case").cloned(); // replay: exact JSON of one shape
    let tables: Vec<String> = opt.get("tables").map(|s| s.split(',').map(|x| x.to_string()).collect()).unwrap_or_default();
    let dev: Vec<String> = std::env::var("VERIF_DEV").unwrap_or_default().split(',').filter(|x| !x.is_empty()).map(|x| x.to_string()).collect();
    let f = std::fs::File::open(cases).expect("cases file");
    let mut w = std::io::BufWriter::new(std::fs::File::create(out).expect("out file"));
    writeln!(w, "{}", json!({"t":"meta","tables":tables,"tier":tier,"seed":seed,"inst":inst,"dev":dev,"partial":only.is_some() || opt.contains_key("partial")})).unwrap();
    if std::env::var("VERIF_PANICS").is_err() { std::panic::set_hook(Box::new(|_| {})); }
    let world = t_media::MediaWorld::new();
    let mut n = 0u64;
    for line in std::io::BufReader::new(f).lines() {
        let line = line.unwrap();
        if line.trim().is_empty() {
            continue;
        }
        let c: Value = serde_json::from_str(&line).expect("case json");
        let t = c["t"].as_str().unwrap().to_string();
        if !tables.iter().any(|x| *x == t) {
            continue;
        }
        let shape = c["s"].clone();
        let key = format!("{}|{}", t, shape);
        if let Some(o) = &only {
            if *o != key {
                continue;
            }
        }
        let only_inst: Option<u64> = opt.get("only_inst").map(|s| s.parse().unwrap());
        for i in 0..inst {
            if only_inst.is_some_and(|x| x != i) {
                continue;
            }
            let mut r = generate::rng_for(seed, &key, i);
            let res = catch_unwind(AssertUnwindSafe(|| match t.as_str() {
                "ext" => t_ext::run_decode(&mut r, &shape),
                "extenc" => t_ext::run_encode(&mut r, &shape),
                "kp" => t_kp::run(&mut r, &shape),
                "welcome" => t_wl::run(&mut r, &shape),
                "imeta" => t_media::run_imeta(&world, &mut r, &shape),
                "media" => t_media::run_media(&world, &mut r, &shape),
                "gimg" => t_media::run_gimg(&mut r, &shape),
                x => panic!("unknown table {x}"),
            }));
            let (o, d) = match res {
                Ok(x) => x,
                Err(_) => (panic_obs(&t), "panic".to_string()),
            };
            n += 1;
            writeln!(w, "{}", json!({"t":t,"s":shape,"o":o,"i":i,"d":d})).unwrap();
        }
    }
    w.flush().unwrap();
    eprintln!("htables: {n} cases executed");
}

fn main() {
    let args: Vec<String> = std::env::args().collect();
    match args.get(1).map(|s| s.as_str()) {
        Some("tables") => run_tables(&args[2], &args[3], &kv(&args[4..])),
        Some("hist") => hist::run(&args[2], &kv(&args[3..])),
        _ => {
            eprintln!("usage: htables tables <cases> <out> k=v.. | hist <out> k=v..");
            std::process::exit(2);
        }
    }
}
