//! Table "kp": key-package events through MDK::parse_key_package.

use mdk_core::MDK;
use mdk_memory_storage::MdkMemoryStorage;
use nostr::base64::Engine;
use nostr::base64::engine::general_purpose::STANDARD as B64;
use nostr::{EventBuilder, Keys, Kind, PublicKey, RelayUrl, Tag};
use openmls::prelude::BasicCredential;
use openmls_traits::OpenMlsProvider as _;
use rand::rngs::StdRng;
use rand::seq::SliceRandom;
use rand::Rng;
use serde_json::{Value, json};

use crate::generate as g;

fn s<'a>(shape: &'a Value, f: &str) -> &'a str {
    shape[f].as_str().unwrap_or_else(|| panic!("shape field {f}"))
}

pub type TagV = Vec<String>;

fn tv(items: &[&str]) -> TagV {
    items.iter().map(|x| x.to_string()).collect()
}

/// Replace the (single) tag named `name` according to the class: `good` is its valid form, `bads` candidate
/// conflicting forms.  Classes: ok / missing / novalue / dupok (valid first) / dupbad (conflicting first) / custom.
pub fn apply_dup(tags: &mut Vec<TagV>, name: &str, cls: &str, bad: TagV) -> bool {
    let pos = tags.iter().position(|t| t[0] == name);
    match cls {
        "missing" => {
            tags.retain(|t| t[0] != name);
            true
        }
        "novalue" => {
            if let Some(p) = pos {
                tags[p] = vec![name.to_string()];
            }
            true
        }
        "dupok" => {
            let p = pos.expect("tag present");
            tags.insert(p + 1, bad);
            true
        }
        "dupbad" => {
            let p = pos.expect("tag present");
            tags.insert(p, bad);
            true
        }
        _ => false,
    }
}

fn set_tag(tags: &mut [TagV], name: &str, new: TagV) {
    if let Some(p) = tags.iter().position(|t| t[0] == name) {
        tags[p] = new;
    }
}

/// shuffle while keeping the relative order of tags with the same name (the first-match rules depend on it)
pub fn shuffle_keep_dups(tags: &mut Vec<TagV>, r: &mut StdRng) {
    let mut idx: Vec<usize> = (0..tags.len()).collect();
    idx.shuffle(r);
    let mut out: Vec<TagV> = idx.iter().map(|i| tags[*i].clone()).collect();
    // restore relative order among equal names
    let names: Vec<String> = tags.iter().map(|t| t[0].clone()).collect();
    let mut uniq = names.clone();
    uniq.sort();
    uniq.dedup();
    for n in uniq {
        let orig: Vec<TagV> = tags.iter().filter(|t| t[0] == n).cloned().collect();
        if orig.len() > 1 {
            let mut k = 0;
            for t in out.iter_mut() {
                if t[0] == n {
                    *t = orig[k].clone();
                    k += 1;
                }
            }
        }
    }
    *tags = out;
}

pub fn run(r: &mut StdRng, shape: &Value) -> (Value, String) {
    let mdk = MDK::new(MdkMemoryStorage::default());
    let keys = Keys::generate();
    let other = Keys::generate();
    let pk: PublicKey = keys.public_key();
    let nrel = match s(shape, "relays") {
        "two" => 2,
        "three" => 3,
        _ => 1,
    };
    let relay_strs = g::distinct_relays(r, nrel);
    let relays: Vec<RelayUrl> = relay_strs.iter().map(|u| RelayUrl::parse(u).unwrap()).collect();
    let protected = s(shape, "extra") == "protected";
    let (content, tags0, _hash_ref) = mdk.create_key_package_for_event_with_options(&pk, relays.clone(), protected).expect("create key package");
    // what the library serialised must carry exactly the relays it was given, the protection marker iff asked for,
    // and the encoding tag
    let made_relays: std::collections::BTreeSet<RelayUrl> = tags0
        .iter()
        .filter(|t| t.as_slice()[0] == "relays")
        .flat_map(|t| t.as_slice()[1..].to_vec())
        .filter_map(|u| RelayUrl::parse(&u).ok())
        .collect();
    let tags_faithful = made_relays == relays.iter().cloned().collect()
        && tags0.iter().filter(|t| t.as_slice()[0] == "relays").count() == 1
        && tags0.iter().any(|t| t.as_slice()[0] == "-") == protected
        && tags0.iter().any(|t| t.as_slice() == ["encoding".to_string(), "base64".to_string()]);
    let mut tags: Vec<TagV> = tags0.iter().map(|t| t.as_slice().to_vec()).collect();
    let i_val = tags.iter().find(|t| t[0] == "i").unwrap()[1].clone();
    let raw = B64.decode(&content).unwrap();
    let mut detail = String::new();

    // protocol version
    let c = s(shape, "pv");
    let bad_pv = tv(&["mls_protocol_version", ["2.0", "1.1", "1", "1.0 ", "01.0"].choose(r).unwrap()]);
    if !apply_dup(&mut tags, "mls_protocol_version", c, bad_pv.clone()) && c == "wrong" {
        set_tag(&mut tags, "mls_protocol_version", bad_pv);
    }
    // ciphersuite
    let c = s(shape, "cs");
    let bad_cs = tv(&["mls_ciphersuite", ["0x0002", "0x0003", "0xffff", "0x0000"].choose(r).unwrap()]);
    if !apply_dup(&mut tags, "mls_ciphersuite", c, bad_cs.clone()) {
        match c {
            "wrong" => set_tag(&mut tags, "mls_ciphersuite", bad_cs),
            "short" => set_tag(&mut tags, "mls_ciphersuite", tv(&["mls_ciphersuite", ["0x1", "0x001", "1", "0x00001"].choose(r).unwrap()])),
            "nothex" => set_tag(&mut tags, "mls_ciphersuite", tv(&["mls_ciphersuite", ["0x00zz", "0x000g", "0x 001"].choose(r).unwrap()])),
            "noprefix" => set_tag(&mut tags, "mls_ciphersuite", tv(&["mls_ciphersuite", ["000001", "0X0001", "x00001"].choose(r).unwrap()])),
            // the right number of BYTES (6), but a multi-byte character straddling byte offset 1, 2 or 3 (where a byte-indexed
            // parser would cut), or sitting wholly behind the prefix
            "utf8s1" => set_tag(&mut tags, "mls_ciphersuite", tv(&["mls_ciphersuite", ["\u{20ac}\u{20ac}", "\u{e9}x001", "\u{1f600}01"].choose(r).unwrap()])),
            "utf8s2" => set_tag(&mut tags, "mls_ciphersuite", tv(&["mls_ciphersuite", ["0\u{e9}001", "0\u{20ac}01"].choose(r).unwrap()])),
            "utf8s3" => set_tag(&mut tags, "mls_ciphersuite", tv(&["mls_ciphersuite", ["0x\u{20ac}1", "0x\u{1f600}"].choose(r).unwrap()])),
            "utf8in" => set_tag(&mut tags, "mls_ciphersuite", tv(&["mls_ciphersuite", ["0x\u{e9}\u{e9}", "0x0\u{20ac}"].choose(r).unwrap()])),
            _ => {}
        }
    }
    // extensions
    let c = s(shape, "ext");
    let bad_ext = tv(&["mls_extensions", "0x000a"]);
    if !apply_dup(&mut tags, "mls_extensions", c, bad_ext) {
        match c {
            "upper" => set_tag(&mut tags, "mls_extensions", tv(&["mls_extensions", "0x000A", "0xF2EE"])),
            "extra" => set_tag(&mut tags, "mls_extensions", tv(&["mls_extensions", "0x000a", "0xf2ee", ["0x0003", "0xabcd", "0x0002"].choose(r).unwrap()])),
            "reordered" => set_tag(&mut tags, "mls_extensions", tv(&["mls_extensions", "0xf2ee", "0x000a"])),
            "nof2ee" => set_tag(&mut tags, "mls_extensions", tv(&["mls_extensions", "0x000a", "0xf2ef"])),
            "no000a" => set_tag(&mut tags, "mls_extensions", tv(&["mls_extensions", "0xf2ee"])),
            "malformed" => set_tag(&mut tags, "mls_extensions", tv(&["mls_extensions", "0x000a", ["f2ee", "0xf2eeX", "0xf2e", "0xf2eg", ""].choose(r).unwrap()])),
            "utf8s1" => set_tag(&mut tags, "mls_extensions", tv(&["mls_extensions", "0x000a", ["\u{20ac}\u{20ac}", "\u{e9}x2ee", "\u{1f600}ee"].choose(r).unwrap()])),
            "utf8s2" => set_tag(&mut tags, "mls_extensions", tv(&["mls_extensions", "0x000a", ["0\u{e9}2ee", "0\u{20ac}ee"].choose(r).unwrap()])),
            "utf8s3" => set_tag(&mut tags, "mls_extensions", tv(&["mls_extensions", "0x000a", ["0x\u{20ac}e", "0x\u{1f600}"].choose(r).unwrap()])),
            "utf8in" => set_tag(&mut tags, "mls_extensions", tv(&["mls_extensions", ["0x\u{e9}\u{e9}", "0xf\u{20ac}"].choose(r).unwrap(), "0xf2ee"])),
            _ => {}
        }
    }
    // relays
    let c = s(shape, "relays");
    let bad_rel: TagV = vec!["relays".to_string(), g::bad_relay(r)];
    if !apply_dup(&mut tags, "relays", c, bad_rel.clone()) {
        match c {
            "empty" => set_tag(&mut tags, "relays", tv(&["relays"])),
            "badurl" => {
                let mut t = vec!["relays".to_string()];
                if r.gen_bool(0.5) {
                    t.push(relay_strs[0].clone());
                }
                t.push(g::bad_relay(r));
                set_tag(&mut tags, "relays", t);
            }
            _ => {}
        }
    }
    // i
    let c = s(shape, "i");
    let wrong_i = hex::encode(g::arr32(r));
    if !apply_dup(&mut tags, "i", c, vec!["i".to_string(), wrong_i.clone()]) {
        match c {
            "upper" => set_tag(&mut tags, "i", vec!["i".into(), i_val.to_uppercase()]),
            "empty" => set_tag(&mut tags, "i", tv(&["i", ""])),
            "nothex" => set_tag(&mut tags, "i", vec!["i".into(), format!("zz{}", &i_val[2..])]),
            "utf8" => set_tag(&mut tags, "i", vec!["i".into(), format!("{}{}", ["\u{e9}", "\u{20ac}\u{e9}\u{e9}\u{e9}", "\u{1f600}"].choose(r).unwrap(), &i_val[2..])]),
            "mismatch" => set_tag(&mut tags, "i", vec!["i".into(), wrong_i]),
            "short" => set_tag(&mut tags, "i", vec!["i".into(), i_val[..62].to_string()]),
            "twovalues" => set_tag(&mut tags, "i", vec!["i".into(), i_val.clone(), if r.gen_bool(0.5) { i_val.clone() } else { wrong_i }]),
            _ => {}
        }
    }
    // encoding
    let c = s(shape, "enc");
    if !apply_dup(&mut tags, "encoding", c, tv(&["encoding", ["hex", "base64url", "binary"].choose(r).unwrap()])) {
        match c {
            "upper" => set_tag(&mut tags, "encoding", tv(&["encoding", ["BASE64", "Base64"].choose(r).unwrap()])),
            "hex" => set_tag(&mut tags, "encoding", tv(&["encoding", ["hex", "base64url", "base32", ""].choose(r).unwrap()])),
            _ => {}
        }
    }
    // content
    let content2 = match s(shape, "content") {
        "ok" => content.clone(),
        "empty" => String::new(),
        "notb64" => {
            let mut t = content.clone();
            let p = r.gen_range(0..t.len());
            t.replace_range(p..p + 1, ["!", "%", " ", "-", "_"].choose(r).unwrap());
            if !t.contains(['!', '%', ' ', '-', '_']) {
                t.push('!');
            }
            t
        }
        "garbage" => B64.encode(g::bytes(r, raw.len())),
        "truncated" => {
            let keep = if r.gen_bool(0.3) { raw.len() - 1 } else { r.gen_range(1..raw.len()) };
            detail = format!("cut {} -> {}", raw.len(), keep);
            B64.encode(&raw[..keep])
        }
        "trailing" => {
            let k = r.gen_range(1..17);
            let mut v = raw.clone();
            v.extend(g::bytes(r, k));
            detail = format!("{} + {} trailing bytes", raw.len(), k);
            B64.encode(v)
        }
        c => panic!("content class {c}"),
    };
    if s(shape, "extra") == "unknown" {
        tags.push(tv(&["x-unknown", "value"]));
    }
    shuffle_keep_dups(&mut tags, r);
    let kind = match s(shape, "kind") {
        "443" => Kind::MlsKeyPackage,
        "444" => Kind::MlsWelcome,
        "445" => Kind::MlsGroupMessage,
        _ => Kind::TextNote,
    };
    let signer = if s(shape, "author") == "other" { &other } else { &keys };
    let ntags: Vec<Tag> = tags.iter().map(|t| Tag::parse(t.clone()).expect("tag")).collect();
    let ev = EventBuilder::new(kind, content2).tags(ntags).sign_with_keys(signer).expect("sign");
    match mdk.parse_key_package(&ev) {
        Err(e) => (json!({"res":"refuse","equal":false,"err":format!("{e:?}").chars().take(70).collect::<String>()}), detail),
        Ok(kp) => {
            let href = kp.hash_ref(mdk.provider.crypto()).map(|h| hex::encode(h.as_slice())).unwrap_or_default();
            let ident = BasicCredential::try_from(kp.leaf_node().credential().clone()).ok().map(|c| c.identity().to_vec()).unwrap_or_default();
            let equal = href == i_val && ident == pk.to_bytes().to_vec() && tags_faithful;
            (json!({"res":"accept","equal":equal,"err":""}), detail)
        }
    }
}
