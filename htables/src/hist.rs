//! Media-history scenarios for C17: real MDK clients (memory / SQLite), commits incl. one losing sibling per
//! epoch (MIP-03 rollback), files announced at various epochs, announcing messages and commits processed in
//! arbitrary orders, decryption attempted by members, late joiners, removed members and outsiders.
//! One NDJSON line per call; TablesMediaTrace.tla validates every line against TablesMedia.tla.

use std::collections::{BTreeMap, BTreeSet, HashMap};
use std::io::Write;
use std::panic::{AssertUnwindSafe, catch_unwind};

use mdk_core::encrypted_media::MediaReference;
use mdk_core::groups::{NostrGroupConfigData, NostrGroupDataUpdate};
use mdk_core::messages::MessageProcessingResult;
use mdk_core::{MDK, MdkConfig};
use mdk_memory_storage::MdkMemoryStorage;
use mdk_sqlite_storage::{EncryptionConfig, MdkSqliteStorage};
use mdk_storage_traits::GroupId;
use mdk_storage_traits::groups::GroupStorage;
use mdk_storage_traits::messages::MessageStorage;
use nostr::{Event, EventBuilder, EventId, Keys, Kind, RelayUrl};
use openmls_traits::OpenMlsProvider as _;
use rand::rngs::StdRng;
use rand::seq::SliceRandom;
use rand::Rng;
use serde_json::{Value, json};

use crate::generate as g;

pub enum Store {
    Mem(MDK<MdkMemoryStorage>),
    Sql(MDK<MdkSqliteStorage>),
}
macro_rules! with_mdk {
    ($s:expr, $m:ident => $body:expr) => {
        match $s {
            Store::Mem($m) => $body,
            Store::Sql($m) => $body,
        }
    };
}

struct Client {
    keys: Keys,
    store: Store,
    _dir: Option<tempfile::TempDir>,
}

struct FileInfo {
    data: Vec<u8>,
    hash: [u8; 32],
    name: String,
    ct: Vec<u8>,
    mref: MediaReference,
    event: Event,
    epoch: u64,
    sender: String,
    sender_secret: Vec<u8>,
    content_id: u64,
}

struct World {
    clients: BTreeMap<String, Client>,
    gid: Option<GroupId>,
    base: u64,
    head: u64,
    k_events: BTreeMap<u64, Event>,  // winning commit leading to epoch k
    l_events: BTreeMap<u64, Event>,  // losing sibling leading to epoch k
    main_auth: HashMap<u64, Vec<u8>>, // epoch -> epoch authenticator of the main chain
    roster: BTreeMap<u64, BTreeSet<String>>,
    files: BTreeMap<String, FileInfo>,
    base_ts: u64,
    tick: u64,
}

fn relay() -> RelayUrl {
    RelayUrl::parse("wss://r.example").unwrap()
}

impl World {
    fn new(names: &[&str], backend: &str, r: &mut StdRng) -> Self {
        let mut clients = BTreeMap::new();
        for (i, n) in names.iter().enumerate() {
            let sql = match backend {
                "sql" => true,
                "mixed" => i % 2 == 1 || r.gen_bool(0.3),
                _ => false,
            };
            let keys = Keys::generate();
            let (store, dir) = if sql {
                let d = tempfile::tempdir().expect("tempdir");
                let st = MdkSqliteStorage::new_with_key(d.path().join("mdk.db"), EncryptionConfig::new(g::arr32(r))).expect("sqlite");
                (Store::Sql(MDK::builder(st).with_config(MdkConfig::default()).build()), Some(d))
            } else {
                (Store::Mem(MDK::builder(MdkMemoryStorage::default()).with_config(MdkConfig::default()).build()), None)
            };
            clients.insert(n.to_string(), Client { keys, store, _dir: dir });
        }
        World {
            clients,
            gid: None,
            base: 0,
            head: 0,
            k_events: BTreeMap::new(),
            l_events: BTreeMap::new(),
            main_auth: HashMap::new(),
            roster: BTreeMap::new(),
            files: BTreeMap::new(),
            base_ts: nostr::Timestamp::now().as_secs() - 50_000,
            tick: 0,
        }
    }

    fn sql_clients(&self) -> Vec<String> {
        self.clients.iter().filter(|(_, c)| matches!(c.store, Store::Sql(_))).map(|(n, _)| n.clone()).collect()
    }

    fn next_ts(&mut self) -> u64 {
        self.tick += 10;
        self.base_ts + self.tick
    }

    fn kp_event(&self, c: &str) -> Event {
        let cl = &self.clients[c];
        let (content, tags, _) = with_mdk!(&cl.store, m => m.create_key_package_for_event(&cl.keys.public_key(), vec![relay()])).expect("kp");
        EventBuilder::new(Kind::MlsKeyPackage, content).tags(tags).sign_with_keys(&cl.keys).expect("sign")
    }

    /// (epoch, lost, active) of client c, None when it holds no group
    fn mls_view(&self, c: &str) -> Option<(u64, bool, bool)> {
        let gid = self.gid.as_ref()?;
        let cl = &self.clients[c];
        let mg = with_mdk!(&cl.store, m => m.load_mls_group(gid)).ok().flatten()?;
        let ep = mg.epoch().as_u64();
        let auth = mg.epoch_authenticator().as_slice().to_vec();
        // an evicted member no longer derives the epoch's secrets: "which branch" is only meaningful while active
        let lost = mg.is_active()
            && match self.main_auth.get(&ep) {
                Some(a) => *a != auth,
                None => false,
            };
        Some((ep, lost, mg.is_active()))
    }

    fn stored_secret(&self, c: &str, epoch: u64) -> Option<Vec<u8>> {
        let gid = self.gid.as_ref()?;
        let cl = &self.clients[c];
        with_mdk!(&cl.store, m => m.provider.storage().get_group_exporter_secret(gid, epoch)).ok().flatten().map(|s| s.secret.to_vec())
    }

    fn project(&self, c: &str) -> Value {
        let Some((ep, lost, active)) = self.mls_view(c) else {
            return json!({"ingroup":false,"ep":-1,"lost":false,"active":false,"sec":[],"ann":[]});
        };
        let gid = self.gid.as_ref().unwrap();
        let cl = &self.clients[c];
        // file epochs whose key this client holds in storage (same bytes as the announcing sender's secret)
        let mut sec: BTreeSet<u64> = BTreeSet::new();
        for f in self.files.values() {
            if self.stored_secret(c, f.epoch).map(|s| s == f.sender_secret).unwrap_or(false) {
                sec.insert(f.epoch);
            }
        }
        // stored announcing messages (any state) with the epoch they are filed under
        let msgs = with_mdk!(&cl.store, m => m.get_messages(gid, None)).unwrap_or_default();
        let mut ann: Vec<Value> = vec![];
        for m in &msgs {
            let items: Vec<String> = m.tags.iter().flat_map(|t| t.as_slice().to_vec()).collect();
            for (fname, f) in &self.files {
                let x = format!("x {}", hex::encode(f.hash));
                let fnm = format!("filename {}", f.name);
                if items.iter().any(|i| *i == x) && items.iter().any(|i| *i == fnm) {
                    ann.push(json!({"f":fname,"epoch":m.epoch.map(|e| e as i64).unwrap_or(-1)}));
                }
            }
        }
        json!({"ingroup":true,"ep":ep,"lost":lost,"active":active,"sec":sec,"ann":ann})
    }

    fn set_override(&self, ts: u64) {
        mdk_core::verif_hooks::set_wrapper_override(Some((ts, None)));
    }
    fn clear_override(&self) {
        mdk_core::verif_hooks::set_wrapper_override(None);
    }

    fn op_create(&mut self, a: &str, members: &[String]) -> Value {
        let kps: Vec<Event> = members.iter().map(|m| self.kp_event(m)).collect();
        let mut admins = vec![self.clients[a].keys.public_key()];
        if let Some(b) = members.first() {
            admins.push(self.clients[b].keys.public_key());
        }
        let cfg = NostrGroupConfigData::new("media-hist".into(), "".into(), None, None, None, vec![relay()], admins);
        let cl = &self.clients[a];
        let res = with_mdk!(&cl.store, m => m.create_group(&cl.keys.public_key(), kps, cfg)).expect("create_group");
        let gid = res.group.mls_group_id.clone();
        self.gid = Some(gid.clone());
        self.base = res.group.epoch;
        self.head = self.base;
        for (i, rumor) in res.welcome_rumors.iter().enumerate() {
            let to = &self.clients[&members[i]];
            let wid = EventId::from_slice(&rand::random::<[u8; 32]>()).unwrap();
            let w = with_mdk!(&to.store, m => m.process_welcome(&wid, rumor)).expect("process_welcome");
            with_mdk!(&to.store, m => m.accept_welcome(&w)).expect("accept_welcome");
        }
        let mg = with_mdk!(&self.clients[a].store, m => m.load_mls_group(&gid)).unwrap().unwrap();
        self.main_auth.insert(self.base, mg.epoch_authenticator().as_slice().to_vec());
        let mut r: BTreeSet<String> = members.iter().cloned().collect();
        r.insert(a.to_string());
        self.roster.insert(self.base, r.clone());
        let posts: Vec<Value> = r.iter().map(|c| json!({"c":c,"post":self.project(c)})).collect();
        json!({"op":"Create","a":a,"members":members,"base":self.base,"posts":posts})
    }

    /// c (at the head) creates the winning commit and merges it; optionally c2 creates a losing sibling first.
    fn op_commit(&mut self, c: &str, kind: &str, x: &str, c2: &str) -> Value {
        let gid = self.gid.clone().unwrap();
        let k = self.head + 1;
        let ts_win = self.next_ts();
        let ts_lose = ts_win + 5;
        if !c2.is_empty() {
            self.set_override(ts_lose);
            let cl = &self.clients[c2];
            let upd = NostrGroupDataUpdate::new().description(format!("loser-{k}"));
            let lr = with_mdk!(&cl.store, m => m.update_group_data(&gid, upd)).expect("losing commit");
            self.clear_override();
            self.l_events.insert(k, lr.evolution_event);
        }
        self.set_override(ts_win);
        let cl = &self.clients[c];
        let res = match kind {
            "update" => with_mdk!(&cl.store, m => m.update_group_data(&gid, NostrGroupDataUpdate::new().name(format!("name-{k}")))),
            "add" => {
                let kp = self.kp_event(x);
                with_mdk!(&cl.store, m => m.add_members(&gid, &[kp]))
            }
            "remove" => {
                let pk = self.clients[x].keys.public_key();
                with_mdk!(&cl.store, m => m.remove_members(&gid, &[pk]))
            }
            _ => panic!("commit kind"),
        }
        .expect("commit");
        self.clear_override();
        with_mdk!(&cl.store, m => m.merge_pending_commit(&gid)).expect("merge");
        self.k_events.insert(k, res.evolution_event.clone());
        let mg = with_mdk!(&cl.store, m => m.load_mls_group(&gid)).unwrap().unwrap();
        assert_eq!(mg.epoch().as_u64(), k);
        self.main_auth.insert(k, mg.epoch_authenticator().as_slice().to_vec());
        self.head = k;
        let mut r = self.roster[&(k - 1)].clone();
        if kind == "add" {
            r.insert(x.to_string());
            let rumor = &res.welcome_rumors.as_ref().expect("welcome")[0];
            let to = &self.clients[x];
            let wid = EventId::from_slice(&rand::random::<[u8; 32]>()).unwrap();
            let w = with_mdk!(&to.store, m => m.process_welcome(&wid, rumor)).expect("process_welcome");
            with_mdk!(&to.store, m => m.accept_welcome(&w)).expect("accept_welcome");
        }
        if kind == "remove" {
            r.remove(x);
        }
        self.roster.insert(k, r);
        let mut who: Vec<String> = vec![c.to_string()];
        if kind == "add" {
            who.push(x.to_string());
        }
        if !c2.is_empty() {
            who.push(c2.to_string());
        }
        let posts: Vec<Value> = who.iter().map(|c| json!({"c":c,"post":self.project(c)})).collect();
        json!({"op":"Commit","c":c,"kind":kind,"x":x,"c2":c2,"k":k,"posts":posts})
    }

    fn deliver(&self, c: &str, ev: &Event) -> String {
        let cl = &self.clients[c];
        let r = catch_unwind(AssertUnwindSafe(|| with_mdk!(&cl.store, m => m.process_message(ev))));
        match r {
            Err(_) => "Panic".into(),
            Ok(Ok(MessageProcessingResult::Commit { .. })) => "Commit".into(),
            Ok(Ok(MessageProcessingResult::ApplicationMessage(_))) => "App".into(),
            Ok(_) => "Other".into(),
        }
    }

    fn op_deliver_commit(&mut self, c: &str, k: u64, losing: bool) -> Value {
        let ev = if losing { self.l_events[&k].clone() } else { self.k_events[&k].clone() };
        let res = self.deliver(c, &ev);
        json!({"op": if losing {"DeliverL"} else {"DeliverK"},"c":c,"k":k,"res":res,"post":self.project(c)})
    }

    fn op_announce(&mut self, s: &str, f: &str, data: Vec<u8>, name: String, content_id: u64) -> Value {
        let gid = self.gid.clone().unwrap();
        let ts = self.next_ts();
        let cl = &self.clients[s];
        let (ep, _, _) = self.mls_view(s).expect("sender in group");
        let mime = if data.len() % 2 == 0 { "text/plain" } else { "application/octet-stream" };
        let (up, tag, mref) = with_mdk!(&cl.store, m => {
            let mm = m.media_manager(gid.clone());
            let up = mm.encrypt_for_upload(&data, mime, &name).expect("encrypt");
            let tag = mm.create_imeta_tag(&up, &format!("https://blossom.example/{f}"));
            let mref = mm.parse_imeta_tag(&tag).expect("own imeta");
            (up, tag, mref)
        });
        let rumor = EventBuilder::new(Kind::Custom(9), format!("file {f}")).tags([tag]).build(cl.keys.public_key());
        self.set_override(ts);
        let ev = with_mdk!(&cl.store, m => m.create_message(&gid, rumor)).expect("create_message");
        self.clear_override();
        let sender_secret = self.stored_secret(s, ep).expect("sender stores the secret it encrypted under");
        self.files.insert(
            f.to_string(),
            FileInfo { hash: up.original_hash, data, name, ct: up.encrypted_data.clone(), mref, event: ev, epoch: ep, sender: s.to_string(), sender_secret, content_id },
        );
        json!({"op":"Announce","c":s,"f":f,"epoch":ep,"post":self.project(s)})
    }

    fn op_deliver_announce(&mut self, c: &str, f: &str) -> Value {
        let ev = self.files[f].event.clone();
        let res = self.deliver(c, &ev);
        json!({"op":"DeliverA","c":c,"f":f,"res":res,"post":self.project(c)})
    }

    fn op_decrypt(&mut self, c: &str, f: &str, tamper: &str, r: &mut StdRng) -> Value {
        let fi = &self.files[f];
        let cl = &self.clients[c];
        let mut ct = fi.ct.clone();
        let mut mref = fi.mref.clone();
        match tamper {
            "none" => {}
            t if t.starts_with("ct_") => crate::t_media::tamper_ct(&mut ct, t, r),
            "nonce" => g::flip_bit(&mut mref.nonce, r, 0, 12),
            "name" => mref.filename.push('x'),
            "mime" => mref.mime_type = if mref.mime_type == "text/plain" { "application/pdf".into() } else { "text/plain".into() },
            "ver_v1" => mref.scheme_version = "mip04-v1".into(),
            "ver_unknown" => mref.scheme_version = "mip04-v9".into(),
            "hash" => {
                // another hash has no announcing message: looked up under the changed hash
                g::flip_bit(&mut mref.original_hash, r, 0, 32)
            }
            t => panic!("tamper {t}"),
        }
        // the group may be unknown to this client (outsider): use the real group id all the same
        let gid = self.gid.clone().unwrap();
        let search = format!("x {}", hex::encode(mref.original_hash));
        let hint: i64 = with_mdk!(&cl.store, m => m.provider.storage().find_message_epoch_by_tag_content(&gid, &search)).ok().flatten().map(|e| e as i64).unwrap_or(-1);
        let out = catch_unwind(AssertUnwindSafe(|| with_mdk!(&cl.store, m => m.media_manager(gid.clone()).decrypt_from_download(&ct, &mref))));
        let res = match out {
            Err(_) => "panic",
            Ok(Err(_)) => "error",
            Ok(Ok(p)) => if p == fi.data { "equal" } else { "different" },
        };
        let member = self.roster.get(&fi.epoch).map(|r| r.contains(c)).unwrap_or(false);
        let _ = &fi.sender;
        json!({"op":"Decrypt","c":c,"f":f,"hint":hint,"tamper":tamper,"res":res,"ok":res=="equal","member":member,"post":self.project(c)})
    }
}

struct Rec {
    buf: Vec<u8>,
    n: u64,
}
impl Rec {
    fn emit(&mut self, v: Value) {
        self.n += 1;
        writeln!(self.buf, "{}", v).unwrap();
    }
}

const NAMES: [&str; 5] = ["a", "b", "c", "d", "o"];
const NFILES: usize = 8;

fn file_names() -> Vec<String> {
    (1..=NFILES).map(|i| format!("f{i}")).collect()
}

/// what the driver knows about where everybody is (only used to pick enabled steps; never logged as fact)
fn at_head_main(w: &World, c: &str) -> bool {
    matches!(w.mls_view(c), Some((ep, false, true)) if ep == w.head)
}

/// Epoch-causal regime (DESIGN section 3.1): an event is only handed to a client that has reached the epoch it was
/// created in - an event ahead of its predecessor is recorded Failed for good (known finding of C01/C02, not C17's
/// business).  Clients without the group may be offered anything.
fn may_offer_commit(w: &World, c: &str, k: u64) -> bool {
    match w.mls_view(c) {
        None => true,
        Some((ep, false, _)) => ep + 1 >= k,
        Some((ep, true, _)) => k <= ep,
    }
}
fn may_offer_announce(w: &World, c: &str, f: &str) -> bool {
    let e = w.files[f].epoch;
    match w.mls_view(c) {
        None => true,
        Some((ep, false, _)) => ep >= e,
        Some((ep, true, _)) => ep > e,
    }
}

/// distinct content ids must give distinct bytes: the id is the first byte, except id 4 = the empty file
fn new_payload(r: &mut StdRng, cid: u64) -> Vec<u8> {
    if cid == 4 {
        return vec![];
    }
    let n = *[0usize, 1, 17, 1000, 70_000].choose(r).unwrap();
    let mut v = vec![cid as u8];
    v.extend(g::bytes(r, n));
    v
}

/// One random history. `contents`: content id per file name (decided up front so that Meta can state it).
fn random_history(rec: &mut Rec, r: &mut StdRng, backend: &str, steps: usize, contents: &BTreeMap<String, u64>, sqlmeta: &mut BTreeSet<String>) {
    let mut w = World::new(&NAMES, backend, r);
    sqlmeta.extend(w.sql_clients());
    rec.emit(json!({"op":"Reset","sql":w.sql_clients()}));
    rec.emit(w.op_create("a", &["b".to_string(), "c".to_string()]));
    let admins = ["a", "b"];
    let files = file_names();
    let mut next_file = 0usize;
    let mut payloads: HashMap<u64, Vec<u8>> = HashMap::new();
    let mut d_in = false;
    let mut c_removed = false;
    let max_epoch = w.base + 7;
    for _ in 0..steps {
        let roll = r.gen_range(0..100);
        if roll < 14 && w.head < max_epoch {
            // commit by an admin that is at the head
            let cands: Vec<&str> = admins.iter().copied().filter(|c| at_head_main(&w, c)).collect();
            let Some(c) = cands.choose(r).copied() else { continue };
            let other: Vec<&str> = admins.iter().copied().filter(|x| *x != c && at_head_main(&w, x)).collect();
            let kind_roll = r.gen_range(0..10);
            let (kind, x) = if kind_roll < 2 && !d_in {
                d_in = true;
                ("add", "d")
            } else if kind_roll == 2 && !c_removed && w.head > w.base {
                c_removed = true;
                ("remove", "c")
            } else {
                ("update", "")
            };
            let c2 = if kind == "update" && !other.is_empty() && r.gen_bool(0.4) { other[0] } else { "" };
            rec.emit(w.op_commit(c, kind, x, c2));
        } else if roll < 40 && w.head > w.base {
            let c = *NAMES.choose(r).unwrap();
            // mostly the commit the client needs next
            let k = match w.mls_view(c) {
                Some((ep, false, _)) if ep < w.head && r.gen_bool(0.8) => ep + 1,
                Some((ep, true, _)) if r.gen_bool(0.8) => ep,
                _ => r.gen_range(w.base + 1..=w.head),
            };
            let losing = w.l_events.contains_key(&k) && r.gen_bool(0.35);
            if may_offer_commit(&w, c, k) {
                rec.emit(w.op_deliver_commit(c, k, losing));
            }
        } else if roll < 55 && next_file < files.len() {
            let cands: Vec<&str> = ["a", "b", "c", "d"].iter().copied().filter(|c| matches!(w.mls_view(c), Some((_, false, true)))).collect();
            let Some(s) = cands.choose(r).copied() else { continue };
            let f = files[next_file].clone();
            next_file += 1;
            let cid = contents[&f];
            let data = payloads.entry(cid).or_insert_with(|| new_payload(r, cid)).clone();
            let name = format!("{}-{}.bin", f, g::ascii(r, 4).replace(['/', '\\', ' '], "_"));
            rec.emit(w.op_announce(s, &f, data, name, cid));
        } else if roll < 80 && !w.files.is_empty() {
            let f = w.files.keys().cloned().collect::<Vec<_>>().choose(r).unwrap().clone();
            let c = *NAMES.choose(r).unwrap();
            if may_offer_announce(&w, c, &f) {
                rec.emit(w.op_deliver_announce(c, &f));
            }
        } else if !w.files.is_empty() {
            let f = w.files.keys().cloned().collect::<Vec<_>>().choose(r).unwrap().clone();
            let c = *NAMES.choose(r).unwrap();
            let t = if r.gen_bool(0.75) { "none" } else { *["ct_first", "ct_mid", "ct_tag", "ct_trunc", "ct_ext", "nonce", "name", "mime", "ver_v1", "ver_unknown", "hash"].choose(r).unwrap() };
            rec.emit(w.op_decrypt(c, &f, t, r));
        }
    }
    settle(rec, &mut w, r);
}

/// everybody catches up (winners only), every announcement is offered to everybody, everybody tries every file
fn settle(rec: &mut Rec, w: &mut World, r: &mut StdRng) {
    let mut order: Vec<&str> = NAMES.to_vec();
    order.shuffle(r);
    let ann_first = r.gen_bool(0.5);
    let fnames: Vec<String> = w.files.keys().cloned().collect();
    for c in &order {
        if ann_first {
            for f in &fnames {
                if may_offer_announce(w, c, f) {
                    rec.emit(w.op_deliver_announce(c, f));
                }
            }
        }
        for k in (w.base + 1)..=w.head {
            if may_offer_commit(w, c, k) {
                rec.emit(w.op_deliver_commit(c, k, false));
            }
        }
        for f in &fnames {
            rec.emit(w.op_deliver_announce(c, f));
        }
    }
    for c in &order {
        for f in &fnames {
            rec.emit(w.op_decrypt(c, f, "none", r));
        }
    }
}

/// Directed histories derived from the shapes of TablesMedia.tla: delay 0..6 x announcement processed before /
/// after the intervening commits x sender echo early / late x rollback in between x re-announced content.
fn directed_history(rec: &mut Rec, r: &mut StdRng, backend: &str, variant: usize, contents: &BTreeMap<String, u64>, sqlmeta: &mut BTreeSet<String>) {
    let mut w = World::new(&NAMES, backend, r);
    sqlmeta.extend(w.sql_clients());
    rec.emit(json!({"op":"Reset","sql":w.sql_clients()}));
    rec.emit(w.op_create("a", &["b".to_string(), "c".to_string()]));
    let mut payloads: HashMap<u64, Vec<u8>> = HashMap::new();
    let mut announce = |w: &mut World, rec: &mut Rec, r: &mut StdRng, s: &str, f: &str| {
        let cid = contents[f];
        let data = payloads.entry(cid).or_insert_with(|| new_payload(r, cid)).clone();
        rec.emit(w.op_announce(s, f, data, format!("{f}.bin"), cid));
    };
    // f1 by a at the first epoch; b reads it at once ("before"), c only after all commits ("after")
    announce(&mut w, rec, r, "a", "f1");
    rec.emit(w.op_deliver_announce("b", "f1"));
    if variant % 2 == 0 {
        rec.emit(w.op_deliver_announce("a", "f1")); // early echo
    }
    let mut d_in = false;
    for i in 0..6 {
        let (c, other) = if i % 2 == 0 { ("a", "b") } else { ("b", "a") };
        let kind = if i == 3 { "add" } else { "update" };
        // from the third commit on the other admin publishes a competing commit that loses the race
        let c2 = if i >= 2 && kind == "update" && at_head_main(&w, other) { other } else { "" };
        rec.emit(w.op_commit(c, kind, if kind == "add" { "d" } else { "" }, c2));
        if kind == "add" {
            d_in = true;
        }
        let k = w.head;
        if w.l_events.contains_key(&k) && variant % 3 != 0 {
            rec.emit(w.op_deliver_commit("c", k, true)); // loser first: c will have to roll back
        }
        rec.emit(w.op_deliver_commit(other, k, false));
        rec.emit(w.op_deliver_commit("c", k, false));
        if d_in && kind != "add" {
            rec.emit(w.op_deliver_commit("d", k, false));
        }
        if i == 1 {
            announce(&mut w, rec, r, "b", "f2"); // same bytes as f1 (see the content map), two epochs later
        }
        if i == 2 {
            announce(&mut w, rec, r, "c", "f3");
            rec.emit(w.op_deliver_announce("a", "f3"));
        }
        for c in ["a", "b", "c", "d", "o"] {
            rec.emit(w.op_decrypt(c, "f1", "none", r));
        }
        if variant % 2 == 1 && i == 2 {
            rec.emit(w.op_deliver_announce("a", "f1")); // late echo: the sender has merged three commits since
        }
    }
    settle(rec, &mut w, r);
}

pub fn run(out: &str, opt: &HashMap<String, String>) {
    let seed: u64 = opt.get("seed").map(|s| s.parse().unwrap()).unwrap_or(1);
    let n: usize = opt.get("n").map(|s| s.parse().unwrap()).unwrap_or(4);
    let steps: usize = opt.get("steps").map(|s| s.parse().unwrap()).unwrap_or(60);
    let backend = opt.get("backend").cloned().unwrap_or("mem".into());
    let dev: Vec<String> = std::env::var("VERIF_DEV").unwrap_or_default().split(',').filter(|x| !x.is_empty()).map(|x| x.to_string()).collect();
    if std::env::var("VERIF_PANICS").is_err() {
        std::panic::set_hook(Box::new(|_| {}));
    }
    let mut r0 = g::rng_for(seed, "hist", 0);
    // content ids: f2 repeats f1's bytes, f7 repeats f5's; everything else is distinct
    let mut contents: BTreeMap<String, u64> = BTreeMap::new();
    for (i, f) in file_names().iter().enumerate() {
        contents.insert(f.clone(), (i + 1) as u64);
    }
    contents.insert("f2".into(), 1);
    contents.insert("f7".into(), 5);
    // histories first (buffered), Meta line needs the set of SQLite clients of the whole file
    let mut sqlmeta = BTreeSet::new();
    let mut rec = Rec { buf: vec![], n: 0 };
    {
        for i in 0..n {
            let mut r = g::rng_for(seed, "hist", 1 + i as u64);
            let b = if backend == "mixed" { *["mem", "sql", "mixed"].choose(&mut r0).unwrap() } else { backend.as_str() };
            if i % 2 == 0 {
                directed_history(&mut rec, &mut r, b, i / 2, &contents, &mut sqlmeta);
            } else {
                random_history(&mut rec, &mut r, b, steps, &contents, &mut sqlmeta);
            }
        }
    }
    let mut f = std::io::BufWriter::new(std::fs::File::create(out).expect("out"));
    let cont: Vec<Value> = contents.iter().map(|(f, c)| json!({"f":f,"c":c})).collect();
    writeln!(f, "{}", json!({"op":"Meta","clients":NAMES,"files":file_names(),"content":cont,"lookback":5,"maxpast":5,"dev":dev,"seed":seed,"sql":sqlmeta})).unwrap();
    f.write_all(&rec.buf).unwrap();
    f.flush().unwrap();
}
