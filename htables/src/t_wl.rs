//! Table "welcome": kind-444 rumors through MDK::process_welcome (validate_welcome_event + preview_welcome).

use mdk_core::MDK;
use mdk_core::groups::NostrGroupConfigData;
use mdk_memory_storage::MdkMemoryStorage;
use nostr::base64::Engine;
use nostr::base64::engine::general_purpose::STANDARD as B64;
use nostr::{Event, EventBuilder, EventId, Keys, Kind, RelayUrl, Tag, Tags};
use rand::rngs::StdRng;
use rand::seq::SliceRandom;
use rand::Rng;
use serde_json::{Value, json};

use crate::generate as g;
use crate::t_kp::{TagV, apply_dup, shuffle_keep_dups};

fn s<'a>(shape: &'a Value, f: &str) -> &'a str {
    shape[f].as_str().unwrap_or_else(|| panic!("shape field {f}"))
}
fn tv(items: &[&str]) -> TagV {
    items.iter().map(|x| x.to_string()).collect()
}
fn set_tag(tags: &mut [TagV], name: &str, new: TagV) {
    if let Some(p) = tags.iter().position(|t| t[0] == name) {
        tags[p] = new;
    }
}

fn kp_event(m: &MDK<MdkMemoryStorage>, k: &Keys) -> Event {
    let (c, t, _) = m.create_key_package_for_event(&k.public_key(), vec![RelayUrl::parse("wss://kp.example").unwrap()]).expect("kp");
    EventBuilder::new(Kind::MlsKeyPackage, c).tags(t).sign_with_keys(k).expect("sign")
}

pub fn run(r: &mut StdRng, shape: &Value) -> (Value, String) {
    let a = MDK::new(MdkMemoryStorage::default());
    let b = MDK::new(MdkMemoryStorage::default());
    let c3 = MDK::new(MdkMemoryStorage::default());
    let (ka, kb, kc) = (Keys::generate(), Keys::generate(), Keys::generate());
    let _ = kp_event(&c3, &kc);
    let kpb = kp_event(&b, &kb);
    let name = g::string_capped(r, s(shape, "name"), 255);
    let dcls = *["empty", "ascii", "multi"].choose(r).unwrap();
    let desc = g::string_of(r, dcls);
    let nrel = if s(shape, "relays") == "two" { 2 } else { 1 };
    let relay_strs = g::distinct_relays(r, nrel);
    let relays: Vec<RelayUrl> = relay_strs.iter().map(|u| RelayUrl::parse(u).unwrap()).collect();
    let (ih, ik, inn) = match s(shape, "img") {
        "none" => (None, None, None),
        "all" => (Some(g::arr32(r)), Some(g::arr32(r)), Some(g::arr12(r))),
        "hash" => (Some(g::arr32(r)), None, None),
        "keynonce" => (None, Some(g::arr32(r)), Some(g::arr12(r))),
        c => panic!("img class {c}"),
    };
    let mut admins = vec![ka.public_key()];
    if r.gen_bool(0.5) {
        admins.push(kb.public_key());
    }
    let cfg = NostrGroupConfigData::new(name.clone(), desc.clone(), ih, ik, inn, relays.clone(), admins.clone());
    let res = a.create_group(&ka.public_key(), vec![kpb], cfg).expect("create_group");
    let nid = res.group.nostr_group_id;
    let mut rumor = res.welcome_rumors[0].clone();
    let mut tags: Vec<TagV> = rumor.tags.iter().map(|t| t.as_slice().to_vec()).collect();
    let raw = B64.decode(&rumor.content).unwrap();
    let mut detail = format!("name={}B", name.len());

    // relays
    let c = s(shape, "relays");
    match c {
        "one" | "two" => {}
        "dupok" => {
            let p = tags.iter().position(|t| t[0] == "relays").unwrap();
            tags.insert(p + 1, vec!["relays".into(), g::distinct_relays(r, 1)[0].clone()]);
        }
        "dupbad" => {
            let p = tags.iter().position(|t| t[0] == "relays").unwrap();
            let bad = vec!["relays".to_string(), g::bad_relay(r)];
            if r.gen_bool(0.5) { tags.insert(p + 1, bad) } else { tags.insert(p, bad) }
        }
        "missing" => tags.retain(|t| t[0] != "relays"),
        "empty" => set_tag(&mut tags, "relays", tv(&["relays"])),
        "badurl" => {
            let mut t = vec!["relays".to_string()];
            if r.gen_bool(0.5) {
                t.push(relay_strs[0].clone());
            }
            t.push(g::bad_relay(r));
            set_tag(&mut tags, "relays", t);
        }
        c => panic!("relays class {c}"),
    }
    // e
    let eid = tags.iter().find(|t| t[0] == "e").map(|t| t[1].clone()).unwrap_or_default();
    match s(shape, "e") {
        "ok" => {}
        "dupempty" => {
            let p = tags.iter().position(|t| t[0] == "e").unwrap();
            tags.insert(p, tv(&["e", ""]));
        }
        "missing" => tags.retain(|t| t[0] != "e"),
        "empty" => set_tag(&mut tags, "e", tv(&["e", ""])),
        "novalue" => set_tag(&mut tags, "e", tv(&["e"])),
        c => panic!("e class {c}"),
    }
    let _ = eid;
    // client
    match s(shape, "client") {
        "ok" => {}
        "missing" => tags.retain(|t| t[0] != "client"),
        "empty" => set_tag(&mut tags, "client", tv(&["client", ""])),
        "novalue" => set_tag(&mut tags, "client", tv(&["client"])),
        c => panic!("client class {c}"),
    }
    // encoding
    let c = s(shape, "enc");
    if !apply_dup(&mut tags, "encoding", c, tv(&["encoding", ["hex", "base64url", "binary"].choose(r).unwrap()])) {
        match c {
            "upper" => set_tag(&mut tags, "encoding", tv(&["encoding", ["BASE64", "Base64"].choose(r).unwrap()])),
            "hex" => set_tag(&mut tags, "encoding", tv(&["encoding", ["hex", "base64url", "base32", ""].choose(r).unwrap()])),
            _ => {}
        }
    }
    // content
    match s(shape, "content") {
        "ok" => {}
        "empty" => rumor.content = String::new(),
        "notb64" => {
            let mut t = rumor.content.clone();
            let p = r.gen_range(0..t.len());
            t.replace_range(p..p + 1, ["!", "%", " ", "-", "_"].choose(r).unwrap());
            rumor.content = t;
        }
        "garbage" => rumor.content = B64.encode(g::bytes(r, raw.len())),
        "truncated" => {
            let keep = if r.gen_bool(0.3) { raw.len() - 1 } else { r.gen_range(1..raw.len()) };
            detail.push_str(&format!(" cut {} -> {}", raw.len(), keep));
            rumor.content = B64.encode(&raw[..keep]);
        }
        "trailing" => {
            let k = r.gen_range(1..17);
            let mut v = raw.clone();
            v.extend(g::bytes(r, k));
            detail.push_str(&format!(" {} + {} trailing bytes", raw.len(), k));
            rumor.content = B64.encode(v);
        }
        "notwelcome" => {
            // a well-formed MLSMessage that is not a Welcome: the key package of the recipient as MLSMessage,
            // or the (never published) commit... we use the serialized key package message
            let kpm = {
                use tls_codec::Serialize as _;
                let (c, _t, _) = b.create_key_package_for_event(&kb.public_key(), vec![RelayUrl::parse("wss://kp.example").unwrap()]).unwrap();
                let kp_bytes = B64.decode(c).unwrap();
                // MLSMessage framing: version(2) wire_format(2) body
                let mut m = vec![0u8, 1, 0, 5];
                m.extend(kp_bytes);
                let _ = Vec::<u8>::new().tls_serialize_detached();
                m
            };
            rumor.content = B64.encode(kpm);
        }
        c => panic!("content class {c}"),
    }
    match s(shape, "extra") {
        "none" => {}
        "unknown" => tags.push(tv(&["x-unknown", "value"])),
        "shuffled" => shuffle_keep_dups(&mut tags, r),
        c => panic!("extra class {c}"),
    }
    rumor.kind = match s(shape, "kind") {
        "444" => Kind::MlsWelcome,
        "443" => Kind::MlsKeyPackage,
        "445" => Kind::MlsGroupMessage,
        _ => Kind::TextNote,
    };
    rumor.tags = Tags::from_list(tags.iter().map(|t| Tag::parse(t.clone()).expect("tag")).collect());
    rumor.id = None;
    if s(shape, "id") == "ok" {
        rumor.ensure_id();
    }
    let wid = EventId::from_slice(&g::arr32(r)).unwrap();
    let rcpt = if s(shape, "rcpt") == "other" { &c3 } else { &b };
    match rcpt.process_welcome(&wid, &rumor) {
        Err(e) => (json!({"res":"refuse","equal":false,"err":format!("{e:?}").chars().take(70).collect::<String>()}), detail),
        Ok(w) => {
            let exp_relays: std::collections::BTreeSet<RelayUrl> = relays.iter().cloned().collect();
            let exp_admins: std::collections::BTreeSet<nostr::PublicKey> = admins.iter().cloned().collect();
            let mut equal = w.group_name == name
                && w.group_description == desc
                && w.nostr_group_id == nid
                && w.group_admin_pubkeys == exp_admins
                && w.group_relays == exp_relays
                && w.group_image_hash == ih
                && w.group_image_key.as_ref().map(|k| **k) == ik
                && w.group_image_nonce.as_ref().map(|k| **k) == inn
                && w.welcomer == ka.public_key()
                && w.member_count == 2
                && w.mls_group_id == res.group.mls_group_id
                && w.event == rumor;
            // joining must work and show the same group
            let acc = rcpt.accept_welcome(&w);
            let grp = rcpt.get_group(&res.group.mls_group_id).ok().flatten();
            equal = equal && acc.is_ok() && grp.map(|x| x.name == name && x.description == desc && x.nostr_group_id == nid && x.epoch == res.group.epoch).unwrap_or(false);
            (json!({"res":"accept","equal":equal,"err":""}), detail)
        }
    }
}
