//! Tables "imeta" (tag create/parse), "media" (MIP-04 encrypt/decrypt with tamper classes) and "gimg" (MIP-01 group image).

use chacha20poly1305::aead::{Aead, KeyInit};
use chacha20poly1305::{ChaCha20Poly1305, Nonce};
use mdk_core::MDK;
use mdk_core::encrypted_media::{EncryptedMediaUpload, MediaProcessingOptions, MediaReference};
use mdk_core::extension::{NostrGroupDataExtension, decrypt_group_image, prepare_group_image_for_upload_with_options};
use mdk_core::groups::{NostrGroupConfigData, NostrGroupDataUpdate};
use mdk_memory_storage::MdkMemoryStorage;
use mdk_storage_traits::{GroupId, Secret};
use nostr::{Event, EventBuilder, EventId, Keys, Kind, RelayUrl, Tag};
use rand::rngs::StdRng;
use rand::seq::SliceRandom;
use rand::Rng;
use serde_json::{Value, json};
use sha2::{Digest, Sha256};

use crate::enc::{RawExt, ctx_with_ext};
use crate::generate as g;

fn s<'a>(shape: &'a Value, f: &str) -> &'a str {
    shape[f].as_str().unwrap_or_else(|| panic!("shape field {f}"))
}

pub struct MediaWorld {
    pub a: MDK<MdkMemoryStorage>,
    pub b: MDK<MdkMemoryStorage>,
    pub c: MDK<MdkMemoryStorage>,
    pub ka: Keys,
    pub gid: GroupId,
    pub gid_other: GroupId,
}

fn kp_event(m: &MDK<MdkMemoryStorage>, k: &Keys) -> Event {
    let (c, t, _) = m.create_key_package_for_event(&k.public_key(), vec![RelayUrl::parse("wss://kp.example").unwrap()]).expect("kp");
    EventBuilder::new(Kind::MlsKeyPackage, c).tags(t).sign_with_keys(k).expect("sign")
}

impl MediaWorld {
    pub fn new() -> Self {
        let a = MDK::new(MdkMemoryStorage::default());
        let b = MDK::new(MdkMemoryStorage::default());
        let c = MDK::new(MdkMemoryStorage::default());
        let (ka, kb, kc) = (Keys::generate(), Keys::generate(), Keys::generate());
        let relay = RelayUrl::parse("wss://r.example").unwrap();
        let cfg = NostrGroupConfigData::new("media".into(), "".into(), None, None, None, vec![relay.clone()], vec![ka.public_key()]);
        let res = a.create_group(&ka.public_key(), vec![kp_event(&b, &kb)], cfg).expect("create");
        let gid = res.group.mls_group_id.clone();
        let w = b.process_welcome(&EventId::from_slice(&[7u8; 32]).unwrap(), &res.welcome_rumors[0]).expect("welcome");
        b.accept_welcome(&w).expect("accept");
        let cfg2 = NostrGroupConfigData::new("other".into(), "".into(), None, None, None, vec![relay], vec![kc.public_key()]);
        let res2 = c.create_group(&kc.public_key(), vec![], cfg2).expect("create other");
        MediaWorld { a, b, c, ka, gid, gid_other: res2.group.mls_group_id.clone() }
    }
}

// ------------------------------------------------------------------------------------------------ imeta

pub fn run_imeta(w: &MediaWorld, r: &mut StdRng, shape: &Value) -> (Value, String) {
    let mm = w.a.media_manager(w.gid.clone());
    let mfam = match s(shape, "m") {
        "image" => "image",
        "video" => "video",
        "audio" => "audio",
        "doc" | "noncanon" | "missing" | "unsupported" | "noslash" => ["doc", "text", "image", "video"].choose(r).unwrap(),
        "octet" => "octet",
        c => panic!("m class {c}"),
    };
    let mime = g::mime_of(mfam, r);
    let fname_cls = match s(shape, "filename") {
        c @ ("ascii" | "unicode" | "spaces" | "max") => c,
        _ => "ascii",
    };
    let filename = g::filename_of(r, fname_cls);
    let dims = (s(shape, "dim") == "ok").then(|| (r.gen_range(1..20000u32), r.gen_range(1..20000u32)));
    let blur = (s(shape, "blurhash") == "ok").then(|| g::ascii(r, 28).replace(' ', "x"));
    let upload = EncryptedMediaUpload {
        encrypted_data: vec![],
        original_hash: g::arr32(r),
        encrypted_hash: g::arr32(r),
        mime_type: mime.clone(),
        filename: filename.clone(),
        original_size: 0,
        encrypted_size: 16,
        dimensions: dims,
        blurhash: blur,
        nonce: g::arr12(r),
    };
    let url = match s(shape, "url") {
        "spaces" => format!("https://blossom.example/{} with spaces /x", hex::encode(g::bytes(r, 4))),
        _ => format!("https://blossom.example/{}", hex::encode(upload.encrypted_hash)),
    };
    let tag = mm.create_imeta_tag(&upload, &url);
    let mut items: Vec<String> = tag.as_slice().to_vec();
    let find = |items: &Vec<String>, k: &str| items.iter().position(|x| x.starts_with(&format!("{k} ")));
    let xhex = hex::encode(upload.original_hash);
    let nhex = hex::encode(upload.nonce);
    if s(shape, "kind") == "other" {
        items[0] = ["imetax", "image", "IMETA", "e"].choose(r).unwrap().to_string();
    }
    if s(shape, "url") == "missing" {
        let p = find(&items, "url").unwrap();
        items.remove(p);
    }
    match s(shape, "m") {
        "missing" => {
            let p = find(&items, "m").unwrap();
            items.remove(p);
        }
        "noncanon" => {
            let p = find(&items, "m").unwrap();
            let sp = g::spell(&mime, ["upper", "padded", "params"].choose(r).unwrap(), r);
            items[p] = format!("m {sp}");
        }
        "unsupported" => {
            let p = find(&items, "m").unwrap();
            items[p] = format!("m {}", g::mime_of("unsupported", r));
        }
        "noslash" => {
            let p = find(&items, "m").unwrap();
            items[p] = format!("m {}", ["textplain", "image", "", "png"].choose(r).unwrap());
        }
        _ => {}
    }
    match s(shape, "filename") {
        "missing" => {
            let p = find(&items, "filename").unwrap();
            items.remove(p);
        }
        c @ ("empty" | "slash" | "backslash" | "control" | "toolong") => {
            let p = find(&items, "filename").unwrap();
            items[p] = format!("filename {}", g::filename_of(r, c));
        }
        _ => {}
    }
    if s(shape, "dim") == "garbage" {
        let p = find(&items, "x").unwrap();
        items.insert(p, format!("dim {}", ["12by13", "x", "1x2x3", "-1x5", "4294967296x1", "10 x 10", ""].choose(r).unwrap()));
    }
    match s(shape, "x") {
        "ok" => {}
        "upper" => {
            let p = find(&items, "x").unwrap();
            items[p] = format!("x {}", xhex.to_uppercase());
        }
        "duplast" => {
            let p = find(&items, "x").unwrap();
            items.insert(p, format!("x {}", hex::encode(g::arr32(r))));
        }
        "missing" => {
            let p = find(&items, "x").unwrap();
            items.remove(p);
        }
        "short" => {
            let p = find(&items, "x").unwrap();
            items[p] = format!("x {}", &xhex[..*[62usize, 2, 63].choose(r).unwrap()]);
        }
        "long" => {
            let p = find(&items, "x").unwrap();
            items[p] = format!("x {}{}", xhex, ["00", "ab", "0"].choose(r).unwrap());
        }
        "nothex" => {
            let p = find(&items, "x").unwrap();
            items[p] = format!("x zz{}", &xhex[2..]);
        }
        c => panic!("x class {c}"),
    }
    match s(shape, "n") {
        "ok" => {}
        "upper" => {
            let p = find(&items, "n").unwrap();
            items[p] = format!("n {}", nhex.to_uppercase());
        }
        "missing" => {
            let p = find(&items, "n").unwrap();
            items.remove(p);
        }
        "short" => {
            let p = find(&items, "n").unwrap();
            items[p] = format!("n {}", &nhex[..*[22usize, 2, 23].choose(r).unwrap()]);
        }
        "long" => {
            let p = find(&items, "n").unwrap();
            items[p] = format!("n {}{}", nhex, ["00", "ab", "0", &nhex].choose(r).unwrap());
        }
        "nothex" => {
            let p = find(&items, "n").unwrap();
            items[p] = format!("n zz{}", &nhex[2..]);
        }
        c => panic!("n class {c}"),
    }
    match s(shape, "v") {
        "v2" => {}
        "missing" => {
            let p = find(&items, "v").unwrap();
            items.remove(p);
        }
        "v1" => {
            let p = find(&items, "v").unwrap();
            items[p] = "v mip04-v1".into();
        }
        "unknown" => {
            let p = find(&items, "v").unwrap();
            items[p] = format!("v {}", ["mip04-v3", "", "MIP04-V2", "mip04-v2 ", "2"].choose(r).unwrap());
        }
        c => panic!("v class {c}"),
    }
    match s(shape, "extra") {
        "none" => {}
        "unknownkey" => items.push("foo bar baz".into()),
        "nospace" => {
            let p = r.gen_range(1..=items.len());
            items.insert(p, "garbage".into());
        }
        c => panic!("extra class {c}"),
    }
    // item order is free (key/value list) - but a repeated key is decided by order, keep those in place
    if s(shape, "x") != "duplast" && r.gen_bool(0.5) {
        items[1..].shuffle(r);
    }
    let detail = format!("{} items, filename {}B", items.len(), filename.len());
    let t2 = Tag::parse(items).expect("tag");
    match mm.parse_imeta_tag(&t2) {
        Err(e) => (json!({"res":"refuse","equal":false,"err":format!("{e:?}").chars().take(70).collect::<String>()}), detail),
        Ok(m) => {
            let equal = m.url == url
                && m.original_hash == upload.original_hash
                && m.mime_type == mime
                && m.filename == filename
                && m.dimensions == dims
                && m.scheme_version == "mip04-v2"
                && m.nonce == upload.nonce;
            (json!({"res":"accept","equal":equal,"err":""}), detail)
        }
    }
}

// ------------------------------------------------------------------------------------------------ media

pub fn tamper_ct(ct: &mut Vec<u8>, cls: &str, r: &mut StdRng) {
    let n = ct.len();
    match cls {
        "ct_first" => {
            let hi = if n > 16 { (n - 16).min(16) } else { n };
            g::flip_bit(ct, r, 0, hi.max(1));
        }
        "ct_mid" => {
            if n > 16 { g::flip_bit(ct, r, 0, n - 16) } else { g::flip_bit(ct, r, 0, n) }
        }
        "ct_tag" => g::flip_bit(ct, r, n - 16, n),
        "ct_trunc" => {
            let k = *[1usize, 15, 16, 17].choose(r).unwrap();
            ct.truncate(n.saturating_sub(k.min(n)));
        }
        "ct_ext" => {
            let k = r.gen_range(1..33);
            ct.extend(g::bytes(r, k));
        }
        "ct_empty" => ct.clear(),
        _ => panic!("ct tamper {cls}"),
    }
}

pub fn run_media(w: &MediaWorld, r: &mut StdRng, shape: &Value) -> (Value, String) {
    let fam = s(shape, "fam");
    let size = s(shape, "size");
    let is_img = |f: &str| matches!(f, "png" | "jpeg" | "gif" | "webp");
    let (data, mime): (Vec<u8>, String) = match fam {
        f if is_img(f) => (g::image_bytes(r, f, size).0, g::mime_of(f, r)),
        "mismatch" => {
            // picture bytes of one format announced as another
            let (real, claimed) = *[("jpeg", "png"), ("png", "jpeg"), ("gif", "webp"), ("webp", "gif")].choose(r).unwrap();
            (g::image_bytes(r, real, "small").0, g::mime_of(claimed, r))
        }
        f => (g::payload(r, size), g::mime_of(f, r)),
    };
    let spelled = g::spell(&mime, s(shape, "spell"), r);
    let filename = g::filename_of(r, s(shape, "name"));
    let sanitize = r.gen_bool(0.5);
    let opts = MediaProcessingOptions { sanitize_exif: sanitize, generate_blurhash: r.gen_bool(0.5), ..Default::default() };
    let detail = format!("{} bytes, mime '{}', name {}B, sanitize={}", data.len(), spelled.escape_debug(), filename.len(), sanitize);

    // the encrypting manager; for "laterepoch_nohint" a throw-away single-member group whose epoch we can move
    let solo;
    let (enc_mdk, enc_gid): (&MDK<MdkMemoryStorage>, GroupId) = if s(shape, "who") == "laterepoch_nohint" {
        let m = MDK::new(MdkMemoryStorage::default());
        let k = Keys::generate();
        let cfg = NostrGroupConfigData::new("solo".into(), "".into(), None, None, None, vec![RelayUrl::parse("wss://r.example").unwrap()], vec![k.public_key()]);
        let res = m.create_group(&k.public_key(), vec![], cfg).expect("create solo");
        solo = (m, res.group.mls_group_id.clone());
        (&solo.0, solo.1.clone())
    } else {
        (&w.a, w.gid.clone())
    };
    let mm = enc_mdk.media_manager(enc_gid.clone());
    let up = match mm.encrypt_for_upload_with_options(&data, &spelled, &filename, &opts) {
        Err(e) => return (json!({"enc":"refuse","dec":"skipped","err":format!("{e:?}").chars().take(70).collect::<String>()}), detail),
        Ok(u) => u,
    };
    // what the plaintext must be: the input, or (sanitised pictures) something with the announced hash
    let expect_hash: [u8; 32] = up.original_hash;
    let input_hash: [u8; 32] = Sha256::digest(&data).into();
    let plain_known = input_hash == expect_hash;
    let canon_ok = up.mime_type == mime && up.filename == filename;
    // reference through the imeta round trip
    let tag = mm.create_imeta_tag(&up, "https://blossom.example/f");
    let mut mref: MediaReference = match mm.parse_imeta_tag(&tag) {
        Ok(m) => m,
        Err(e) => return (json!({"enc":"accept","dec":"error","err":format!("own imeta tag refused: {e:?}").chars().take(70).collect::<String>()}), detail),
    };
    let mut ct = up.encrypted_data.clone();
    match s(shape, "tamper") {
        "none" => {}
        t if t.starts_with("ct_") => tamper_ct(&mut ct, t, r),
        "nonce" => g::flip_bit(&mut mref.nonce, r, 0, 12),
        "hash" => g::flip_bit(&mut mref.original_hash, r, 0, 32),
        "name" => {
            mref.filename = match r.gen_range(0..4) {
                0 => format!("{}x", mref.filename),
                1 => mref.filename.to_uppercase() + "_",
                2 => mref.filename.chars().skip(1).collect::<String>() + "y",
                _ => g::filename_of(r, "ascii") + "z",
            }
        }
        "mime" => {
            mref.mime_type = match r.gen_range(0..3) {
                0 => {
                    let other = ["text/plain", "application/pdf", "video/mp4", "image/png", "application/octet-stream"];
                    other.iter().find(|m| **m != mref.mime_type).unwrap().to_string()
                }
                1 => mref.mime_type.to_uppercase(),
                _ => format!("{}; charset=utf-8", mref.mime_type),
            }
        }
        "ver_v1" => mref.scheme_version = "mip04-v1".into(),
        "ver_unknown" => mref.scheme_version = ["mip04-v3", "", "MIP04-V2"].choose(r).unwrap().to_string(),
        t => panic!("tamper {t}"),
    }
    let out = match s(shape, "who") {
        "self" => mm.decrypt_from_download(&ct, &mref),
        "member" => w.b.media_manager(w.gid.clone()).decrypt_from_download(&ct, &mref),
        "othergroup" => w.c.media_manager(w.gid_other.clone()).decrypt_from_download(&ct, &mref),
        "laterepoch_nohint" => {
            enc_mdk.update_group_data(&enc_gid, NostrGroupDataUpdate::new().name("next")).expect("advance");
            enc_mdk.merge_pending_commit(&enc_gid).expect("merge");
            mm.decrypt_from_download(&ct, &mref)
        }
        c => panic!("who {c}"),
    };
    let dec = match out {
        Err(_) => "error",
        Ok(p) => {
            let h: [u8; 32] = Sha256::digest(&p).into();
            if h == expect_hash && (!plain_known || p == data) && canon_ok { "equal" } else { "different" }
        }
    };
    (json!({"enc":"accept","dec":dec,"err":""}), detail)
}

// ------------------------------------------------------------------------------------------------ group image

pub fn run_gimg(r: &mut StdRng, shape: &Value) -> (Value, String) {
    let fam = s(shape, "img");
    let szc = *["0", "small", "64k"].choose(r).unwrap();
    let (img, wd, ht) = g::image_bytes(r, fam, szc);
    let mime = g::mime_of(fam, r);
    let fmt = s(shape, "fmt");
    // (blob, expected hash, key-or-seed, nonce, version, plaintext if known)
    let (blob, hash, key, nonce, ver, plain): (Vec<u8>, [u8; 32], [u8; 32], [u8; 12], u16, Option<Vec<u8>>) = match fmt {
        "v1" => {
            let key = g::arr32(r);
            let nonce = g::arr12(r);
            let ct = ChaCha20Poly1305::new_from_slice(&key).unwrap().encrypt(Nonce::from_slice(&nonce), img.as_slice()).unwrap();
            let h: [u8; 32] = Sha256::digest(&ct).into();
            (ct, h, key, nonce, 1, Some(img.clone()))
        }
        "v2" | "v2raw" => {
            let raw = fmt == "v2raw";
            let opts = MediaProcessingOptions { sanitize_exif: !raw, generate_blurhash: r.gen_bool(0.3), ..Default::default() };
            let spelled = g::spell(&mime, ["canon", "upper", "padded", "params"].choose(r).unwrap(), r);
            let up = match prepare_group_image_for_upload_with_options(&img, &spelled, &opts) {
                Ok(u) => u,
                Err(e) => return (json!({"dec":"error","err":format!("prepare: {e:?}").chars().take(70).collect::<String>()}), String::new()),
            };
            (up.encrypted_data.to_vec(), up.encrypted_hash, *up.image_key, *up.image_nonce, 2, raw.then(|| img.clone()))
        }
        c => panic!("fmt {c}"),
    };
    let detail = format!("{fam} {wd}x{ht} {}B blob {}B", img.len(), blob.len());
    // publish in the group data and read back, or use the values directly
    let (mut h2, mut k2, mut n2) = (hash, key, nonce);
    if s(shape, "via") == "groupdata" {
        let info = if ver == 2 {
            let m = MDK::new(MdkMemoryStorage::default());
            let k = Keys::generate();
            let relay = RelayUrl::parse("wss://r.example").unwrap();
            let grp = if r.gen_bool(0.5) {
                let cfg = NostrGroupConfigData::new("img".into(), "".into(), Some(hash), Some(key), Some(nonce), vec![relay], vec![k.public_key()]);
                m.create_group(&k.public_key(), vec![], cfg).expect("create").group.mls_group_id.clone()
            } else {
                let cfg = NostrGroupConfigData::new("img".into(), "".into(), None, None, None, vec![relay], vec![k.public_key()]);
                let gid = m.create_group(&k.public_key(), vec![], cfg).expect("create").group.mls_group_id.clone();
                let upd = NostrGroupDataUpdate::new().image_hash(Some(hash)).image_key(Some(key)).image_nonce(Some(nonce)).image_upload_key(Some(g::arr32(r)));
                m.update_group_data(&gid, upd).expect("update");
                m.merge_pending_commit(&gid).expect("merge");
                gid
            };
            let mg = m.load_mls_group(&grp).unwrap().unwrap();
            NostrGroupDataExtension::from_group(&mg).ok().and_then(|e| e.group_image_encryption_data())
        } else {
            let raw = RawExt {
                ver: 1,
                nid: g::bytes(r, 32),
                name: b"legacy".to_vec(),
                desc: vec![],
                admins: g::bytes(r, 32),
                relays: vec![b"wss://r.example".to_vec()],
                hash: hash.to_vec(),
                key: key.to_vec(),
                nonce: nonce.to_vec(),
                upload: vec![],
            };
            let ctx = ctx_with_ext(&raw.encode()).expect("ctx");
            NostrGroupDataExtension::from_group_context(&ctx).ok().and_then(|e| e.group_image_encryption_data())
        };
        let Some(info) = info else { return (json!({"dec":"error","err":"no image data in the group data"}), detail) };
        if info.version != ver {
            return (json!({"dec":"different","err":"version changed"}), detail);
        }
        h2 = info.image_hash;
        k2 = *info.image_key;
        n2 = *info.image_nonce;
    }
    let mut ct = blob.clone();
    let t = s(shape, "tamper");
    match t {
        "none" => {}
        t if t.starts_with("ct_") => crate::t_media::tamper_ct(&mut ct, t, r),
        "nonce" => g::flip_bit(&mut n2, r, 0, 12),
        "key" => g::flip_bit(&mut k2, r, 0, 32),
        "hash" => g::flip_bit(&mut h2, r, 0, 32),
        c => panic!("tamper {c}"),
    }
    let exp = if s(shape, "hashchk") == "some" { Some(&h2) } else { None };
    let dec = match decrypt_group_image(&ct, exp, &Secret::new(k2), &Secret::new(n2)) {
        Err(_) => "error",
        Ok(p) => match &plain {
            Some(orig) => if &p == orig { "equal" } else { "different" },
            None => {
                // sanitised picture: must decode to a picture of the same size
                match image::load_from_memory(&p) {
                    Ok(i) if i.width() == wd && i.height() == ht => "equal",
                    _ => "different",
                }
            }
        },
    };
    (json!({"dec":dec,"err":""}), detail)
}
