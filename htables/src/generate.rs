//! Seeded generators of concrete values inside a shape class.

use rand::rngs::StdRng;
use rand::seq::SliceRandom;
use rand::{Rng, RngCore, SeedableRng};
use sha2::{Digest, Sha256};

pub fn rng_for(seed: u64, key: &str, inst: u64) -> StdRng {
    let mut h = Sha256::new();
    h.update(seed.to_be_bytes());
    h.update(key.as_bytes());
    h.update(inst.to_be_bytes());
    let d: [u8; 32] = h.finalize().into();
    StdRng::from_seed(d)
}

pub fn bytes(r: &mut StdRng, n: usize) -> Vec<u8> {
    let mut v = vec![0u8; n];
    r.fill_bytes(&mut v);
    v
}
pub fn arr32(r: &mut StdRng) -> [u8; 32] {
    let mut v = [0u8; 32];
    r.fill_bytes(&mut v);
    v
}
pub fn arr12(r: &mut StdRng) -> [u8; 12] {
    let mut v = [0u8; 12];
    r.fill_bytes(&mut v);
    v
}

const ASCII: &[u8] = b"abcdefghijklmnopqrstuvwxyzABCDEFGHIJKLMNOPQRSTUVWXYZ0123456789 _-.,:;!?()[]{}'\"#%&*+=<>@~^|";
/// code points mixing 2-, 3- and 4-byte encodings, combining marks, RTL, CJK, emoji, ZWJ, BOM, NUL-free
const MULTI: &[char] = &[
    'é', 'ü', 'ß', 'Ω', 'Ж', 'ا', 'ש', '中', '文', '日', '本', 'ह', 'ि', '\u{0301}', '\u{200d}', '\u{202e}', '\u{feff}', '🙂', '👩', '🚀', '𝔘', '\u{10ffff}', '€',
    '\u{7ff}', '\u{800}', '\u{ffff}', '\u{10000}', 'a', ' ', '\u{0}', '\n',
];

pub fn ascii(r: &mut StdRng, n: usize) -> String {
    (0..n).map(|_| *ASCII.choose(r).unwrap() as char).collect()
}
/// exactly `n` bytes of UTF-8 mixing multi-byte characters (n >= 0)
pub fn multi_exact(r: &mut StdRng, n: usize) -> String {
    let mut s = String::new();
    while s.len() < n {
        let c = *MULTI.choose(r).unwrap();
        if s.len() + c.len_utf8() <= n {
            s.push(c);
        } else {
            s.push('x');
        }
    }
    s
}

/// A string of the given class (see Tables.tla StrGood).
pub fn string_of(r: &mut StdRng, cls: &str) -> String {
    match cls {
        "empty" => String::new(),
        "ascii" => {
            let n = r.gen_range(1..40);
            ascii(r, n)
        }
        "multi" => {
            let n = r.gen_range(2..60);
            let mut s = multi_exact(r, n);
            if s.is_ascii() {
                s.push('é');
            }
            s
        }
        "b64" => {
            // straddles the 1-byte / 2-byte length prefix
            let n = *[63usize, 64, 65].choose(r).unwrap();
            if r.gen_bool(0.5) { multi_exact(r, n) } else { ascii(r, n) }
        }
        "big" => {
            // straddles the 2-byte / 4-byte length prefix
            let n = *[16383usize, 16384, 16385, 40000].choose(r).unwrap();
            if r.gen_bool(0.5) { multi_exact(r, n) } else { ascii(r, n) }
        }
        _ => panic!("string class {cls}"),
    }
}

/// Like string_of, but "big" means "at the limit the storage backends put on the field" (cap or cap-1 bytes).
pub fn string_capped(r: &mut StdRng, cls: &str, cap: usize) -> String {
    if cls == "big" {
        let n = if r.gen_bool(0.5) { cap } else { cap - 1 };
        if r.gen_bool(0.5) { multi_exact(r, n) } else { ascii(r, n) }
    } else {
        string_of(r, cls)
    }
}

/// Byte strings that are NOT valid UTF-8.
pub fn bad_utf8(r: &mut StdRng) -> Vec<u8> {
    let pool: [&[u8]; 8] = [
        &[0xff],
        &[0x80],
        &[0xc3],             // truncated 2-byte sequence
        &[0xe2, 0x82],       // truncated 3-byte sequence
        &[0xc0, 0x80],       // overlong NUL
        &[0xed, 0xa0, 0x80], // UTF-16 surrogate
        &[0xf4, 0x90, 0x80, 0x80], // > U+10FFFF
        &[0xf8, 0x88, 0x80, 0x80, 0x80],
    ];
    let n1 = r.gen_range(0..6);
    let mut v = ascii(r, n1).into_bytes();
    v.extend_from_slice(pool.choose(r).unwrap());
    let n2 = r.gen_range(0..6);
    v.extend(ascii(r, n2).into_bytes());
    v
}

/// Relay URL spellings that nostr::RelayUrl::parse accepts.
pub fn relay_url(r: &mut StdRng) -> String {
    let hosts = ["relay.example.com", "r1.example", "Relay.Example.COM", "127.0.0.1", "[::1]", "xn--bcher-kva.example", "abcdefghijklmnop.onion", "localhost", "a.b.c.d.e.example.org"];
    let scheme = ["wss://", "ws://", "WSS://", "wss://"];
    let mut s = String::new();
    s.push_str(scheme.choose(r).unwrap());
    s.push_str(hosts.choose(r).unwrap());
    if r.gen_bool(0.3) {
        s.push_str(&format!(":{}", r.gen_range(1..65535)));
    }
    match r.gen_range(0..5) {
        0 => s.push('/'),
        1 => s.push_str("/path/sub"),
        2 => s.push_str("/?q=1&x=%20y"),
        3 => s.push_str(&format!("/{}", r.gen_range(0..1000))),
        _ => {}
    }
    s
}
pub fn distinct_relays(r: &mut StdRng, n: usize) -> Vec<String> {
    let mut out: Vec<String> = vec![];
    let mut guard = 0;
    while out.len() < n {
        let mut u = relay_url(r);
        guard += 1;
        if guard > 50 {
            u = format!("wss://r{}.example", guard);
        }
        if nostr::RelayUrl::parse(&u).is_ok() && !out.iter().any(|x| nostr::RelayUrl::parse(x).ok() == nostr::RelayUrl::parse(&u).ok()) {
            out.push(u);
        }
    }
    out
}
pub fn bad_relay(r: &mut StdRng) -> String {
    ["not a url", "http://example.com", "", "wss://", "relay.example.com", "ftp://x.y/z", "wss://exa mple.com"].choose(r).unwrap().to_string()
}

pub fn flip_bit(v: &mut [u8], r: &mut StdRng, lo: usize, hi: usize) {
    // flips one bit in v[lo..hi)
    let i = r.gen_range(lo..hi);
    v[i] ^= 1 << r.gen_range(0..8);
}

pub fn filename_of(r: &mut StdRng, cls: &str) -> String {
    match cls {
        "ascii" => {
            let n = r.gen_range(1..20);
            let stem = ascii_name(r, n);
            format!("{}.{}", stem, ["txt", "jpg", "png", "pdf", "mp4", "bin"].choose(r).unwrap())
        }
        "unicode" => {
            let n = r.gen_range(3..40);
            let mut s: String = multi_exact(r, n).chars().filter(|c| !c.is_control() && *c != '/' && *c != '\\').collect();
            s.push_str("é.dat");
            s
        }
        "spaces" => format!(" my  file {} .tx t ", r.gen_range(0..100)),
        "max" => {
            let mut s = ascii_name(r, 200);
            s.push_str("ééééé"); // 210 bytes exactly
            s
        }
        "empty" => String::new(),
        "slash" => ["a/b.txt", "/etc/passwd", "x/", "..\\..\\a.txt", "a\\b"].choose(r).unwrap().to_string(),
        "backslash" => ["a\\b.txt", "\\", "c:\\x"].choose(r).unwrap().to_string(),
        "control" => ["a\u{7}b.txt", "x\ny", "\u{0}", "tab\there", "del\u{7f}", "nel\u{85}x"].choose(r).unwrap().to_string(),
        "toolong" => {
            let mut s = ascii_name(r, 201);
            s.push_str("ééééé"); // 211 bytes
            s
        }
        _ => panic!("filename class {cls}"),
    }
}
fn ascii_name(r: &mut StdRng, n: usize) -> String {
    const A: &[u8] = b"abcdefghijklmnopqrstuvwxyzABCDEFGHIJKLMNOPQRSTUVWXYZ0123456789_-. ()";
    let mut s: String = (0..n).map(|_| *A.choose(r).unwrap() as char).collect();
    if s.starts_with(' ') {
        s.replace_range(0..1, "f");
    }
    s
}

/// Picture bytes of the given format; size class -> dimensions.
pub fn image_bytes(r: &mut StdRng, fam: &str, size: &str) -> (Vec<u8>, u32, u32) {
    use image::{ImageBuffer, ImageFormat, Rgb};
    let (w, h) = match size {
        "0" => (1, 1),
        "1" => (2, 3),
        "small" => (r.gen_range(4..40), r.gen_range(4..40)),
        "64k" => (160, 120),
        _ => (640, 480),
    };
    let mut raw = vec![0u8; (w * h * 3) as usize];
    if size == "mb" || size == "64k" {
        // smooth-ish noise keeps codecs fast while still being data dependent
        let a = r.gen_range(1..7) as u32;
        for y in 0..h {
            for x in 0..w {
                let i = ((y * w + x) * 3) as usize;
                raw[i] = ((x * a + y) & 0xff) as u8;
                raw[i + 1] = ((x + y * a) & 0xff) as u8;
                raw[i + 2] = r.r#gen::<u8>();
            }
        }
    } else {
        r.fill_bytes(&mut raw);
    }
    let img: ImageBuffer<Rgb<u8>, Vec<u8>> = ImageBuffer::from_raw(w, h, raw).unwrap();
    let fmt = match fam {
        "png" => ImageFormat::Png,
        "jpeg" => ImageFormat::Jpeg,
        "gif" => ImageFormat::Gif,
        "webp" => ImageFormat::WebP,
        _ => panic!("image family {fam}"),
    };
    let mut out = std::io::Cursor::new(Vec::new());
    image::DynamicImage::ImageRgb8(img).write_to(&mut out, fmt).expect("encode image");
    (out.into_inner(), w, h)
}

pub fn mime_of(fam: &str, r: &mut StdRng) -> String {
    match fam {
        "png" => "image/png".into(),
        "jpeg" => "image/jpeg".into(),
        "gif" => "image/gif".into(),
        "webp" => "image/webp".into(),
        "video" => ["video/mp4", "video/quicktime", "video/x-matroska", "video/webm", "video/x-msvideo", "video/ogg"].choose(r).unwrap().to_string(),
        "audio" => ["audio/ogg", "audio/flac", "audio/x-flac", "audio/aac", "audio/mp4", "audio/webm", "audio/mpeg", "audio/wav", "audio/x-matroska"].choose(r).unwrap().to_string(),
        "pdf" | "doc" => "application/pdf".into(),
        "text" => "text/plain".into(),
        "octet" => "application/octet-stream".into(),
        "image" => ["image/png", "image/jpeg", "image/gif", "image/webp", "image/bmp", "image/x-icon", "image/tiff", "image/x-farbfeld", "image/avif", "image/qoi"].choose(r).unwrap().to_string(),
        "unsupported" => ["application/zip", "text/html", "image/svg+xml", "application/x-msdownload", "video/unknown"].choose(r).unwrap().to_string(),
        _ => panic!("mime family {fam}"),
    }
}
pub fn spell(mime: &str, cls: &str, r: &mut StdRng) -> String {
    match cls {
        "canon" => mime.to_string(),
        "upper" => {
            if r.gen_bool(0.5) { mime.to_ascii_uppercase() } else {
                mime.chars().enumerate().map(|(i, c)| if i % 2 == 0 { c.to_ascii_uppercase() } else { c }).collect()
            }
        }
        "padded" => format!("{}{}{}", [" ", "  ", "\t"].choose(r).unwrap(), mime, [" ", "\t ", "\n"].choose(r).unwrap()),
        "params" => format!("{}{}", mime, ["; charset=utf-8", ";codecs=\"avc1\"", " ; q=0.9; x=y", ";"].choose(r).unwrap()),
        _ => panic!("spelling {cls}"),
    }
}

pub fn payload(r: &mut StdRng, size: &str) -> Vec<u8> {
    let n = match size {
        "0" => 0,
        "1" => 1,
        "small" => r.gen_range(2..4096),
        "64k" => *[65535usize, 65536, 65537].choose(r).unwrap(),
        _ => r.gen_range(1_000_000..3_000_000),
    };
    bytes(r, n)
}
