#!/bin/bash
# usage: tools_confirm_seed.sh <worktree> <seed dir>  -> writes <seed dir>/confirm.txt
# Confirms: patch applies, workspace builds, existing suite passes with it, demo fails with it and passes without.
WT=$1; D=$2; OUT=$D/confirm.txt
cd $WT || exit 2
git checkout -q -- . ; git clean -fdq crates
WHERE=$(head -1 $D/where.txt | tr -d '[:space:]')
RUN=$(head -1 $D/run.txt)
{
echo "worktree=$WT seed=$D repo_head=$(git rev-parse --short HEAD)"
git apply --check $D/patch.diff && echo "apply: ok" || { echo "apply: FAIL"; exit 1; }
git apply $D/patch.diff
if cargo build --workspace --offline 2>&1 | tail -1 | grep -q Finished; then echo "build: ok"; else echo "build: FAIL"; fi
cargo test --workspace --no-fail-fast --offline 2>&1 | grep -E "^test result|FAILED|failed" > /tmp/confirm_suite_$$.txt
FAILS=$(grep -c "FAILED\|[1-9][0-9]* failed" /tmp/confirm_suite_$$.txt)
PASSED=$(grep "^test result" /tmp/confirm_suite_$$.txt | sed 's/.*ok\. \([0-9]*\) passed.*/\1/' | paste -sd+ | bc)
echo "suite_with_patch: passed=$PASSED failing_lines=$FAILS"
mkdir -p $(dirname $WHERE); cp $D/demo_test.rs $WHERE
( cd $WT && eval "$RUN" ) > /tmp/confirm_demo_with_$$.txt 2>&1; echo "demo_with_patch: exit=$? (expect nonzero)"
git apply -R $D/patch.diff
( cd $WT && eval "$RUN" ) > /tmp/confirm_demo_without_$$.txt 2>&1; echo "demo_without_patch: exit=$? (expect 0)"
rm -f $WHERE; git checkout -q -- . ; git clean -fdq crates
rm -f /tmp/confirm_*_$$.txt
} > $OUT 2>&1
cat $OUT
